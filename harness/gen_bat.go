package harness

// Scenario generators for the Batcher families. Every random choice derives from
// (family, seed, idx) through one PRNG.

import (
	"math/rand"
	"sort"
)

const MS = int64(1000000)
const SEC = 1000 * MS
const HOUR = 3600 * SEC

func pick[T any](rng *rand.Rand, xs ...T) T { return xs[rng.Intn(len(xs))] }

func chance(rng *rand.Rand, p float64) bool { return rng.Float64() < p }

// options steering the generic random generator
type batOpts struct {
	gens          []int
	bufcaps       []int
	errFullP      float64
	limiterP      float64
	flushes       []int64
	capints       []int64
	audits        []int64
	maxops        []int64
	pauses        []int64
	maxconcs      []int
	nWatchers     []int
	maxBatches    []uint32
	maxAttempts   []uint32
	wMaxOps       []int64 // relative choices: 0 unset, -1 negative, 1 shorter than batcher, 2 longer
	nOps          []int
	costs         []int64
	caps          []int64 // Capacity() values
	maxcapSlack   []int64 // MaxCapacity = max(cap)+slack
	durs          []int64 // callback durations; -1 = around the timeout; -2 = "never"
	gapMS         []int64 // mean gap between driver steps
	coincideP     float64 // probability that a step is snapped to a multiple of the flush interval
	burstP        float64 // probability that an enqueue is followed by more at the same instant
	reenqP        float64
	maxReenq      int // at most this many re-enqueues of an existing object per scenario
	nonBatchP     float64
	pauseP        float64
	flushP        float64
	probeP        float64
	capChangeP    float64
	maxcapChangeP float64 // MaxCapacity() of the limiter changes on the way
	mixOverrideP  float64 // a Watcher with a longer MaxOperationTime next to one without
	rejectP       float64 // malformed enqueues: nil op, no watcher, too expensive
	holdP         float64 // park an enqueuer at the hook
	costShiftP    float64 // operation whose cost differs at completion
	stopMidP      float64 // stop somewhere in the middle and keep calling the API afterwards
	startLateP    float64 // some calls before Start
	setterP       float64
	horizonMin    int64   // keep running at least this long before the final stop
	lateOnly      bool    // with a never-returning callback present, allow the tail to be long
	busyFDs       []int64 // how long a listener keeps the loop busy inside flush-done (v2)
	busyAudits    []int64 // ... inside the audit events
	busyCaps      []int64 // how long the rate limiter's GiveMe takes
	reactPauses   []int64 // how many resume events are answered by a Pause() from a listener's goroutine
}

func defaultBatOpts() batOpts {
	return batOpts{
		gens: []int{1, 2}, bufcaps: []int{1, 2, 3, 5, 8, 50}, errFullP: 0.3, limiterP: 0.6,
		flushes: []int64{0, 100 * MS, 20 * MS, 7 * MS, 250 * MS}, capints: []int64{0, 100 * MS, 30 * MS, 70 * MS},
		audits: []int64{0, 330 * MS, 1 * SEC}, maxops: []int64{0, 300 * MS, 2 * SEC, 40 * MS},
		pauses: []int64{0, 3 * MS, 250 * MS}, maxconcs: []int{0, 0, 1, 2, 3}, nWatchers: []int{1, 2, 3, 4},
		maxBatches: []uint32{0, 1, 2, 3, 7}, maxAttempts: []uint32{0, 0, 1, 2, 3}, wMaxOps: []int64{0, 0, -1, 1, 2},
		nOps: []int{0, 3, 8, 20, 40}, costs: []int64{0, 1, 1, 2, 3, 5, 10, 40}, caps: []int64{0, 5, 30, 100, 1000, 100000},
		maxcapSlack: []int64{0, 10, 1000}, durs: []int64{0, 1*MS + 13, 30*MS + 7, 170*MS + 3, -1, -2},
		gapMS: []int64{1, 10, 40, 150}, coincideP: 0.08, burstP: 0.2, reenqP: 0.12, maxReenq: 3, nonBatchP: 0.3,
		pauseP: 0.05, flushP: 0.08, probeP: 0.15, capChangeP: 0.05, rejectP: 0.06, holdP: 0.0,
		costShiftP: 0.0, stopMidP: 0.15, startLateP: 0.15, setterP: 0.02, horizonMin: 0,
		busyFDs: []int64{0, 0, 0, 0, 0, 3*MS + 1, 40*MS + 7, 160*MS + 3}, busyAudits: []int64{0, 0, 0, 0, 0, 5*MS + 1, 60*MS + 3},
		busyCaps: []int64{0, 0, 0, 0, 0, 0, 2*MS + 1, 45*MS + 5}, reactPauses: []int64{0, 0, 0, 0, 0, 0, 1, 2},
	}
}

type objInfo struct {
	w, cost, costDone, dur int64
	batchable              bool
}

func dfl(v, d int64) int64 {
	if v <= 0 {
		return d
	}
	return v
}

// genRandomBat builds one random scenario under the given options.
func genRandomBat(rng *rand.Rand, name string, o batOpts) *Scenario {
	sc := &Scenario{Name: name}
	sc.Gen = pick(rng, o.gens...)
	sc.BufCap = pick(rng, o.bufcaps...)
	sc.ErrFull = chance(rng, o.errFullP)
	sc.Limiter = chance(rng, o.limiterP)
	sc.Flush = pick(rng, o.flushes...)
	sc.CapInt = pick(rng, o.capints...)
	sc.Audit = pick(rng, o.audits...)
	sc.MaxOp = pick(rng, o.maxops...)
	sc.Pause = pick(rng, o.pauses...)
	if sc.Gen == 2 {
		sc.MaxConc = pick(rng, o.maxconcs...)
	}
	if len(o.busyFDs) > 0 && sc.Gen == 2 {
		sc.BusyFD = pick(rng, o.busyFDs...)
	}
	if len(o.busyAudits) > 0 {
		sc.BusyAudit = pick(rng, o.busyAudits...)
	}
	if len(o.busyCaps) > 0 && sc.Limiter {
		sc.BusyCap = pick(rng, o.busyCaps...)
	}
	if len(o.reactPauses) > 0 {
		sc.ReactPause = pick(rng, o.reactPauses...)
	}
	effMaxOp := dfl(sc.MaxOp, 60*SEC)
	effFlush := dfl(sc.Flush, 100*MS)
	nw := pick(rng, o.nWatchers...)
	for i := 0; i < nw; i++ {
		wc := WCfg{MaxBatch: pick(rng, o.maxBatches...), MaxAttempts: pick(rng, o.maxAttempts...)}
		switch pick(rng, o.wMaxOps...) {
		case -1:
			wc.MaxOp = -5 * MS
		case 1:
			wc.MaxOp = effMaxOp/2 + 11
		case 2:
			wc.MaxOp = effMaxOp*2 + 11
		}
		sc.Watchers = append(sc.Watchers, wc)
	}
	if o.mixOverrideP > 0 && nw >= 2 && chance(rng, o.mixOverrideP) {
		// one Watcher that allows its batches longer than the Batcher does next to one without a time of its own: the
		// second one's batches must still be written off after the Batcher's time
		sc.Watchers[0].MaxOp = effMaxOp*2 + 11
		sc.Watchers[1].MaxOp = 0
	}
	timeoutOf := func(w int64) int64 {
		if sc.Watchers[w].MaxOp > 0 {
			return sc.Watchers[w].MaxOp
		}
		return effMaxOp
	}
	capv := pick(rng, o.caps...)
	maxcap := capv + pick(rng, o.maxcapSlack...)
	for _, c := range o.caps {
		if c > maxcap && chance(rng, 0.3) {
			maxcap = c
		}
	}
	var steps []Step
	t := int64(0)
	steps = append(steps, Step{At: 0, Kind: "setcap", A: []int64{capv}}, Step{At: 0, Kind: "setmaxcap", A: []int64{maxcap}})
	started := false
	startAt := -1
	nops := pick(rng, o.nOps...)
	if nops > 0 {
		nops = nops/2 + rng.Intn(nops)
	}
	if !sc.ErrFull && nops > sc.BufCap+6 {
		nops = sc.BufCap + 6 // bounds the number of callers blocked at once (each one multiplies the interleavings to replay)
	}
	if !chance(rng, o.startLateP) {
		steps = append(steps, Step{At: 0, Kind: "start"})
		started = true
	} else {
		startAt = rng.Intn(nops/2 + 1)
	}
	objs := map[int64]*objInfo{}
	var objIDs []int64
	nextObj := int64(1)
	gap := pick(rng, o.gapMS...)
	stopAt := -1
	if chance(rng, o.stopMidP) {
		stopAt = rng.Intn(nops + 1)
	}
	stopped := false
	var maxDur int64
	ncalls := int64(0)
	var held []int64
	nReenq := 0
	advance := func() {
		d := int64(rng.ExpFloat64()*float64(gap)*float64(MS)) + 1
		if d > 20*gap*MS {
			d = 20 * gap * MS
		}
		t += d
		if chance(rng, o.coincideP) {
			t = (t/effFlush + 1) * effFlush // exactly on a tick instant (ticks are multiples when Start is at 0)
		} else if t%MS == 0 {
			t += 37
		}
	}
	mkEnq := func() Step {
		if chance(rng, o.rejectP) {
			switch rng.Intn(3) {
			case 0:
				return Step{At: t, Kind: "enq", A: []int64{1, -1, 0, 0, 0, 0, 0, 0}}
			case 1:
				id := nextObj
				nextObj++
				objs[id] = &objInfo{w: -1, cost: 1, costDone: 1}
				return Step{At: t, Kind: "enq", A: []int64{0, -1, id, 1, 1, 0, 0, 0}}
			default:
				if sc.Limiter {
					id := nextObj
					nextObj++
					w := int64(rng.Intn(nw))
					objs[id] = &objInfo{w: w, cost: maxcap + 1, costDone: maxcap + 1}
					return Step{At: t, Kind: "enq", A: []int64{0, w, id, maxcap + 1, maxcap + 1, 1, 0, 0}}
				}
			}
		}
		var id int64
		var inf *objInfo
		if len(objIDs) > 0 && nReenq < o.maxReenq && chance(rng, o.reenqP) {
			nReenq++
			id = objIDs[rng.Intn(len(objIDs))]
			inf = objs[id]
		} else {
			id = nextObj
			nextObj++
			cost := pick(rng, o.costs...)
			if sc.Limiter && cost > maxcap {
				cost = maxcap
			}
			inf = &objInfo{w: int64(rng.Intn(nw)), cost: cost, costDone: cost, batchable: !chance(rng, o.nonBatchP)}
			if chance(rng, o.costShiftP) {
				inf.costDone = pick(rng, 0, cost+1, cost+3, cost/2)
			}
			inf.dur = pick(rng, o.durs...)
			switch inf.dur {
			case -1:
				inf.dur = timeoutOf(inf.w) + pick(rng, int64(-1), 0, 1)
			case -2:
				inf.dur = 10 * HOUR
			}
			objs[id] = inf
			if inf.cost == inf.costDone { // objects with a shifting cost are enqueued once only
				objIDs = append(objIDs, id)
			}
		}
		dur := inf.dur
		if dur > maxDur {
			maxDur = dur
		}
		hold := int64(0)
		if chance(rng, o.holdP) {
			hold = 1
		}
		return Step{At: t, Kind: "enq", A: []int64{0, inf.w, id, inf.cost, inf.costDone, b2i(inf.batchable), dur, hold}}
	}
	for i := 0; i <= nops; i++ {
		if !started && i == startAt {
			advance()
			steps = append(steps, Step{At: t, Kind: "start"})
			started = true
		}
		if i == stopAt && !stopped {
			advance()
			steps = append(steps, Step{At: t, Kind: "stop"})
			stopped = true
		}
		if i == nops {
			break
		}
		advance()
		st := mkEnq()
		steps = append(steps, st)
		if st.A[7] == 1 && st.A[0] == 0 && st.A[1] >= 0 {
			held = append(held, ncalls)
		}
		ncalls++
		for chance(rng, o.burstP) {
			st := mkEnq()
			steps = append(steps, st)
			if st.A[7] == 1 && st.A[0] == 0 && st.A[1] >= 0 {
				held = append(held, ncalls)
			}
			ncalls++
		}
		if len(held) > 0 && chance(rng, 0.5) {
			advance()
			steps = append(steps, Step{At: t, Kind: "release", A: []int64{held[0]}})
			held = held[1:]
		}
		if chance(rng, o.pauseP) {
			advance()
			steps = append(steps, Step{At: t, Kind: "pause"})
		}
		if chance(rng, o.flushP) {
			advance()
			steps = append(steps, Step{At: t, Kind: "flush"})
		}
		if chance(rng, o.probeP) {
			advance()
			steps = append(steps, Step{At: t, Kind: "probe"})
		}
		if sc.Limiter && chance(rng, o.capChangeP) {
			advance()
			nc := pick(rng, o.caps...)
			if nc > maxcap {
				nc = maxcap
			}
			steps = append(steps, Step{At: t, Kind: "setcap", A: []int64{nc}})
		}
		if sc.Limiter && o.maxcapChangeP > 0 && chance(rng, o.maxcapChangeP) {
			// the limiter's MaxCapacity() moves while the Batcher runs (a SharedResource does that when it is
			// reconfigured): operations that were admitted, attempted and come back may now be too expensive as well
			advance()
			steps = append(steps, Step{At: t, Kind: "setmaxcap", A: []int64{pick(rng, int64(0), 3, 39, maxcap, maxcap+60)}})
		}
		if sc.Gen == 2 && started && chance(rng, o.setterP) {
			advance()
			steps = append(steps, Step{At: t, Kind: "setter", A: []int64{int64(rng.Intn(7)), 5 * MS}})
		}
		if chance(rng, 0.01) {
			advance()
			steps = append(steps, Step{At: t, Kind: "start"})
		}
	}
	if !started {
		advance()
		steps = append(steps, Step{At: t, Kind: "start"})
	}
	for _, h := range held {
		advance()
		steps = append(steps, Step{At: t, Kind: "release", A: []int64{h}})
	}
	// let things drain, probing now and then, then stop and probe again
	drain := int64(rng.Intn(5)+1) * effFlush * 3
	if o.horizonMin > 0 && t+drain < o.horizonMin {
		drain = o.horizonMin - t
	}
	for k := 0; k < 3; k++ {
		t += drain/3 + 41
		steps = append(steps, Step{At: t, Kind: "probe"})
	}
	if !stopped {
		t += 13
		steps = append(steps, Step{At: t, Kind: "stop"})
	}
	if chance(rng, 0.3) {
		t += 1*MS + 7
		steps = append(steps, mkEnq())
		ncalls++
	}
	if sc.Gen == 1 && chance(rng, 0.2) {
		t += 17
		steps = append(steps, Step{At: t, Kind: "stop"})
	}
	t += (1+sc.ReactPause)*dfl(sc.Pause, 500*MS) + 5*MS + 3 + 4*(sc.BusyFD+sc.BusyAudit+sc.BusyCap)
	steps = append(steps, Step{At: t, Kind: "probe"})
	sort.SliceStable(steps, func(i, j int) bool { return steps[i].At < steps[j].At })
	sc.Steps = steps
	sc.Tail = maxDur + 2*effMaxOp + 4*effMaxOp + 2*SEC
	for _, w := range sc.Watchers {
		if w.MaxOp > 0 && w.MaxOp+SEC > sc.Tail {
			sc.Tail = w.MaxOp + SEC
		}
	}
	return sc
}

// GenBatcher returns scenario number idx of a family.
func GenBatcher(family string, seed int64, idx int) *Scenario {
	h := int64(0)
	for _, ch := range family {
		h = h*131 + int64(ch)
	}
	rng := rand.New(rand.NewSource(seed*1000003 + int64(idx)*7919 + h))
	o := defaultBatOpts()
	switch family {
	case "smoke":
		return genSmoke(rng, idx)
	case "general":
		return genRandomBat(rng, family, o)
	}
	return genFamily(rng, family, idx, o)
}

func enq(at int64, w, obj, cost int64, batchable bool, dur int64) Step {
	return Step{At: at, Kind: "enq", A: []int64{0, w, obj, cost, cost, b2i(batchable), dur, 0}}
}

func genSmoke(rng *rand.Rand, idx int) *Scenario {
	sc := &Scenario{Name: "smoke", Gen: 2 - idx%2, BufCap: 10, Limiter: true, MaxConc: 0,
		Watchers: []WCfg{{MaxBatch: 2}, {}}, Tail: 70000 * MS}
	sc.Steps = []Step{
		{At: 0, Kind: "setcap", A: []int64{1000}},
		{At: 0, Kind: "setmaxcap", A: []int64{2000}},
		{At: 0, Kind: "start"},
		enq(10*MS+37, 0, 1, 5, true, 3*MS+1),
		enq(10*MS+37, 0, 2, 5, true, 3*MS+1),
		enq(10*MS+37, 0, 3, 5, true, 3*MS+1),
		enq(20*MS+37, 1, 4, 7, false, 0),
		{At: 250*MS + 11, Kind: "probe"},
		{At: 300*MS + 11, Kind: "stop"},
		{At: 400*MS + 11, Kind: "probe"},
	}
	return sc
}

func genFamily(rng *rand.Rand, family string, idx int, o batOpts) *Scenario {
	switch family {
	case "coincide": // everything on tick instants, zero-duration callbacks, bursts
		o.coincideP = 0.6
		o.durs = []int64{0, 0, 100 * MS, 20 * MS, -1}
		o.flushes = []int64{100 * MS, 20 * MS}
		o.capints = []int64{100 * MS, 20 * MS, 40 * MS}
		o.audits = []int64{100 * MS, 200 * MS, 1 * SEC}
		o.maxops = []int64{100 * MS, 40 * MS, 200 * MS}
		o.pauses = []int64{100 * MS, 20 * MS, 60 * MS}
		o.nOps = []int{3, 6, 10}
		o.maxReenq = 1
		o.gapMS = []int64{20, 60}
	case "dups": // the same operation object enqueued several times, small
		o.reenqP = 0.5
		o.maxReenq = 6
		o.nOps = []int{3, 5, 8}
		o.maxAttempts = []uint32{0, 1, 2, 3}
	case "slots": // v2 with a concurrency limit and slow / stuck callbacks
		o.gens = []int{2}
		o.maxconcs = []int{1, 1, 2, 3, 4}
		o.durs = []int64{0, 1*MS + 13, 170*MS + 3, 450*MS + 9, -1, -1, -2}
		o.maxops = []int64{300 * MS, 2 * SEC, 40 * MS}
		o.wMaxOps = []int64{0, 0, -1, 1}
		o.limiterP = 0.3
	case "slots-any": // as slots, but watchers may outlast the Batcher's MaxOperationTime (outside C10's hypothesis)
		o.gens = []int{2}
		o.maxconcs = []int{1, 2, 3}
		o.durs = []int64{0, 170*MS + 3, -1, -2}
		o.audits = []int64{50 * MS, 330 * MS}
		o.maxops = []int64{40 * MS, 300 * MS}
		o.wMaxOps = []int64{0, 2, 2}
	case "limiter": // rate limiting: costs against allowances, changing capacity, manual flushes
		o.limiterP = 1
		o.caps = []int64{0, 1, 5, 9, 10, 30, 70, 100, 580, 1000, 100000}
		o.costs = []int64{0, 1, 2, 3, 5, 7, 10, 29, 58}
		o.capChangeP = 0.15
		o.flushP = 0.2
		o.flushes = []int64{0, 100 * MS, 20 * MS, 7 * MS, 250 * MS, 1 * MS, 1 * SEC, 3 * SEC}
		o.nOps = []int{8, 20, 40, 80}
		o.bufcaps = []int{8, 50, 200}
		o.maxconcs = []int{0}
	case "smallcap": // capacities below one unit per interval, backlog (starvation)
		o.limiterP = 1
		o.caps = []int64{1, 2, 3, 9, 11, 50}
		o.costs = []int64{0, 1, 1, 2, 5}
		o.flushes = []int64{0, 100 * MS, 20 * MS, 1 * MS, 250 * MS, 1 * SEC, 1500 * MS, 3 * SEC}
		o.nOps = []int{5, 20, 40}
		o.bufcaps = []int{50, 200}
		o.horizonMin = 8 * SEC
		o.stopMidP = 0
	case "accounting": // demand figure: rejects of every kind, blocked callers, slow and stuck callbacks, audits, pauses
		o.errFullP = 0.5
		o.bufcaps = []int{1, 2, 3, 5}
		o.rejectP = 0.15
		o.durs = []int64{0, 1*MS + 13, 30*MS + 7, 170*MS + 3, -1, -1, -2}
		o.audits = []int64{50 * MS, 330 * MS, 1 * SEC}
		o.maxops = []int64{40 * MS, 300 * MS, 2 * SEC}
		o.wMaxOps = []int64{0, 0, -1, 1}
		o.pauseP = 0.1
		o.probeP = 0.4
		o.maxAttempts = []uint32{0, 1, 2}
		o.reenqP = 0.2
	case "hold": // callers parked between counting and inserting while audits fire
		o.holdP = 0.25
		o.audits = []int64{30 * MS, 50 * MS, 110 * MS}
		o.maxops = []int64{20 * MS, 40 * MS}
		o.wMaxOps = []int64{0, 0, 1}
		o.durs = []int64{0, 1*MS + 13, 7*MS + 7}
		o.gapMS = []int64{10, 40, 150}
		o.nOps = []int{3, 8}
		o.probeP = 0.4
	case "stale": // operations whose cost differs at completion: the demand figure goes stale and the audit repairs it
		o.costShiftP = 0.4
		o.audits = []int64{50 * MS, 330 * MS}
		o.maxops = []int64{40 * MS, 300 * MS}
		o.wMaxOps = []int64{0, 0, 1}
		o.durs = []int64{0, 1*MS + 13, 30*MS + 7}
		o.horizonMin = 2 * SEC
		o.probeP = 0.4
		o.reenqP = 0
	case "timeouts": // MaxOperationTime: all sign combinations, callbacks around the limit, probes
		o.maxops = []int64{0, -3 * MS, 40 * MS, 300 * MS, 2 * SEC}
		o.wMaxOps = []int64{0, -1, 1, 2}
		o.mixOverrideP = 0.4
		o.durs = []int64{-1, -1, -1, -2, -2, 0, 30*MS + 7}
		o.probeP = 0.5
		o.audits = []int64{0}
		o.nOps = []int{1, 3, 6}
		o.horizonMin = 5 * SEC
	case "ticks": // capacity / audit intervals, pauses overlapping ticks, shutdown at any instant
		o.limiterP = 0.8
		o.capints = []int64{0, -5 * MS, 1 * MS, 30 * MS, 70 * MS, 100 * MS, 1 * SEC}
		o.audits = []int64{0, -1 * MS, 50 * MS, 330 * MS, 1 * SEC}
		o.pauses = []int64{0, 3 * MS, 250 * MS, 2 * SEC}
		o.pauseP = 0.15
		o.coincideP = 0.2
		o.stopMidP = 0.4
	case "pauses":
		o.pauses = []int64{0, -7 * MS, 1 * MS, 3 * MS, 250 * MS, 2 * SEC, 900_000, 2*MS + 500_000, 40*MS + 1}
		o.reactPauses = []int64{0, 0, 1, 2, 3}
		o.pauseP = 0.5
		o.coincideP = 0.2
		o.stopMidP = 0.3
		o.nOps = []int{3, 8, 20}
	case "admission": // the decision table of Enqueue and retry histories
		o.rejectP = 0.3
		o.maxAttempts = []uint32{0, 1, 2, 3}
		o.reenqP = 0.45
		o.maxReenq = 8
		o.nOps = []int{3, 6, 10}
		o.costs = []int64{0, 1, 5, 40, 100, 101}
		o.caps = []int64{100, 100, 100, 0} // MaxCapacity 0: every positive cost is too expensive
		o.maxcapChangeP = 0.12
		o.maxcapSlack = []int64{0}
		o.durs = []int64{0, 1*MS + 13}
		o.gapMS = []int64{150, 400}
	case "buffer": // small buffers, bursts of callers, both full-buffer modes, shutdown while callers are blocked
		o.bufcaps = []int{1, 1, 2, 3}
		o.burstP = 0.6
		o.errFullP = 0.4
		o.stopMidP = 0.5
		o.nOps = []int{5, 10, 25}
		o.maxconcs = []int{0, 1, 2}
		o.durs = []int64{0, 30*MS + 7, 170*MS + 3}
	case "lifecycle": // orders of Start / Pause / Flush / Enqueue / Stop
		o.startLateP = 0.5
		o.stopMidP = 0.7
		o.pauseP = 0.3
		o.flushP = 0.3
		o.setterP = 0.15
		o.nOps = []int{0, 2, 5}
		o.bufcaps = []int{1, 2, 8}
	default:
		return nil
	}
	return genRandomBat(rng, family, o)
}
