package harness

import "math/rand"

const MS = int64(1000000)

// GenBatcher returns scenario number idx of a family; every random choice derives
// from (seed, idx).
func GenBatcher(family string, seed int64, idx int) *Scenario {
	rng := rand.New(rand.NewSource(seed*1000003 + int64(idx)*7919 + int64(len(family))))
	switch family {
	case "smoke":
		return genSmoke(rng, idx)
	}
	return nil
}

func enq(at int64, w, obj, cost int64, batchable bool, dur int64) Step {
	return Step{At: at, Kind: "enq", A: []int64{0, w, obj, cost, cost, b2i(batchable), dur, 0}}
}

func genSmoke(rng *rand.Rand, idx int) *Scenario {
	sc := &Scenario{Name: "smoke", Gen: 2 - idx%2, BufCap: 10, Limiter: true, MaxConc: 0,
		Watchers: []WCfg{{MaxBatch: 2}, {}}, Tail: 70000 * MS}
	sc.Steps = []Step{
		{At: 0, Kind: "setcap", A: []int64{1000}},
		{At: 0, Kind: "setmaxcap", A: []int64{2000}},
		{At: 0, Kind: "start"},
		enq(10*MS+37, 0, 1, 5, true, 3*MS+1),
		enq(10*MS+37, 0, 2, 5, true, 3*MS+1),
		enq(10*MS+37, 0, 3, 5, true, 3*MS+1),
		enq(20*MS+37, 1, 4, 7, false, 0),
		{At: 250*MS + 11, Kind: "probe"},
		{At: 300*MS + 11, Kind: "stop"},
		{At: 400*MS + 11, Kind: "probe"},
	}
	return sc
}
