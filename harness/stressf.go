package harness

// Functional stress in real time: many goroutines enqueue into a running Batcher (both generations) while batches are
// delivered under true parallelism; when everything has drained, the end state is checked without reference to
// any model: every accepted operation delivered exactly once to its own watcher, NeedsCapacity() and Inflight()
// back to zero, buffer empty, no panic.  Run under the race detector by bin/check (C01, C03).

import (
	"context"
	"fmt"
	"math/rand"
	"sync"
	"sync/atomic"
	"time"

	b1 "github.com/mspnp/go-batcher"
	b2 "github.com/mspnp/go-batcher/v2"
)

type stressLimiter2 struct{ b2.EventerBase }

func (*stressLimiter2) MaxCapacity() uint32             { return 1000000 }
func (*stressLimiter2) Capacity() uint32                { return 1000000 }
func (*stressLimiter2) GiveMe(uint32)                   {}
func (*stressLimiter2) Start(ctx context.Context) error { return nil }

type deliveries struct {
	mu    sync.Mutex
	count map[int64]int
	wrong []string
}

func (d *deliveries) add(id int64, watcher, want int) {
	d.mu.Lock()
	d.count[id]++
	if watcher != want {
		d.wrong = append(d.wrong, fmt.Sprintf("operation %d of watcher %d delivered to watcher %d", id, want, watcher))
	}
	d.mu.Unlock()
}

// StressFunctionalV2 returns the violations found (empty = none).
func StressFunctionalV2(seed int64, dur time.Duration) (viol []string) {
	ctx, cancel := context.WithCancel(context.Background())
	defer cancel()
	bat := b2.NewBatcherWithBuffer(20).WithRateLimiter(&stressLimiter2{}).WithFlushInterval(2 * time.Millisecond).
		WithCapacityInterval(3 * time.Millisecond).WithAuditInterval(time.Hour).WithMaxOperationTime(time.Minute).
		WithMaxConcurrentBatches(4)
	d := &deliveries{count: map[int64]int{}}
	owner := sync.Map{}
	mk := func(idx int, maxBatch uint32) b2.Watcher {
		return b2.NewWatcher(func(batch []b2.Operation) {
			for _, op := range batch {
				id := op.Payload().(int64)
				w, _ := owner.Load(id)
				d.add(id, idx, w.(int))
			}
			time.Sleep(time.Duration(50+len(batch)*20) * time.Microsecond)
		}).WithMaxBatchSize(maxBatch)
	}
	ws := []b2.Watcher{mk(0, 3), mk(1, 0)}
	if err := bat.Start(ctx); err != nil {
		return []string{"start: " + err.Error()}
	}
	var next, accepted atomic.Int64
	var panics atomic.Int64
	acc := sync.Map{}
	var wg sync.WaitGroup
	stop := time.Now().Add(dur)
	for g := 0; g < 12; g++ {
		s := seed*131 + int64(g)
		wg.Add(1)
		go func() {
			defer wg.Done()
			defer func() {
				if e := recover(); e != nil {
					panics.Add(1)
				}
			}()
			r := rand.New(rand.NewSource(s))
			for time.Now().Before(stop) {
				id := next.Add(1)
				w := r.Intn(2)
				owner.Store(id, w)
				op := b2.NewOperation(ws[w], uint32(r.Intn(6)), id, r.Intn(3) > 0)
				if err := bat.Enqueue(op); err == nil {
					accepted.Add(1)
					acc.Store(id, true)
				}
				if r.Intn(40) == 0 {
					bat.Flush()
				}
			}
		}()
	}
	wg.Wait()
	// drain
	deadline := time.Now().Add(5 * time.Second)
	for time.Now().Before(deadline) {
		d.mu.Lock()
		n := 0
		for range d.count {
			n++
		}
		d.mu.Unlock()
		if int64(n) >= accepted.Load() && bat.OperationsInBuffer() == 0 && bat.Inflight() == 0 && bat.NeedsCapacity() == 0 {
			break
		}
		time.Sleep(2 * time.Millisecond)
	}
	time.Sleep(5 * time.Millisecond)
	d.mu.Lock()
	defer d.mu.Unlock()
	viol = append(viol, d.wrong...)
	missing, dup := 0, 0
	acc.Range(func(k, _ interface{}) bool {
		switch c := d.count[k.(int64)]; {
		case c == 0:
			missing++
		case c > 1:
			dup++
		}
		return true
	})
	for id := range d.count {
		if _, ok := acc.Load(id); !ok {
			viol = append(viol, fmt.Sprintf("operation %d delivered although its Enqueue returned an error", id))
		}
	}
	if missing > 0 {
		viol = append(viol, fmt.Sprintf("v2: %d of %d accepted operations were never delivered", missing, accepted.Load()))
	}
	if dup > 0 {
		viol = append(viol, fmt.Sprintf("v2: %d accepted operations were delivered more than once", dup))
	}
	if n := bat.NeedsCapacity(); n != 0 {
		viol = append(viol, fmt.Sprintf("v2: NeedsCapacity()=%d with nothing outstanding", n))
	}
	if n := bat.Inflight(); n != 0 {
		viol = append(viol, fmt.Sprintf("v2: Inflight()=%d with nothing outstanding", n))
	}
	if n := bat.OperationsInBuffer(); n != 0 {
		viol = append(viol, fmt.Sprintf("v2: OperationsInBuffer()=%d after draining", n))
	}
	if p := panics.Load(); p != 0 {
		viol = append(viol, fmt.Sprintf("v2: %d enqueuer goroutines panicked", p))
	}
	return viol
}

type stressLimiter1 struct{}

func (stressLimiter1) MaxCapacity() uint32                 { return 1000000 }
func (stressLimiter1) Capacity() uint32                    { return 1000000 }
func (stressLimiter1) GiveMe(uint32)                       {}
func (stressLimiter1) Provision(ctx context.Context) error { return nil }
func (stressLimiter1) Start(ctx context.Context) error     { return nil }
func (stressLimiter1) Stop()                               {}

// StressFunctionalV1: the same for the v1 Batcher.
func StressFunctionalV1(seed int64, dur time.Duration) (viol []string) {
	bat := b1.NewBatcherWithBuffer(20).WithRateLimiter(stressLimiter1{}).WithFlushInterval(2 * time.Millisecond).
		WithCapacityInterval(3 * time.Millisecond).WithAuditInterval(time.Hour).WithMaxOperationTime(time.Minute)
	d := &deliveries{count: map[int64]int{}}
	owner := sync.Map{}
	mk := func(idx int, maxBatch uint32) b1.IWatcher {
		return b1.NewWatcher(func(batch []b1.IOperation) {
			for _, op := range batch {
				id := op.Payload().(int64)
				w, _ := owner.Load(id)
				d.add(id, idx, w.(int))
			}
			time.Sleep(time.Duration(50+len(batch)*20) * time.Microsecond)
		}).WithMaxBatchSize(maxBatch)
	}
	ws := []b1.IWatcher{mk(0, 3), mk(1, 0)}
	if err := bat.Start(); err != nil {
		return []string{"start: " + err.Error()}
	}
	var next, accepted atomic.Int64
	var panics atomic.Int64
	acc := sync.Map{}
	var wg sync.WaitGroup
	stop := time.Now().Add(dur)
	for g := 0; g < 12; g++ {
		s := seed*137 + int64(g)
		wg.Add(1)
		go func() {
			defer wg.Done()
			defer func() {
				if e := recover(); e != nil {
					panics.Add(1)
				}
			}()
			r := rand.New(rand.NewSource(s))
			for time.Now().Before(stop) {
				id := next.Add(1)
				w := r.Intn(2)
				owner.Store(id, w)
				op := b1.NewOperation(ws[w], uint32(r.Intn(6)), id, r.Intn(3) > 0)
				if err := bat.Enqueue(op); err == nil {
					accepted.Add(1)
					acc.Store(id, true)
				}
				if r.Intn(40) == 0 {
					bat.Flush()
				}
			}
		}()
	}
	wg.Wait()
	deadline := time.Now().Add(5 * time.Second)
	for time.Now().Before(deadline) {
		d.mu.Lock()
		n := len(d.count)
		d.mu.Unlock()
		if int64(n) >= accepted.Load() && bat.OperationsInBuffer() == 0 && bat.NeedsCapacity() == 0 {
			break
		}
		time.Sleep(2 * time.Millisecond)
	}
	time.Sleep(5 * time.Millisecond)
	d.mu.Lock()
	defer d.mu.Unlock()
	viol = append(viol, d.wrong...)
	missing, dup := 0, 0
	acc.Range(func(k, _ interface{}) bool {
		switch c := d.count[k.(int64)]; {
		case c == 0:
			missing++
		case c > 1:
			dup++
		}
		return true
	})
	if missing > 0 {
		viol = append(viol, fmt.Sprintf("v1: %d of %d accepted operations were never delivered", missing, accepted.Load()))
	}
	if dup > 0 {
		viol = append(viol, fmt.Sprintf("v1: %d accepted operations were delivered more than once", dup))
	}
	if n := bat.NeedsCapacity(); n != 0 {
		viol = append(viol, fmt.Sprintf("v1: NeedsCapacity()=%d with nothing outstanding", n))
	}
	if n := bat.OperationsInBuffer(); n != 0 {
		viol = append(viol, fmt.Sprintf("v1: OperationsInBuffer()=%d after draining", n))
	}
	if p := panics.Load(); p != 0 {
		viol = append(viol, fmt.Sprintf("v1: %d enqueuer goroutines panicked", p))
	}
	bat.Stop()
	return viol
}
