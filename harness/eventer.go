package harness

// Real-time driver for the event API and for concurrent use of the public API (C20).
// No synctest here: RemoveListener waiting for an emit in progress blocks on a mutex, which a
// synctest bubble does not regard as durably blocked.  Order is recorded with a global
// sequence counter; the monitor judges by call begin/end brackets.

import (
	"bufio"
	"context"
	"fmt"
	"io"
	"math/rand"
	"sync"
	"sync/atomic"
	"time"

	"github.com/google/uuid"
	b1 "github.com/mspnp/go-batcher"
	b2 "github.com/mspnp/go-batcher/v2"
)

type listenerFn = func(event string, val int, msg string, metadata interface{})

// evTarget abstracts the four types that carry the event API
type evTarget interface {
	Add(fn listenerFn) uuid.UUID
	Remove(id uuid.UUID)
	Emit(val int)
}

type tV1Batcher struct{ b *b1.Batcher }

func (t tV1Batcher) Add(fn listenerFn) uuid.UUID { return t.b.AddListener(fn) }
func (t tV1Batcher) Remove(id uuid.UUID)         { t.b.RemoveListener(id) }
func (t tV1Batcher) Emit(val int)                { t.b.VerifEmit("probe", val, "", nil) }

type tV1Shared struct{ r *b1.AzureSharedResource }

func (t tV1Shared) Add(fn listenerFn) uuid.UUID { return t.r.AddListener(fn) }
func (t tV1Shared) Remove(id uuid.UUID)         { t.r.RemoveListener(id) }
func (t tV1Shared) Emit(val int)                { t.r.VerifEmit("probe", val, "", nil) }

type tV2 struct{ e b2.Eventer }

func (t tV2) Add(fn listenerFn) uuid.UUID { return t.e.AddListener(fn) }
func (t tV2) Remove(id uuid.UUID)         { t.e.RemoveListener(id) }
func (t tV2) Emit(val int)                { t.e.Emit("probe", val, "", nil) }

func newTarget(kind int) evTarget {
	switch kind {
	case 0:
		return tV1Batcher{b1.NewBatcherWithBuffer(10).(*b1.Batcher)}
	case 1:
		return tV1Shared{b1.NewAzureSharedResource("a", "c", 10)}
	case 2:
		return tV2{b2.NewBatcherWithBuffer(10)}
	default:
		return tV2{b2.NewSharedResource()}
	}
}

type seqLog struct {
	mu  sync.Mutex
	w   *bufio.Writer
	seq int64
}

func (l *seqLog) f(format string, a ...interface{}) {
	l.mu.Lock()
	l.seq++
	fmt.Fprintf(l.w, "%d ", l.seq)
	fmt.Fprintf(l.w, format, a...)
	l.w.WriteByte('\n')
	l.mu.Unlock()
}

func (l *seqLog) raw(s string) {
	l.mu.Lock()
	l.w.WriteString(s)
	l.w.WriteByte('\n')
	l.mu.Unlock()
}

// scenario A: removals and an addition while an emit is held open by a blocking listener
func evScenarioBlocked(lg *seqLog, kind int, rng *rand.Rand) {
	t := newTarget(kind)
	n := 2 + rng.Intn(7)
	blocker := rng.Intn(n)
	lg.raw(fmt.Sprintf("escenario blocked kind=%d n=%d blocker=%d", kind, n, blocker))
	entered := make(chan struct{}, 1)
	release := make(chan struct{})
	ids := make([]uuid.UUID, n+2)
	mk := func(k int) listenerFn {
		return func(event string, val int, msg string, metadata interface{}) {
			lg.f("deliver %d %d", val, k)
			if k == blocker && val == 1 {
				select {
				case entered <- struct{}{}:
				default:
				}
				<-release
			}
		}
	}
	for k := 0; k < n; k++ {
		lg.f("addbegin %d", k)
		ids[k] = t.Add(mk(k))
		lg.f("addend %d", k)
	}
	var wg sync.WaitGroup
	wg.Add(1)
	go func() {
		defer wg.Done()
		lg.f("emitbegin 1")
		t.Emit(1)
		lg.f("emitend 1")
	}()
	select {
	case <-entered:
	case <-time.After(2 * time.Second):
	}
	nrem := 1 + rng.Intn(n)
	for _, k := range rng.Perm(n)[:nrem] {
		if k == blocker {
			continue
		}
		k := k
		wg.Add(1)
		go func() {
			defer wg.Done()
			lg.f("rembegin %d", k)
			t.Remove(ids[k])
			lg.f("remend %d", k)
		}()
	}
	wg.Add(1)
	go func() {
		defer wg.Done()
		lg.f("addbegin %d", n)
		ids[n] = t.Add(mk(n))
		lg.f("addend %d", n)
	}()
	time.Sleep(time.Duration(5+rng.Intn(25)) * time.Millisecond)
	close(release)
	done := make(chan struct{})
	go func() { wg.Wait(); close(done) }()
	select {
	case <-done:
	case <-time.After(5 * time.Second):
		lg.raw("hang")
		return
	}
	lg.f("emitbegin 2")
	t.Emit(2)
	lg.f("emitend 2")
	lg.raw("endscenario")
}

// scenario C: one goroutine; removals that remove nothing (an id removed twice, ids that were never issued) must
// leave the other listeners alone
func evScenarioRedundant(lg *seqLog, kind int, rng *rand.Rand) {
	t := newTarget(kind)
	n := 1 + rng.Intn(4)
	lg.raw(fmt.Sprintf("escenario redundant kind=%d n=%d", kind, n))
	ids := make([]uuid.UUID, n+1)
	mk := func(k int) listenerFn {
		return func(event string, val int, msg string, metadata interface{}) { lg.f("deliver %d %d", val, k) }
	}
	for k := 0; k < n; k++ {
		lg.f("addbegin %d", k)
		ids[k] = t.Add(mk(k))
		lg.f("addend %d", k)
	}
	gone := -1
	if n > 1 && rng.Intn(2) == 0 {
		gone = rng.Intn(n)
		lg.f("rembegin %d", gone)
		t.Remove(ids[gone])
		lg.f("remend %d", gone)
	}
	for k := 0; k < n+1+rng.Intn(3); k++ {
		if gone >= 0 && rng.Intn(2) == 0 {
			t.Remove(ids[gone]) // a second time
		} else {
			t.Remove(uuid.New()) // never issued
		}
	}
	lg.f("emitbegin 1")
	t.Emit(1)
	lg.f("emitend 1")
	lg.f("addbegin %d", n)
	ids[n] = t.Add(mk(n))
	lg.f("addend %d", n)
	lg.f("emitbegin 2")
	t.Emit(2)
	lg.f("emitend 2")
	lg.raw("endscenario")
}

// scenario B: random concurrent adds, removes and emits
func evScenarioRandom(lg *seqLog, kind int, rng *rand.Rand) {
	t := newTarget(kind)
	lg.raw(fmt.Sprintf("escenario random kind=%d", kind))
	var nextL, nextE atomic.Int64
	nextE.Store(0)
	var wg sync.WaitGroup
	var mu sync.Mutex
	live := map[int64]uuid.UUID{}
	stop := time.Now().Add(time.Duration(20+rng.Intn(40)) * time.Millisecond)
	for g := 0; g < 6; g++ {
		seed := rng.Int63()
		wg.Add(1)
		go func() {
			defer wg.Done()
			r := rand.New(rand.NewSource(seed))
			for time.Now().Before(stop) {
				switch r.Intn(4) {
				case 0:
					k := nextL.Add(1)
					lg.f("addbegin %d", k)
					id := t.Add(func(event string, val int, msg string, metadata interface{}) {
						lg.f("deliver %d %d", val, k)
						if val%7 == 0 {
							time.Sleep(200 * time.Microsecond)
						}
					})
					lg.f("addend %d", k)
					mu.Lock()
					live[k] = id
					mu.Unlock()
				case 1:
					mu.Lock()
					var k int64 = -1
					var id uuid.UUID
					for kk, v := range live {
						k, id = kk, v
						break
					}
					if k >= 0 {
						delete(live, k)
					}
					mu.Unlock()
					if k >= 0 {
						lg.f("rembegin %d", k)
						t.Remove(id)
						lg.f("remend %d", k)
					}
				default:
					e := nextE.Add(1) + 10
					lg.f("emitbegin %d", e)
					t.Emit(int(e))
					lg.f("emitend %d", e)
				}
			}
		}()
	}
	done := make(chan struct{})
	go func() { wg.Wait(); close(done) }()
	select {
	case <-done:
	case <-time.After(10 * time.Second):
		lg.raw("hang")
		return
	}
	lg.raw("endscenario")
}

// RunEventer writes one history with many scenarios.
func RunEventer(seed int64, n int, out io.Writer) {
	lg := &seqLog{w: bufio.NewWriter(out)}
	defer lg.w.Flush()
	lg.raw("eventer-history")
	lg.raw(fmt.Sprintf("# seed %d scenarios %d", seed, n))
	rng := rand.New(rand.NewSource(seed))
	for i := 0; i < n; i++ {
		kind := i % 4
		if i%3 == 2 {
			evScenarioRandom(lg, kind, rng)
		} else if i%5 == 1 {
			evScenarioRedundant(lg, kind, rng)
		} else {
			evScenarioBlocked(lg, kind, rng)
		}
	}
	lg.raw("eof")
}

// ---------- concurrent use of the whole public API (run under the race detector) ----------

type stressLM struct{}

func (stressLM) RaiseEventsTo(e b2.Eventer)                  {}
func (stressLM) Provision(ctx context.Context) error         { return nil }
func (stressLM) CreatePartitions(ctx context.Context, n int) {}
func (stressLM) LeasePartition(ctx context.Context, id string, index uint32) time.Duration {
	return 30 * time.Millisecond
}

type stressLM1 struct{}

func (stressLM1) Provision(ctx context.Context) error               { return nil }
func (stressLM1) CreatePartitions(ctx context.Context, n int) error { return nil }
func (stressLM1) LeasePartition(ctx context.Context, id string, index uint32) time.Duration {
	return 30 * time.Millisecond
}

// StressV2 calls every public method of a v2 Batcher and SharedResource from many goroutines.
func StressV2(seed int64, dur time.Duration) (panics int64) {
	ctx, cancel := context.WithCancel(context.Background())
	defer cancel()
	res := b2.NewSharedResource().WithFactor(1).WithReservedCapacity(5).WithMaxInterval(2).WithSharedCapacity(8, stressLM{})
	res.Start(ctx)
	bat := b2.NewBatcherWithBuffer(50).WithRateLimiter(res).WithFlushInterval(2 * time.Millisecond).
		WithCapacityInterval(3 * time.Millisecond).WithAuditInterval(7 * time.Millisecond).
		WithMaxOperationTime(20 * time.Millisecond).WithPauseTime(3 * time.Millisecond).WithMaxConcurrentBatches(3).
		WithErrorOnFullBuffer().WithEmitBatch()
	var np atomic.Int64
	var nretry atomic.Int64
	w := b2.NewWatcher(func(batch []b2.Operation) {
		if len(batch) > 0 && batch[0].Cost()%5 == 0 {
			bat.Pause()
		}
		// a callback that looks at its operations and retries some of them (the usual way to use MaxAttempts)
		for _, op := range batch {
			_, _, _ = op.Payload(), op.IsBatchable(), op.Watcher()
			if op.Attempt() < 3 && op.Cost()%3 == 1 && nretry.Add(1)%2 == 0 {
				_ = bat.Enqueue(op)
				_ = bat.Enqueue(op) // twice: two batches then carry the same operation
			}
		}
		time.Sleep(time.Duration(len(batch)) * 100 * time.Microsecond)
	}).WithMaxBatchSize(4).WithMaxAttempts(3)
	bat.Start(ctx)
	var wg sync.WaitGroup
	stop := time.Now().Add(dur)
	for g := 0; g < 12; g++ {
		s := seed + int64(g)
		wg.Add(1)
		go func() {
			defer wg.Done()
			defer func() {
				if e := recover(); e != nil {
					np.Add(1)
				}
			}()
			r := rand.New(rand.NewSource(s))
			var ids []uuid.UUID
			for time.Now().Before(stop) {
				switch r.Intn(14) {
				case 0, 1, 2, 3:
					op := b2.NewOperation(w, uint32(r.Intn(6)), nil, r.Intn(3) > 0)
					bat.Enqueue(op)
					if r.Intn(3) == 0 {
						bat.Enqueue(op) // the same operation again before it was delivered
					}
				case 4:
					bat.Flush()
				case 5:
					bat.Pause()
				case 6:
					_ = bat.NeedsCapacity() + bat.OperationsInBuffer() + bat.Inflight()
				case 7:
					res.GiveMe(uint32(r.Intn(20)))
				case 8:
					_ = res.Capacity() + res.MaxCapacity()
				case 9:
					res.SetReservedCapacity(uint32(r.Intn(10)))
				case 10:
					res.SetSharedCapacity(uint32(r.Intn(12)))
				case 11:
					ids = append(ids, bat.AddListener(func(string, int, string, interface{}) {}))
					ids = append(ids, res.AddListener(func(string, int, string, interface{}) {}))
				case 12:
					if len(ids) > 0 {
						bat.RemoveListener(ids[0])
						res.RemoveListener(ids[0])
						ids = ids[1:]
					}
				case 13:
					time.Sleep(200 * time.Microsecond)
				}
			}
		}()
	}
	wg.Wait()
	cancel()
	time.Sleep(30 * time.Millisecond)
	return np.Load()
}

// StressV1 does the same for the v1 types.
func StressV1(seed int64, dur time.Duration) (panics int64) {
	ctx := context.Background()
	res := b1.NewAzureSharedResource("a", "c", 8).WithFactor(1).WithReservedCapacity(5).WithMaxInterval(2)
	res.VerifSetLeaseManager(stressLM1{})
	res.Provision(ctx)
	res.Start(ctx)
	bat := b1.NewBatcherWithBuffer(50).WithRateLimiter(res).WithFlushInterval(2 * time.Millisecond).
		WithCapacityInterval(3 * time.Millisecond).WithAuditInterval(7 * time.Millisecond).
		WithMaxOperationTime(20 * time.Millisecond).WithPauseTime(3 * time.Millisecond).WithErrorOnFullBuffer().WithEmitBatch()
	var np atomic.Int64
	var nretry atomic.Int64
	w := b1.NewWatcher(func(batch []b1.IOperation) {
		for _, op := range batch {
			_, _, _ = op.Payload(), op.IsBatchable(), op.Watcher()
			// v1: no Enqueue from here (an Enqueue that overlaps Stop() is the known finding D2); the enqueuers below
			// submit some operations twice instead, so that two batches carry the same operation
			nretry.Add(int64(op.Attempt()))
		}
		time.Sleep(time.Duration(len(batch)) * 100 * time.Microsecond)
	}).WithMaxBatchSize(4).WithMaxAttempts(3)
	bat.Start()
	var wg sync.WaitGroup
	stop := time.Now().Add(dur)
	for g := 0; g < 12; g++ {
		s := seed + int64(g)
		wg.Add(1)
		go func() {
			defer wg.Done()
			defer func() {
				if e := recover(); e != nil {
					np.Add(1)
				}
			}()
			r := rand.New(rand.NewSource(s))
			var ids []uuid.UUID
			for time.Now().Before(stop) {
				switch r.Intn(11) {
				case 0, 1, 2, 3:
					op := b1.NewOperation(w, uint32(r.Intn(6)), nil, r.Intn(3) > 0)
					bat.Enqueue(op)
					if r.Intn(3) == 0 {
						bat.Enqueue(op) // the same operation again before it was delivered
					}
				case 4:
					bat.Flush()
				case 5:
					bat.Pause()
				case 6:
					_ = bat.NeedsCapacity() + bat.OperationsInBuffer()
				case 7:
					res.GiveMe(uint32(r.Intn(20)))
				case 8:
					_ = res.Capacity() + res.MaxCapacity()
				case 9:
					ids = append(ids, bat.AddListener(func(string, int, string, interface{}) {}))
				case 10:
					if len(ids) > 0 {
						bat.RemoveListener(ids[0])
						ids = ids[1:]
					}
				}
			}
		}()
	}
	wg.Wait()
	bat.Stop()
	res.Stop()
	time.Sleep(40 * time.Millisecond)
	return np.Load()
}
