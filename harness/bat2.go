package harness

// Driver for the v2 Batcher: runs one Scenario against the real code inside a
// synctest bubble and logs everything observable.

import (
	"context"
	"fmt"
	"io"
	"sync"
	"sync/atomic"
	"testing"
	"testing/synctest"
	"time"

	b2 "github.com/mspnp/go-batcher/v2"
)

// ----- fake rate limiter -----

type fakeLimiter2 struct {
	b2.EventerBase
	log    *Logger
	cap    atomic.Uint32
	maxcap atomic.Uint32
	busy   int64 // GiveMe takes this long (ns)
}

func (f *fakeLimiter2) MaxCapacity() uint32 { return f.maxcap.Load() }
func (f *fakeLimiter2) Capacity() uint32 {
	v := f.cap.Load()
	f.log.Logf("L", "capread %d", v)
	return v
}
func (f *fakeLimiter2) GiveMe(v uint32) {
	f.log.Logf("L", "giveme %d", v)
	if f.busy > 0 {
		time.Sleep(time.Duration(f.busy))
	}
}
func (f *fakeLimiter2) Start(ctx context.Context) error { return nil }

// ----- operation whose cost changes once it has been handed to its watcher -----

type shiftyOp2 struct {
	w         b2.Watcher
	cost      uint32
	costDone  uint32
	batchable bool
	payload   interface{}
	attempt   atomic.Uint32
}

func (o *shiftyOp2) Payload() interface{} { return o.payload }
func (o *shiftyOp2) Attempt() uint32      { return o.attempt.Load() }
func (o *shiftyOp2) Cost() uint32 {
	if o.attempt.Load() > 0 {
		return o.costDone
	}
	return o.cost
}
func (o *shiftyOp2) Watcher() b2.Watcher { return o.w }
func (o *shiftyOp2) IsBatchable() bool   { return o.batchable }
func (o *shiftyOp2) MakeAttempt()        { o.attempt.Add(1) }

func classify2(err error) int {
	switch err {
	case nil:
		return ROk
	case b2.NoOperationError:
		return RNoOp
	case b2.NoWatcherError:
		return RNoWatcher
	case b2.TooExpensiveError:
		return RTooExpensive
	case b2.TooManyAttemptsError:
		return RTooManyAttempts
	case b2.BufferFullError:
		return RBufferFull
	case b2.BufferIsShutdown:
		return RShutdown
	}
	return ROther
}

type v2run struct {
	sc      *Scenario
	log     *Logger
	b       b2.Batcher
	lim     *fakeLimiter2
	ws      []b2.Watcher
	objs    map[int64]b2.Operation
	durs    sync.Map // obj id -> callback duration (ns) of the most recent enqueue spec
	holds   sync.Map // op -> chan struct{}
	calls   sync.Map // call id -> chan struct{} (hold channel), for release
	pending atomic.Int64
	reacts  atomic.Int64
	ncall   int64
	cancel  context.CancelFunc
	ctx     context.Context
}

func payloadID(p interface{}) int64 {
	if v, ok := p.(int64); ok {
		return v
	}
	return -1
}

func opIDs2(ops []b2.Operation) []int64 {
	ids := make([]int64, len(ops))
	for i, o := range ops {
		ids[i] = payloadID(o.Payload())
	}
	return ids
}

// busy: the listener takes its time (user code runs inside Emit, in the processing loop's goroutine)
func (r *v2run) busy(d int64) {
	if d > 0 {
		time.Sleep(time.Duration(d))
	}
}

func (r *v2run) listener(event string, val int, msg string, metadata interface{}) {
	switch event {
	case b2.BatchEvent:
		ops, _ := metadata.([]b2.Operation)
		w := -1
		if len(ops) > 0 {
			for i, ww := range r.ws {
				if ww == ops[0].Watcher() {
					w = i
				}
			}
		}
		r.log.Logf("L", "batch %d %s", w, idsString(opIDs2(ops)))
	case b2.PauseEvent:
		r.log.Logf("L", "pause %d", val)
	case b2.ResumeEvent:
		r.log.Logf("L", "resume")
		if r.reacts.Add(1) <= r.sc.ReactPause {
			// a listener that answers the resume by pausing again, from a goroutine of its own
			done := make(chan struct{})
			go func() { r.b.Pause(); close(done) }()
			<-done
		}
	case b2.ShutdownEvent:
		r.log.Logf("L", "shutdown")
		if len(r.ws) > 0 {
			// a listener that answers the shutdown event with an Enqueue (from a goroutine of its own): the Batcher is
			// shut down by then, so the call must report that; the driver-side line is not part of the replayed history
			done := make(chan int, 1)
			go func() { done <- classify2(r.b.Enqueue(b2.NewOperation(r.ws[0], 0, int64(-7), true))) }()
			r.log.Logf("D", "shutenq %d", <-done)
		}
	case b2.AuditSkipEvent:
		r.log.Logf("L", "auditskip")
		r.busy(r.sc.BusyAudit)
	case b2.AuditPassEvent:
		r.log.Logf("L", "auditpass")
		r.busy(r.sc.BusyAudit)
	case b2.AuditFailEvent:
		tb, ib := 0, 0
		switch msg {
		case b2.AuditMsgFailureOnTargetAndInflight:
			tb, ib = 1, 1
		case b2.AuditMsgFailureOnTarget:
			tb = 1
		case b2.AuditMsgFailureOnInflight:
			ib = 1
		}
		r.log.Logf("L", "auditfail %d %d", tb, ib)
		r.busy(r.sc.BusyAudit)
	case b2.RequestEvent:
		r.log.Logf("L", "request %d", val)
	case b2.FlushStartEvent:
		r.log.Logf("L", "flushstart")
	case b2.FlushDoneEvent:
		r.log.Logf("L", "flushdone")
		r.busy(r.sc.BusyFD)
	default:
		r.log.Logf("L", "unknown-event %s %d", event, val)
	}
}

func (r *v2run) makeWatcher(idx int, wc WCfg) b2.Watcher {
	w := b2.NewWatcher(func(batch []b2.Operation) {
		ids := opIDs2(batch)
		att := make([]int64, len(batch))
		for i, o := range batch {
			att[i] = int64(o.Attempt())
		}
		s := idsString(ids)
		for _, a := range att {
			s += fmt.Sprintf(" %d", a)
		}
		r.log.Logf("O", "cbstart %d %s", idx, s)
		var dur int64
		if len(ids) > 0 {
			if d, ok := r.durs.Load(ids[0]); ok {
				dur = d.(int64)
			}
		}
		if dur > 0 {
			time.Sleep(time.Duration(dur))
		}
		r.log.Logf("O", "cbret %d %s", idx, idsString(ids))
	})
	return w.WithMaxBatchSize(wc.MaxBatch).WithMaxAttempts(wc.MaxAttempts).WithMaxOperationTime(time.Duration(wc.MaxOp))
}

func (r *v2run) sample() {
	r.log.Logf("D", "sample %d %d %d %d", r.b.NeedsCapacity(), r.b.OperationsInBuffer(), r.b.Inflight(), r.pending.Load())
}

func (r *v2run) getOp(obj int64, w int64, cost, costDone uint32, batchable bool) b2.Operation {
	if o, ok := r.objs[obj]; ok {
		return o
	}
	var wt b2.Watcher
	if w >= 0 {
		wt = r.ws[w]
	}
	var o b2.Operation
	if cost != costDone {
		o = &shiftyOp2{w: wt, cost: cost, costDone: costDone, batchable: batchable, payload: obj}
	} else {
		o = b2.NewOperation(wt, cost, obj, batchable)
	}
	r.objs[obj] = o
	return o
}

func (r *v2run) doStep(st Step) {
	defer func() {
		if e := recover(); e != nil {
			r.log.Logf("O", "apipanic %s", st.Kind)
		}
	}()
	switch st.Kind {
	case "start":
		r.log.Logf("D", "act start")
		err := r.b.Start(r.ctx)
		r.log.Logf("O", "startret %d", b2i(err == nil))
	case "pause":
		r.log.Logf("D", "act pause")
		r.b.Pause()
	case "flush":
		r.log.Logf("D", "act flush")
		r.b.Flush()
	case "stop":
		r.log.Logf("D", "act stop")
		r.cancel()
	case "setcap":
		r.log.Logf("D", "act setcap %d", st.A[0])
		r.lim.cap.Store(uint32(st.A[0]))
	case "setmaxcap":
		r.log.Logf("D", "act setmaxcap %d", st.A[0])
		r.lim.maxcap.Store(uint32(st.A[0]))
	case "probe":
		r.log.Logf("D", "act probe")
	case "setter":
		r.log.Logf("D", "act setter")
		func() {
			defer func() {
				if e := recover(); e != nil {
					r.log.Logf("O", "setterpanic")
				}
			}()
			switch st.A[0] % 7 {
			case 0:
				r.b.WithRateLimiter(r.lim)
			case 1:
				r.b.WithFlushInterval(time.Duration(st.A[1]))
			case 2:
				r.b.WithCapacityInterval(time.Duration(st.A[1]))
			case 3:
				r.b.WithAuditInterval(time.Duration(st.A[1]))
			case 4:
				r.b.WithMaxOperationTime(time.Duration(st.A[1]))
			case 5:
				r.b.WithPauseTime(time.Duration(st.A[1]))
			case 6:
				r.b.WithErrorOnFullBuffer()
			}
			r.log.Logf("O", "setterquiet")
		}()
	case "release":
		r.log.Logf("D", "act release %d", st.A[0])
		if ch, ok := r.calls.Load(st.A[0]); ok {
			close(ch.(chan struct{}))
			r.calls.Delete(st.A[0])
		}
	case "enq":
		// A: nil w obj cost costdone batchable dur hold
		isNil, w, obj, cost, costDone, batchable, dur, hold := st.A[0] != 0, st.A[1], st.A[2], st.A[3], st.A[4], st.A[5] != 0, st.A[6], st.A[7] != 0
		call := r.ncall
		r.ncall++
		r.log.Logf("D", "act enq %d %d %d %d %d %d %d %d", b2i(isNil), w, obj, cost, costDone, b2i(batchable), dur, b2i(hold))
		var op b2.Operation
		if !isNil {
			op = r.getOp(obj, w, uint32(cost), uint32(costDone), batchable)
			r.durs.Store(obj, dur)
			if hold {
				ch := make(chan struct{})
				r.holds.Store(op, ch)
				r.calls.Store(call, ch)
			}
		}
		r.pending.Add(1)
		go func() {
			res := ROther
			defer func() {
				if e := recover(); e != nil {
					res = RPanic
				}
				r.pending.Add(-1)
				r.log.Logf("O", "enqret %d %d", call, res)
			}()
			res = classify2(r.b.Enqueue(op))
		}()
	default:
		panic("unknown step kind " + st.Kind)
	}
}

// RunBatcherV2 runs sc and writes the history to out. It returns false if the
// bubble could not be wound down (goroutines blocked for ever).
func RunBatcherV2(t *testing.T, sc *Scenario, out io.Writer) {
	synctest.Test(t, func(t *testing.T) {
		start := time.Now()
		lg := NewLogger(out, start)
		currentLogger.Store(lg)
		sc.WriteHeader(lg.w)
		lg.w.Flush() // the scenario is on disk before the code under test runs: a crash leaves a replayable file
		r := &v2run{sc: sc, log: lg, objs: map[int64]b2.Operation{}}
		r.ctx, r.cancel = context.WithCancel(context.Background())
		r.lim = &fakeLimiter2{log: lg, busy: sc.BusyCap}
		for i, wc := range sc.Watchers {
			r.ws = append(r.ws, r.makeWatcher(i, wc))
		}
		b := b2.NewBatcherWithBuffer(uint32(sc.BufCap)).
			WithFlushInterval(time.Duration(sc.Flush)).
			WithCapacityInterval(time.Duration(sc.CapInt)).
			WithAuditInterval(time.Duration(sc.Audit)).
			WithMaxOperationTime(time.Duration(sc.MaxOp)).
			WithPauseTime(time.Duration(sc.Pause)).
			WithEmitBatch().WithEmitFlush().WithEmitRequest()
		if sc.ErrFull {
			b = b.WithErrorOnFullBuffer()
		}
		if sc.Limiter {
			b = b.WithRateLimiter(r.lim)
		}
		if sc.MaxConc > 0 {
			b = b.WithMaxConcurrentBatches(uint32(sc.MaxConc))
		}
		r.b = b
		b.AddListener(r.listener)
		b2.VerifSetHook(func(name string, arg interface{}) {
			if name != "enqueue:counted" {
				return
			}
			if ch, ok := r.holds.LoadAndDelete(arg); ok {
				<-ch.(chan struct{})
			}
		})
		defer b2.VerifSetHook(func(string, interface{}) {})

		for _, st := range sc.Steps {
			d := time.Duration(st.At) - time.Since(start)
			if d > 0 {
				time.Sleep(d)
			}
			r.doStep(st)
			synctest.Wait()
			r.sample()
			lg.Flush()
		}
		// wind-down: release parked callers, cancel, let every timer run out
		lg.Raw("winddown")
		r.calls.Range(func(k, v interface{}) bool { close(v.(chan struct{})); return true })
		r.cancel()
		time.Sleep(time.Duration(sc.Tail))
		synctest.Wait()
		lg.Logf("D", "end %d", r.pending.Load())
		lg.Raw("eof")
		lg.Flush()
	})
}
