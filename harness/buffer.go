package harness

// The v2 buffer (v2/buffer.go) driven directly through the verif hook: every sequence of buffer operations up
// to a given length, for small capacities, plus long random sequences.  Each sequence is recorded with the
// result of every operation and the size afterwards; replay/buffer.ml runs the extracted pointer-level model
// (Model/BufferPtr.v, proved to refine the list view in Proofs/BufferRefine.v) on the same sequence.

import (
	"bufio"
	"fmt"
	"io"
	"math/rand"
	"strings"

	b2 "github.com/mspnp/go-batcher/v2"
)

var bufAlphabet = []string{"T", "S", "R", "Ee", "Eb", "X"}

func runBufferSeq(w *bufio.Writer, cap uint32, cmds []string) {
	buf := b2.VerifNewBuffer(cap)
	watcher := b2.NewWatcher(func(batch []b2.Operation) {})
	next := int64(0)
	var sb strings.Builder
	res := func(op b2.Operation) string {
		if op == nil {
			return "nil"
		}
		return fmt.Sprintf("op%d", payloadID(op.Payload()))
	}
	for _, c := range cmds {
		var r string
		func() {
			defer func() {
				if e := recover(); e != nil {
					r = "panic"
				}
			}()
			switch c {
			case "T":
				r = res(buf.Top())
			case "S":
				r = res(buf.Skip())
			case "R":
				r = res(buf.Remove())
			case "X":
				buf.Shutdown()
				r = "ok"
			case "Ee", "Eb":
				next++
				if c == "Eb" && buf.Size() >= buf.Max() {
					// a blocking Enqueue on a full buffer would wait on notFull: not called (the shutdown flag is tested first)
					err := buf.Enqueue(b2.NewOperation(watcher, 1, next, true), true)
					if err == b2.BufferIsShutdown {
						r = "shut"
					} else {
						r = "wb"
					}
					break
				}
				err := buf.Enqueue(b2.NewOperation(watcher, 1, next, true), c == "Ee")
				switch err {
				case nil:
					r = "ok"
				case b2.BufferFullError:
					r = "full"
				case b2.BufferIsShutdown:
					r = "shut"
				default:
					r = "err"
				}
			}
		}()
		fmt.Fprintf(&sb, " %s:%d", r, buf.Size())
	}
	fmt.Fprintf(w, "seq %d %s\nres%s\n", cap, strings.Join(cmds, " "), sb.String())
}

// RunBuffer writes the buffer history: exhaustive up to maxLen, then nRandom random sequences of length 40.
func RunBuffer(seed int64, maxLen int, nRandom int, out io.Writer) {
	w := bufio.NewWriter(out)
	defer w.Flush()
	fmt.Fprintf(w, "buffer-history\n# seed %d maxlen %d random %d\n", seed, maxLen, nRandom)
	for _, cap := range []uint32{1, 2, 3} {
		var rec func(prefix []string)
		rec = func(prefix []string) {
			if len(prefix) > 0 {
				runBufferSeq(w, cap, prefix)
			}
			if len(prefix) == maxLen {
				return
			}
			for _, c := range bufAlphabet {
				rec(append(append([]string{}, prefix...), c))
			}
		}
		rec(nil)
	}
	rng := rand.New(rand.NewSource(seed))
	for k := 0; k < nRandom; k++ {
		cap := uint32(1 + rng.Intn(6))
		cmds := make([]string, 40)
		for i := range cmds {
			x := rng.Intn(20)
			switch {
			case x < 7:
				cmds[i] = "Ee"
			case x < 9:
				cmds[i] = "Eb"
			case x < 12:
				cmds[i] = "T"
			case x < 15:
				cmds[i] = "S"
			case x < 19:
				cmds[i] = "R"
			default:
				if rng.Intn(8) == 0 {
					cmds[i] = "X"
				} else {
					cmds[i] = "T"
				}
			}
		}
		runBufferSeq(w, cap, cmds)
	}
	fmt.Fprintf(w, "eof\n")
}
