module verif/harness

go 1.26

require (
	github.com/Azure/azure-pipeline-go v0.2.3
	github.com/Azure/azure-storage-blob-go v0.13.0
	github.com/google/uuid v1.2.0
	github.com/mspnp/go-batcher v0.0.0
	github.com/mspnp/go-batcher/v2 v2.0.0
)

require github.com/mattn/go-ieproxy v0.0.1 // indirect

replace github.com/mspnp/go-batcher => /repo

replace github.com/mspnp/go-batcher/v2 => /repo/v2
