package harness

import (
	"io"
	"testing"
)

func RunBatcherV1(t *testing.T, sc *Scenario, out io.Writer) { t.Fatal("v1 not yet") }
