package harness

// Driver for the shared-resource rate limiters (v1 AzureSharedResource, v2 SharedResource):
// N instances in one synctest bubble on one fake lease store, scripted latencies, faults
// and configuration calls; everything observable is logged per instance.

import (
	"bufio"
	"context"
	"fmt"
	"io"
	"math/rand"
	"os"
	"strings"
	"sync"
	"testing"
	"testing/synctest"
	"time"

	b1 "github.com/mspnp/go-batcher"
	b2 "github.com/mspnp/go-batcher/v2"
)

type LeaseScript struct {
	Latency int64 // ns spent inside LeasePartition
	When    int64 // ns after the call started at which the store decides (0..Latency)
	Mode    int   // 0 = the store decides, 1 = refused, 2 = error
}

type SInst struct {
	Factor   int64
	MaxInt   int64
	HasMgr   bool
	Reserved int64
	Shared   int64
	Leases   []LeaseScript // consumed in order; the last one repeats
	Creates  []int64       // v2: how long each CreatePartitions call takes (ns), in order; the last one repeats
}

type SStep struct {
	At   int64
	Inst int
	Kind string
	A    []int64
}

type SScenario struct {
	Name  string
	Gen   int
	Seed  int64
	Insts []SInst
	Steps []SStep
	Tail  int64
}

func (s *SScenario) WriteHeader(w io.Writer) {
	fmt.Fprintf(w, "sname %s\n", s.Name)
	fmt.Fprintf(w, "scfg %d %d %d\n", s.Gen, s.Seed, len(s.Insts))
	for i, in := range s.Insts {
		fmt.Fprintf(w, "sinst %d %d %d %d %d %d\n", i, in.Factor, in.MaxInt, b2i(in.HasMgr), in.Reserved, in.Shared)
		for _, d := range in.Creates {
			fmt.Fprintf(w, "screate %d %d\n", i, d)
		}
		for _, l := range in.Leases {
			fmt.Fprintf(w, "slease %d %d %d %d\n", i, l.Latency, l.When, l.Mode)
		}
	}
	for _, st := range s.Steps {
		fmt.Fprintf(w, "sstep %d %d %s", st.At, st.Inst, st.Kind)
		for _, a := range st.A {
			fmt.Fprintf(w, " %d", a)
		}
		fmt.Fprintln(w)
	}
	fmt.Fprintf(w, "tail %d\n", s.Tail)
	fmt.Fprintln(w, "log")
}

func ReadSScenario(path string) (*SScenario, error) {
	f, err := os.Open(path)
	if err != nil {
		return nil, err
	}
	defer f.Close()
	sc := &SScenario{}
	rd := bufio.NewScanner(f)
	rd.Buffer(make([]byte, 1<<20), 1<<26)
	for rd.Scan() {
		fs := strings.Fields(rd.Text())
		if len(fs) == 0 {
			continue
		}
		switch fs[0] {
		case "sname":
			if len(fs) > 1 {
				sc.Name = fs[1]
			}
		case "scfg":
			sc.Gen = int(atoi(fs[1]))
			sc.Seed = atoi(fs[2])
		case "sinst":
			sc.Insts = append(sc.Insts, SInst{Factor: atoi(fs[2]), MaxInt: atoi(fs[3]), HasMgr: atoi(fs[4]) != 0, Reserved: atoi(fs[5]), Shared: atoi(fs[6])})
		case "screate":
			i := int(atoi(fs[1]))
			sc.Insts[i].Creates = append(sc.Insts[i].Creates, atoi(fs[2]))
		case "slease":
			i := int(atoi(fs[1]))
			sc.Insts[i].Leases = append(sc.Insts[i].Leases, LeaseScript{atoi(fs[2]), atoi(fs[3]), int(atoi(fs[4]))})
		case "sstep":
			st := SStep{At: atoi(fs[1]), Inst: int(atoi(fs[2])), Kind: fs[3]}
			for _, a := range fs[4:] {
				st.A = append(st.A, atoi(a))
			}
			sc.Steps = append(sc.Steps, st)
		case "tail":
			sc.Tail = atoi(fs[1])
		case "log":
			return sc, nil
		}
	}
	return sc, rd.Err()
}

// ----- the fake lease store shared by all instances -----

type storeEntry struct {
	holder string
	expiry time.Time
}

type fakeStore struct {
	mu    sync.Mutex
	parts map[uint32]storeEntry
	log   *Logger
}

// fakeLM is the lease manager of one instance.
type fakeLM struct {
	inst       int
	store      *fakeStore
	log        *Logger
	script     []LeaseScript
	ncall      int
	provOK     bool
	createOK   bool
	mu         sync.Mutex
	eventer2   b2.Eventer
	failCreate bool
	creates    []int64
	ncreate    int
}

func (m *fakeLM) src() string { return fmt.Sprintf("S%d", m.inst) }

func (m *fakeLM) next() LeaseScript {
	m.mu.Lock()
	defer m.mu.Unlock()
	if len(m.script) == 0 {
		return LeaseScript{}
	}
	i := m.ncall
	if i >= len(m.script) {
		i = len(m.script) - 1
	}
	m.ncall++
	return m.script[i]
}

func (m *fakeLM) lease(id string, index uint32) time.Duration {
	m.log.Logf(m.src(), "lm lease %d", index)
	sc := m.next()
	if sc.When > 0 {
		time.Sleep(time.Duration(sc.When))
	}
	var lt time.Duration
	switch sc.Mode {
	case 0:
		m.store.mu.Lock()
		e, ok := m.store.parts[index]
		now := time.Now()
		if !ok || !now.Before(e.expiry) {
			m.store.parts[index] = storeEntry{holder: id, expiry: now.Add(15 * time.Second)}
			lt = 15 * time.Second
			m.log.Logf(m.src(), "store grant %d", index)
		} else {
			m.log.Logf(m.src(), "store refuse %d", index)
		}
		m.store.mu.Unlock()
	case 1:
		m.log.Logf(m.src(), "store refuse %d", index)
	default:
		m.log.Logf(m.src(), "store error %d", index)
	}
	if rest := sc.Latency - sc.When; rest > 0 {
		time.Sleep(time.Duration(rest))
	}
	m.log.Logf(m.src(), "lm leaseret %d %d", index, int64(lt))
	return lt
}

// v1 interface (VerifLeaseManager)
type fakeLM1 struct{ *fakeLM }

func (m fakeLM1) Provision(ctx context.Context) error {
	m.log.Logf(m.src(), "lm provision")
	if !m.provOK {
		return fmt.Errorf("provision failed")
	}
	return nil
}
func (m fakeLM1) CreatePartitions(ctx context.Context, count int) error {
	m.log.Logf(m.src(), "lm create %d", count)
	if !m.createOK {
		return fmt.Errorf("create failed")
	}
	return nil
}
func (m fakeLM1) LeasePartition(ctx context.Context, id string, index uint32) time.Duration {
	return m.lease(id, index)
}

// v2 interface (LeaseManager)
type fakeLM2 struct{ *fakeLM }

func (m fakeLM2) RaiseEventsTo(e b2.Eventer) { m.eventer2 = e }
func (m fakeLM2) Provision(ctx context.Context) error {
	m.log.Logf(m.src(), "lm provision")
	if !m.provOK {
		return fmt.Errorf("provision failed")
	}
	return nil
}
func (m fakeLM2) CreatePartitions(ctx context.Context, count int) {
	m.log.Logf(m.src(), "lm create %d", count)
	// the call takes its time: the resource holds no lock meanwhile (repair D8), so leases can expire
	m.mu.Lock()
	var d int64
	if len(m.creates) > 0 {
		i := m.ncreate
		if i >= len(m.creates) {
			i = len(m.creates) - 1
		}
		d = m.creates[i]
	}
	m.ncreate++
	m.mu.Unlock()
	if d > 0 {
		time.Sleep(time.Duration(d))
	}
}
func (m fakeLM2) LeasePartition(ctx context.Context, id string, index uint32) time.Duration {
	return m.lease(id, index)
}

type sinstRun struct {
	idx       int
	lm        *fakeLM
	r1        *b1.AzureSharedResource
	r2        b2.SharedResource
	ctx       context.Context
	cancel    context.CancelFunc
	dead      bool
	stopAsked bool
}

func (in *sinstRun) src() string { return fmt.Sprintf("S%d", in.idx) }

func sharedListener(lg *Logger, src string) func(event string, val int, msg string, metadata interface{}) {
	return func(event string, val int, msg string, metadata interface{}) {
		switch event {
		case "capacity", "target", "allocated", "released", "error", "provision-start", "provision-done":
			lg.Logf(src, "ev %s %d", event, val)
		case "shutdown":
			lg.Logf(src, "ev shutdown")
		default:
			lg.Logf(src, "ev other-%s %d", event, val)
		}
	}
}

func provErr1(err error) int {
	switch err.(type) {
	case nil:
		return 0
	case b1.RateLimiterImproperOrderError:
		return 1
	case b1.UndefinedLeaseManagerError:
		return 2
	case b1.UndefinedSharedCapacityError:
		return 3
	case b1.PartitionsOutOfRangeError:
		return 4
	}
	return 5
}

// RunShared runs sc and writes the history to out.
func RunShared(t *testing.T, sc *SScenario, out io.Writer) {
	synctest.Test(t, func(t *testing.T) {
		start := time.Now()
		lg := NewLogger(out, start)
		currentLogger.Store(lg)
		sc.WriteHeader(lg.w)
		lg.w.Flush() // the scenario is on disk before the code under test runs: a crash leaves a replayable file
		rand.Seed(sc.Seed)
		store := &fakeStore{parts: map[uint32]storeEntry{}, log: lg}
		var insts []*sinstRun
		for i, ic := range sc.Insts {
			in := &sinstRun{idx: i}
			in.lm = &fakeLM{inst: i, store: store, log: lg, script: ic.Leases, creates: ic.Creates, provOK: true, createOK: true}
			in.ctx, in.cancel = context.WithCancel(context.Background())
			if sc.Gen == 1 {
				r := b1.NewAzureSharedResource("acct", "cont", uint32(ic.Shared)).
					WithFactor(uint32(ic.Factor)).WithReservedCapacity(uint32(ic.Reserved)).WithMaxInterval(uint32(ic.MaxInt))
				r.VerifSetLeaseManager(fakeLM1{in.lm})
				r.AddListener(sharedListener(lg, in.src()))
				in.r1 = r
			} else {
				r := b2.NewSharedResource().WithFactor(uint32(ic.Factor)).WithReservedCapacity(uint32(ic.Reserved)).WithMaxInterval(uint32(ic.MaxInt))
				if ic.HasMgr {
					r = r.WithSharedCapacity(uint32(ic.Shared), fakeLM2{in.lm})
				}
				r.AddListener(sharedListener(lg, in.src()))
				in.r2 = r
			}
			insts = append(insts, in)
		}
		sample := func() {
			for _, in := range insts {
				if in.dead {
					continue
				}
				if sc.Gen == 1 {
					lg.Logf(in.src(), "sample %d %d", in.r1.Capacity(), in.r1.MaxCapacity())
				} else {
					lg.Logf(in.src(), "sample %d %d", in.r2.Capacity(), in.r2.MaxCapacity())
				}
			}
		}
		for _, st := range sc.Steps {
			d := time.Duration(st.At) - time.Since(start)
			if d > 0 {
				time.Sleep(d)
			}
			in := insts[st.Inst]
			func() {
				defer func() {
					if e := recover(); e != nil {
						lg.Logf(in.src(), "apipanic %s", st.Kind)
					}
				}()
				switch st.Kind {
				case "provision": // v1: A = mgr ok, create ok
					in.lm.provOK, in.lm.createOK = st.A[0] != 0, st.A[1] != 0
					lg.Logf(in.src(), "act provision %d %d", st.A[0], st.A[1])
					err := in.r1.Provision(in.ctx)
					lg.Logf(in.src(), "provret %d", provErr1(err))
				case "start":
					in.lm.provOK = st.A[0] != 0
					lg.Logf(in.src(), "act start %d", st.A[0])
					var err error
					if sc.Gen == 1 {
						err = in.r1.Start(in.ctx)
						lg.Logf(in.src(), "startret %d", provErr1(err))
					} else {
						err = in.r2.Start(in.ctx)
						code := 0
						if err == b2.ImproperOrderError {
							code = 1
						} else if err != nil {
							code = 5
						}
						lg.Logf(in.src(), "startret %d", code)
					}
				case "stop":
					if sc.Gen == 1 && in.stopAsked {
						// a second v1 Stop() would block on the phase mutex and freeze the bubble (see gen_shared.go)
						lg.Logf(in.src(), "act probe")
						break
					}
					lg.Logf(in.src(), "act stop")
					in.stopAsked = true
					if sc.Gen == 1 {
						go func() {
							defer func() {
								if e := recover(); e != nil {
									lg.Logf(in.src(), "apipanic stop")
								}
							}()
							in.r1.Stop()
							lg.Logf(in.src(), "stopret")
						}()
					} else {
						in.cancel()
					}
				case "crash": // the process of this instance dies: nothing it counts matters any more
					lg.Logf(in.src(), "act crash")
					in.dead = true
					already := in.stopAsked
					in.stopAsked = true
					if sc.Gen == 1 {
						if !already {
							go in.r1.Stop()
						}
					} else {
						in.cancel()
					}
				case "giveme":
					lg.Logf(in.src(), "act giveme %d", st.A[0])
					if sc.Gen == 1 {
						in.r1.GiveMe(uint32(st.A[0]))
					} else {
						in.r2.GiveMe(uint32(st.A[0]))
					}
				case "setreserved":
					lg.Logf(in.src(), "act setreserved %d", st.A[0])
					in.r2.SetReservedCapacity(uint32(st.A[0]))
				case "setshared":
					lg.Logf(in.src(), "act setshared %d", st.A[0])
					err := in.r2.SetSharedCapacity(uint32(st.A[0]))
					lg.Logf(in.src(), "setsharedret %d", b2i(err == nil))
				case "probe":
					lg.Logf(in.src(), "act probe")
				default:
					panic("unknown sstep " + st.Kind)
				}
			}()
			synctest.Wait()
			sample()
			lg.Flush()
		}
		lg.Raw("winddown")
		for _, in := range insts {
			if sc.Gen == 1 {
				if in.stopAsked {
					continue
				}
				r := in.r1
				go func() {
					defer func() { recover() }()
					r.Stop()
				}()
			} else {
				in.cancel()
			}
		}
		time.Sleep(time.Duration(sc.Tail))
		synctest.Wait()
		lg.Raw("eof")
		lg.Flush()
	})
}
