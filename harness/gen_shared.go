package harness

import (
	"math/rand"
	"sort"
)

type shOpts struct {
	hugeP       float64 // probability of capacities near the top of the uint32 range
	slowCreateP float64 // probability that an instance's CreatePartitions calls take time (v2)
	gens        []int
	nInst       []int
	factors     []int64
	maxInts     []int64
	reserveds   []int64
	shareds     []int64
	latencies   []int64 // ns; jittered
	whenModes   []int   // 0 grant at issue, 1 at return, 2 middle
	faultP      float64
	nSteps      []int
	gapMS       []int64
	demands     []int64
	reconfP     float64 // v2 SetShared/SetReserved steps
	repeatP     float64 // a GiveMe step repeats the previous figure of the same instance
	crashP      float64
	lifeP       float64 // extra Provision/Start/Stop calls in odd orders
	noMgrP      float64
	horizon     int64
	provFailP   float64
}

func defaultShOpts() shOpts {
	return shOpts{
		gens: []int{1, 2}, nInst: []int{1}, factors: []int64{0, 1, 3, 10, 1000}, maxInts: []int64{0, 2, 20, 100, 500},
		reserveds: []int64{0, 5, 100}, shareds: []int64{1, 4, 10, 30, 100}, latencies: []int64{0, 1*MS + 7, 40*MS + 13, 700*MS + 3, 2*SEC + 11, 2*SEC + 11, 15*SEC + 3, 17*SEC + 1},
		whenModes: []int{0, 1, 2}, faultP: 0.15, nSteps: []int{4, 10, 25}, gapMS: []int64{50, 400, 3000},
		demands: []int64{0, 1, 3, 7, 10, 25, 90, 100, 1000}, reconfP: 0.0, crashP: 0, lifeP: 0.03, noMgrP: 0.05, horizon: 40 * SEC,
		provFailP: 0.05, slowCreateP: 0.3, hugeP: 0.04,
	}
}

func genShared(rng *rand.Rand, name string, o shOpts) *SScenario {
	sc := &SScenario{Name: name, Gen: pick(rng, o.gens...), Seed: rng.Int63n(1 << 40)}
	n := pick(rng, o.nInst...)
	factor := pick(rng, o.factors...)
	shared := pick(rng, o.shareds...)
	if factor > 1 && chance(rng, 0.6) {
		shared = shared * factor // often a multiple of the factor
	}
	if shared > 60*maxi(factor, 1) && !chance(rng, 0.1) {
		shared = 60 * maxi(factor, 1) // keep partition counts moderate (the 500 limit has its own family)
	}
	if chance(rng, o.hugeP) {
		// capacities at the top of the uint32 range (the partition count must still be the exact ceiling); the pairs
		// keep reserved + shared and factor x partitions inside uint32, which the API cannot exceed by its types
		hp := pick(rng, 0, 1, 2)
		switch hp {
		case 0:
			shared, factor = 4290000000, 10000000
		case 1:
			shared, factor = 4294000000, 2000000
		default:
			shared, factor = 4294967095, 4294967095
		}
	}
	for i := 0; i < n; i++ {
		in := SInst{Factor: factor, MaxInt: pick(rng, o.maxInts...), HasMgr: true, Reserved: pick(rng, o.reserveds...), Shared: shared}
		if sc.Gen == 2 && chance(rng, o.noMgrP) {
			in.HasMgr = false
		}
		k := 1 + rng.Intn(6)
		for j := 0; j < k; j++ {
			lat := pick(rng, o.latencies...)
			if lat > 0 {
				lat += rng.Int63n(1000)
			}
			ls := LeaseScript{Latency: lat}
			switch pick(rng, o.whenModes...) {
			case 1:
				ls.When = lat
			case 2:
				ls.When = lat / 2
			}
			if chance(rng, o.faultP) {
				ls.Mode = 1 + rng.Intn(2)
			}
			in.Leases = append(in.Leases, ls)
		}
		// v2: CreatePartitions calls that take their time (the first, at Start, included)
		if sc.Gen == 2 && chance(rng, o.slowCreateP) {
			kc := 1 + rng.Intn(4)
			for j := 0; j < kc; j++ {
				in.Creates = append(in.Creates, pick(rng, int64(0), int64(0), 3*1000000+17, 400*1000000+5, 2000*1000000+11, 16000*1000000+3))
			}
		}
		sc.Insts = append(sc.Insts, in)
	}
	t := int64(0)
	gap := pick(rng, o.gapMS...)
	adv := func() {
		d := int64(rng.ExpFloat64()*float64(gap)*float64(MS)) + 1
		if d > 8*gap*MS {
			d = 8 * gap * MS
		}
		t += d
		if t%MS == 0 {
			t += 53
		}
	}
	var steps []SStep
	started := make([]bool, n)
	stopped := make([]bool, n)
	lastAsk := map[int]int64{}
	for i := 0; i < n; i++ {
		adv()
		if sc.Gen == 1 {
			mg, cr := int64(1), int64(1)
			if chance(rng, o.provFailP) {
				mg = 0
			} else if chance(rng, o.provFailP) {
				cr = 0
			}
			steps = append(steps, SStep{At: t, Inst: i, Kind: "provision", A: []int64{mg, cr}})
			adv()
		}
		if chance(rng, 0.1) { // demand before start
			steps = append(steps, SStep{At: t, Inst: i, Kind: "giveme", A: []int64{pick(rng, o.demands...)}})
			adv()
		}
		ok := int64(1)
		if sc.Gen == 2 && chance(rng, o.provFailP) {
			ok = 0
		}
		steps = append(steps, SStep{At: t, Inst: i, Kind: "start", A: []int64{ok}})
		started[i] = true
	}
	ns := pick(rng, o.nSteps...)
	for k := 0; k < ns; k++ {
		adv()
		i := rng.Intn(n)
		switch {
		case sc.Gen == 2 && chance(rng, o.reconfP):
			if chance(rng, 0.5) {
				steps = append(steps, SStep{At: t, Inst: i, Kind: "setreserved", A: []int64{pick(rng, o.reserveds...)}})
			} else {
				v := pick(rng, o.shareds...) * maxi(factor, 1)
				if v > 4294967000 {
					// stay inside what the uint32 API can express (and factor x partitions inside uint32 as well)
					v = pick(rng, shared, shared-maxi(factor, 1), shared/2, int64(1))
				}
				if chance(rng, 0.15) {
					v = 0
				}
				steps = append(steps, SStep{At: t, Inst: i, Kind: "setshared", A: []int64{v}})
			}
		case chance(rng, o.crashP):
			steps = append(steps, SStep{At: t, Inst: i, Kind: "crash"})
		case chance(rng, o.lifeP) && !(sc.Gen == 1 && stopped[i]):
			// NOTE v1: Stop() holds the phase mutex while it waits for the loop; under synctest a second caller
			// blocked on that mutex freezes the bubble (a mutex wait is not "durably blocked"), so no further
			// life-cycle call is scripted for a v1 instance once it was asked to stop
			kind := pick(rng, "start", "stop", "provision")
			if kind == "provision" && sc.Gen == 2 {
				kind = "start"
			}
			if kind == "stop" {
				stopped[i] = true
			}
			a := []int64{1, 1}
			if kind == "stop" {
				a = nil
			}
			steps = append(steps, SStep{At: t, Inst: i, Kind: kind, A: a})
		case chance(rng, 0.3):
			steps = append(steps, SStep{At: t, Inst: i, Kind: "probe"})
		default:
			v := pick(rng, o.demands...)
			if last, ok := lastAsk[i]; ok && o.repeatP > 0 && chance(rng, o.repeatP) {
				v = last // the same figure again (the Batcher repeats its demand on every capacity tick)
			}
			lastAsk[i] = v
			steps = append(steps, SStep{At: t, Inst: i, Kind: "giveme", A: []int64{v}})
		}
	}
	// let it run, probing
	end := t + o.horizon
	for t < end {
		t += o.horizon/8 + 61
		steps = append(steps, SStep{At: t, Inst: rng.Intn(n), Kind: "probe"})
	}
	for i := 0; i < n; i++ {
		t += 1*MS + 17
		if !(sc.Gen == 1 && stopped[i]) {
			steps = append(steps, SStep{At: t, Inst: i, Kind: "stop"})
		}
	}
	t += 600*MS + 29
	steps = append(steps, SStep{At: t, Inst: 0, Kind: "probe"})
	sort.SliceStable(steps, func(a, b int) bool { return steps[a].At < steps[b].At })
	sc.Steps = steps
	sc.Tail = 20 * SEC
	return sc
}

func maxi(a, b int64) int64 {
	if a > b {
		return a
	}
	return b
}

// GenShared returns scenario idx of a shared-resource family.
func GenShared(family string, seed int64, idx int) *SScenario {
	h := int64(0)
	for _, ch := range family {
		h = h*131 + int64(ch)
	}
	rng := rand.New(rand.NewSource(seed*1000003 + int64(idx)*7919 + h))
	o := defaultShOpts()
	switch family {
	case "sh-general":
	case "sh-config": // configuration sweep: factor default, non-divisible, zero shared, 499/500/501 partitions and more
		o.shareds = []int64{0, 1, 7, 10, 100, 499, 500, 501, 10000}
		o.factors = []int64{0, 1, 1, 3, 7}
		o.nSteps = []int{2, 5}
		o.horizon = 20 * SEC
		o.lifeP = 0
		o.hugeP = 0.15
		return genSharedBig(rng, family, o)
	case "sh-demand": // GiveMe histories over several lease durations
		o.nSteps = []int{10, 25}
		o.gapMS = []int64{400, 3000, 9000}
		o.horizon = 50 * SEC
		o.faultP = 0.05
		o.lifeP = 0
		o.reconfP = 0.12 // v2: the reserve or the shared capacity moves between two GiveMe calls
		o.repeatP = 0.35
	case "sh-multi": // several instances on one store, latencies, crashes
		o.nInst = []int{2, 3, 4}
		o.shareds = []int64{1, 2, 4, 6}
		o.factors = []int64{1, 10}
		o.crashP = 0.04
		o.demands = []int64{0, 1, 3, 7, 10, 25, 90}
		o.horizon = 50 * SEC
		o.lifeP = 0
		o.noMgrP = 0
	case "sh-life": // orders of Provision / Start / Stop, provisioning outcomes
		o.lifeP = 0.4
		o.provFailP = 0.3
		o.nSteps = []int{3, 8}
		o.horizon = 5 * SEC
	case "sh-reconf": // v2 live reconfiguration interleaved with grants and expiries
		o.gens = []int{2}
		o.reconfP = 0.45
		o.nSteps = []int{10, 25}
		o.gapMS = []int64{400, 3000}
		o.shareds = []int64{0, 1, 4, 10, 30, 499, 501, 700}
		o.factors = []int64{1, 1, 3}
		o.horizon = 40 * SEC
		o.noMgrP = 0.1
		return genSharedBig(rng, family, o)
	case "sh-acquire": // C09: instance 0 keeps a constant demand; faults come first, peers crash or drop demand at some instant
		return genAcquire(rng, family)
	default:
		return nil
	}
	return genShared(rng, family, o)
}

func genAcquire(rng *rand.Rand, name string) *SScenario {
	sc := &SScenario{Name: name, Gen: pick(rng, 1, 2), Seed: rng.Int63n(1 << 40)}
	n := pick(rng, 1, 2, 3)
	factor := pick(rng, int64(1), 1, 10)
	parts := int64(pick(rng, 1, 2, 3, 5, 8))
	shared := parts * factor
	maxint := pick(rng, int64(2), 20, 100, 500)
	for i := 0; i < n; i++ {
		in := SInst{Factor: factor, MaxInt: maxint, HasMgr: true, Reserved: pick(rng, int64(0), 5), Shared: shared}
		nf := rng.Intn(4) // faults first, then clean calls
		for j := 0; j < nf; j++ {
			lat := pick(rng, int64(0), 1*MS+7, 40*MS+13, 700*MS+3) + rng.Int63n(1000)
			ls := LeaseScript{Latency: lat, When: lat / 2, Mode: 1 + rng.Intn(2)}
			if chance(rng, 0.25) { // a call that is granted but comes back only after the lease is over
				lat = pick(rng, 15*SEC+3, 16*SEC+11, 21*SEC+5)
				ls = LeaseScript{Latency: lat, When: pick(rng, int64(0), 1*SEC, lat/2)}
			}
			in.Leases = append(in.Leases, ls)
		}
		lat := pick(rng, int64(0), 1*MS+7, 40*MS+13, 300*MS+3) + rng.Int63n(1000)
		in.Leases = append(in.Leases, LeaseScript{Latency: lat, When: pick(rng, int64(0), lat/2, lat)})
		sc.Insts = append(sc.Insts, in)
	}
	var steps []SStep
	t := int64(0)
	for i := 0; i < n; i++ {
		t += 3*MS + 7
		if sc.Gen == 1 {
			steps = append(steps, SStep{At: t, Inst: i, Kind: "provision", A: []int64{1, 1}})
			t += 1*MS + 3
		}
		steps = append(steps, SStep{At: t, Inst: i, Kind: "start", A: []int64{1}})
		t += 1*MS + 3
		want := int64(1 + rng.Intn(int(parts)+1))
		steps = append(steps, SStep{At: t, Inst: i, Kind: "giveme", A: []int64{sc.Insts[i].Reserved + want*factor - int64(rng.Intn(int(factor)))}})
	}
	// peers die or drop their demand somewhere in the first 20 s
	for i := 1; i < n; i++ {
		at := t + int64(rng.Intn(20000))*MS + 11
		if chance(rng, 0.5) {
			steps = append(steps, SStep{At: at, Inst: i, Kind: "crash"})
		} else {
			steps = append(steps, SStep{At: at, Inst: i, Kind: "giveme", A: []int64{0}})
		}
	}
	end := t + 75*SEC
	for t < end {
		t += 5*SEC + 61
		steps = append(steps, SStep{At: t, Inst: 0, Kind: "probe"})
	}
	for i := 0; i < n; i++ {
		t += 1*MS + 17
		steps = append(steps, SStep{At: t, Inst: i, Kind: "stop"})
	}
	t += 600*MS + 29
	steps = append(steps, SStep{At: t, Inst: 0, Kind: "probe"})
	sort.SliceStable(steps, func(a, b int) bool { return steps[a].At < steps[b].At })
	sc.Steps = steps
	sc.Tail = 20 * SEC
	return sc
}

// genSharedBig does not cap the partition count.
func genSharedBig(rng *rand.Rand, name string, o shOpts) *SScenario {
	sc := genShared(rng, name, o)
	return sc
}
