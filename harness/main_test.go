package harness

import (
	"fmt"
	"os"
	"path/filepath"
	"runtime"
	"strconv"
	"strings"
	"sync/atomic"
	"testing"
	"time"
)

func envInt(name string, def int64) int64 {
	if v := os.Getenv(name); v != "" {
		n, err := strconv.ParseInt(v, 10, 64)
		if err == nil {
			return n
		}
	}
	return def
}

// TestBatcher generates (or re-runs) Batcher scenarios and records their histories.
//
//	VERIF_FAMILY  generator family (e.g. C01)        VERIF_SEED  seed
//	VERIF_N       number of scenarios                VERIF_OUT   output directory
//	VERIF_FROM    first scenario index (shards)      VERIF_SCRIPT re-run this history/script file
func TestBatcher(t *testing.T) {
	out := os.Getenv("VERIF_OUT")
	if out == "" {
		t.Skip("VERIF_OUT not set")
	}
	os.MkdirAll(out, 0o755)
	if script := os.Getenv("VERIF_SCRIPT"); script != "" {
		sc, err := ReadScenario(script)
		if err != nil {
			t.Fatal(err)
		}
		runOne(t, sc, filepath.Join(out, "replay.hist"))
		return
	}
	family := os.Getenv("VERIF_FAMILY")
	seed := envInt("VERIF_SEED", 1)
	n := int(envInt("VERIF_N", 10))
	from := int(envInt("VERIF_FROM", 0))
	for i := from; i < from+n; i++ {
		sc := GenBatcher(family, seed, i)
		if sc == nil {
			t.Fatalf("unknown family %q", family)
		}
		runOne(t, sc, filepath.Join(out, fmt.Sprintf("%s-%d-%05d.hist", family, seed, i)))
	}
}

var currentLogger atomic.Value

// runOne runs one scenario under a real-time watchdog: goroutines blocked on a
// mutex are not "durably blocked" for synctest, so a genuine deadlock freezes the
// bubble; the watchdog records it in the history ("hang") and ends the process
// with status 3 so that the caller can carry on with the next scenario.
func runOne(t *testing.T, sc *Scenario, path string) {
	f, err := os.Create(path)
	if err != nil {
		t.Fatal(err)
	}
	defer f.Close()
	limit := time.Duration(envInt("VERIF_WATCHDOG_S", 25)) * time.Second
	wd := time.AfterFunc(limit, func() {
		if lg, ok := currentLogger.Load().(*Logger); ok && lg != nil {
			if lg.mu.TryLock() {
				lg.w.Flush()
			}
		}
		fmt.Fprintf(f, "hang\n")
		buf := make([]byte, 1<<20)
		n := runtime.Stack(buf, true)
		os.WriteFile(path+".stacks", buf[:n], 0o644)
		f.Sync()
		os.Exit(3)
	})
	defer wd.Stop()
	// a bubble whose goroutines stay blocked for ever (callers blocked on a buffer that
	// is never shut down, batch goroutines blocked on a drained slot channel) ends in a
	// synctest panic; the history is complete by then (its "end" line says how many
	// Enqueue calls never returned)
	defer func() {
		if e := recover(); e != nil {
			fmt.Fprintf(f, "bubble-panic %v\n", e)
		}
	}()
	if sc.Gen == 1 {
		RunBatcherV1(t, sc, f)
	} else {
		RunBatcherV2(t, sc, f)
	}
}

// TestShared: the same for the shared-resource rate limiters.
func TestShared(t *testing.T) {
	out := os.Getenv("VERIF_OUT")
	if out == "" {
		t.Skip("VERIF_OUT not set")
	}
	os.MkdirAll(out, 0o755)
	if script := os.Getenv("VERIF_SCRIPT"); script != "" {
		sc, err := ReadSScenario(script)
		if err != nil {
			t.Fatal(err)
		}
		runShared(t, sc, filepath.Join(out, "replay.hist"))
		return
	}
	family := os.Getenv("VERIF_FAMILY")
	seed := envInt("VERIF_SEED", 1)
	n := int(envInt("VERIF_N", 10))
	from := int(envInt("VERIF_FROM", 0))
	for i := from; i < from+n; i++ {
		sc := GenShared(family, seed, i)
		if sc == nil {
			t.Fatalf("unknown family %q", family)
		}
		runShared(t, sc, filepath.Join(out, fmt.Sprintf("%s-%d-%05d.hist", family, seed, i)))
	}
}

func runShared(t *testing.T, sc *SScenario, path string) {
	f, err := os.Create(path)
	if err != nil {
		t.Fatal(err)
	}
	defer f.Close()
	limit := time.Duration(envInt("VERIF_WATCHDOG_S", 25)) * time.Second
	wd := time.AfterFunc(limit, func() {
		if lg, ok := currentLogger.Load().(*Logger); ok && lg != nil {
			if lg.mu.TryLock() {
				lg.w.Flush()
			}
		}
		fmt.Fprintf(f, "hang\n")
		buf := make([]byte, 1<<20)
		n := runtime.Stack(buf, true)
		os.WriteFile(path+".stacks", buf[:n], 0o644)
		f.Sync()
		os.Exit(3)
	})
	defer wd.Stop()
	defer func() {
		if e := recover(); e != nil {
			fmt.Fprintf(f, "bubble-panic %v\n", e)
		}
	}()
	RunShared(t, sc, f)
}

// TestLease: the Azure Blob lease managers (C18); one history with all cases.
func TestLease(t *testing.T) {
	out := os.Getenv("VERIF_OUT")
	if out == "" {
		t.Skip("VERIF_OUT not set")
	}
	os.MkdirAll(out, 0o755)
	seed := envInt("VERIF_SEED", 1)
	f, err := os.Create(filepath.Join(out, fmt.Sprintf("lease-%d-00000.hist", seed)))
	if err != nil {
		t.Fatal(err)
	}
	defer f.Close()
	RunLease(t, seed, os.Getenv("VERIF_THOROUGH") == "1", f)
}

// TestEventer records the event-API history; TestStress runs the concurrent-use stress (meant for -race).
func TestEventer(t *testing.T) {
	out := os.Getenv("VERIF_OUT")
	if out == "" {
		t.Skip("VERIF_OUT not set")
	}
	os.MkdirAll(out, 0o755)
	if script := os.Getenv("VERIF_SCRIPT"); script != "" {
		// replay: the header of a recorded history names the seed and the number of scenarios
		data, err := os.ReadFile(script)
		if err != nil {
			t.Fatal(err)
		}
		var s, k int64
		for _, line := range strings.Split(string(data), "\n") {
			if _, err := fmt.Sscanf(line, "# seed %d scenarios %d", &s, &k); err == nil {
				break
			}
		}
		f, err := os.Create(filepath.Join(out, "replay.hist"))
		if err != nil {
			t.Fatal(err)
		}
		RunEventer(s, int(k), f)
		f.Close()
		return
	}
	seed := envInt("VERIF_SEED", 1)
	from := envInt("VERIF_FROM", 0)
	n := int(envInt("VERIF_N", 1))
	for i := 0; i < n; i++ {
		f, err := os.Create(filepath.Join(out, fmt.Sprintf("eventer-%d-%05d.hist", seed, from+int64(i))))
		if err != nil {
			t.Fatal(err)
		}
		RunEventer(seed*7919+from+int64(i), int(envInt("VERIF_EV_SCENARIOS", 24)), f)
		f.Close()
	}
}

func TestStress(t *testing.T) {
	out := os.Getenv("VERIF_OUT")
	if out == "" {
		t.Skip("VERIF_OUT not set")
	}
	seed := envInt("VERIF_SEED", 1)
	d := time.Duration(envInt("VERIF_STRESS_MS", 300)) * time.Millisecond
	p2 := StressV2(seed, d)
	p1 := StressV1(seed, d)
	fmt.Printf("STRESS panics v1=%d v2=%d\n", p1, p2)
	if p1+p2 > 0 {
		t.Fatalf("panics under concurrent use: v1=%d v2=%d", p1, p2)
	}
}

// TestSharedRT: real-time scenarios of the shared resources (shared_rt.go); monitor-only histories.
func TestSharedRT(t *testing.T) {
	out := os.Getenv("VERIF_OUT")
	if out == "" {
		t.Skip("VERIF_OUT not set")
	}
	os.MkdirAll(out, 0o755)
	if script := os.Getenv("VERIF_SCRIPT"); script != "" {
		data, err := os.ReadFile(script)
		if err != nil {
			t.Fatal(err)
		}
		var s int64
		for _, line := range strings.Split(string(data), "\n") {
			if _, err := fmt.Sscanf(line, "# seed %d", &s); err == nil {
				break
			}
		}
		f, err := os.Create(filepath.Join(out, "replay.hist"))
		if err != nil {
			t.Fatal(err)
		}
		RunSharedRT(s, f)
		f.Close()
		return
	}
	seed := envInt("VERIF_SEED", 1)
	from := envInt("VERIF_FROM", 0)
	n := int(envInt("VERIF_N", 1))
	for i := 0; i < n; i++ {
		f, err := os.Create(filepath.Join(out, fmt.Sprintf("rt-shared-%d-%05d.hist", seed, from+int64(i))))
		if err != nil {
			t.Fatal(err)
		}
		RunSharedRT(seed*104729+from+int64(i), f)
		f.Close()
	}
}

// TestBuffer: the v2 buffer driven directly (buffer.go); exhaustive short sequences and random long ones.
func TestBuffer(t *testing.T) {
	out := os.Getenv("VERIF_OUT")
	if out == "" {
		t.Skip("VERIF_OUT not set")
	}
	os.MkdirAll(out, 0o755)
	seed := envInt("VERIF_SEED", 1)
	from := envInt("VERIF_FROM", 0)
	n := int(envInt("VERIF_N", 1))
	maxLen, nRandom := 5, 2000
	if os.Getenv("VERIF_THOROUGH") != "" {
		maxLen, nRandom = 6, 20000
	}
	if script := os.Getenv("VERIF_SCRIPT"); script != "" {
		// replay: the same exhaustive set and the random sequences of the recorded seed
		data, err := os.ReadFile(script)
		if err != nil {
			t.Fatal(err)
		}
		var s int64
		var ml, nr int
		for _, line := range strings.Split(string(data), "\n") {
			if _, err := fmt.Sscanf(line, "# seed %d maxlen %d random %d", &s, &ml, &nr); err == nil {
				break
			}
		}
		f, err := os.Create(filepath.Join(out, "replay.hist"))
		if err != nil {
			t.Fatal(err)
		}
		RunBuffer(s, ml, nr, f)
		f.Close()
		return
	}
	for i := 0; i < n; i++ {
		f, err := os.Create(filepath.Join(out, fmt.Sprintf("buffer-ops-%d-%05d.hist", seed, from+int64(i))))
		if err != nil {
			t.Fatal(err)
		}
		ml := maxLen
		if from+int64(i) > 0 {
			ml = 3 // the exhaustive part is the same for every file: only the first carries it in full
		}
		RunBuffer(seed*6151+from+int64(i), ml, nRandom, f)
		f.Close()
	}
}

// TestStressFunctional: real-time functional stress of both Batcher generations (stressf.go).
func TestStressFunctional(t *testing.T) {
	if os.Getenv("VERIF_OUT") == "" {
		t.Skip("VERIF_OUT not set")
	}
	seed := envInt("VERIF_SEED", 1)
	d := time.Duration(envInt("VERIF_STRESS_MS", 300)) * time.Millisecond
	v := append(StressFunctionalV2(seed, d), StressFunctionalV1(seed, d)...)
	for _, s := range v {
		fmt.Printf("STRESSF violation %s\n", s)
	}
	fmt.Printf("STRESSF violations=%d\n", len(v))
	if len(v) > 0 {
		t.Fatalf("%d violations under concurrent use", len(v))
	}
}
