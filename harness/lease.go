package harness

// Driver for the Azure Blob lease managers of both generations (C18).  Two levels:
//  * "mock": container and blob are fakes returning scripted errors — every service code of
//    the SDK and non-storage errors at each call site and at each position of a multi-blob run;
//  * "sdk": the container is a fake whose NewBlockBlobURL returns a real azblob.BlockBlobURL on
//    a pipeline with an in-process HTTP sender, so the requests the production path really
//    makes (blob name, If-None-Match, lease duration and id) are observed.

import (
	"bufio"
	"context"
	"errors"
	"fmt"
	"io"
	"math/rand"
	"net/http"
	"net/url"
	"os"
	"path/filepath"
	"regexp"
	"sort"
	"strings"
	"testing"
	"time"

	"github.com/Azure/azure-pipeline-go/pipeline"
	"github.com/Azure/azure-storage-blob-go/azblob"
	b1 "github.com/mspnp/go-batcher"
	b2 "github.com/mspnp/go-batcher/v2"
)

// ServiceCodes reads the service code constants from the SDK source in the module cache.
func ServiceCodes() []string {
	dir := os.Getenv("VERIF_AZBLOB_DIR")
	var out []string
	re := regexp.MustCompile(`ServiceCode\w+\s+ServiceCodeType\s*=\s*"([^"]+)"`)
	for _, f := range []string{"service_codes_blob.go", "zc_service_codes_common.go"} {
		data, err := os.ReadFile(filepath.Join(dir, "azblob", f))
		if err != nil {
			continue
		}
		for _, m := range re.FindAllStringSubmatch(string(data), -1) {
			out = append(out, m[1])
		}
	}
	sort.Strings(out)
	// de-duplicate
	var u []string
	for i, s := range out {
		if i == 0 || s != out[i-1] {
			u = append(u, s)
		}
	}
	return u
}

type fakeStorageError struct{ code azblob.ServiceCodeType }

func (e fakeStorageError) ServiceCode() azblob.ServiceCodeType { return e.code }
func (e fakeStorageError) Error() string                       { return "storage error " + string(e.code) }
func (e fakeStorageError) Timeout() bool                       { return false }
func (e fakeStorageError) Temporary() bool                     { return false }
func (e fakeStorageError) Response() *http.Response            { return nil }

// outcome: "ok", "other" (non-storage error) or a service code
func errOf(outcome string) error {
	switch outcome {
	case "ok":
		return nil
	case "other":
		return errors.New("connection reset")
	case "cancel":
		return context.Canceled
	}
	return fakeStorageError{code: azblob.ServiceCodeType(outcome)}
}

type leaseLog struct {
	w    *bufio.Writer
	mute bool
}

func (l *leaseLog) f(format string, a ...interface{}) {
	if !l.mute {
		fmt.Fprintf(l.w, format+"\n", a...)
	}
}

type mockContainer struct {
	log     *leaseLog
	outcome string
	sdkBlob func(name string) azblob.BlockBlobURL
}

func (c *mockContainer) Create(context.Context, azblob.Metadata, azblob.PublicAccessType) (*azblob.ContainerCreateResponse, error) {
	c.log.f("call create-container")
	return nil, errOf(c.outcome)
}
func (c *mockContainer) NewBlockBlobURL(name string) azblob.BlockBlobURL {
	c.log.f("call new-blob-url %s", name)
	if c.sdkBlob != nil {
		return c.sdkBlob(name)
	}
	return azblob.BlockBlobURL{}
}

type mockBlob struct {
	log      *leaseLog
	uploads  []string // outcome per upload, in order; the last repeats
	nUpload  int
	acquires string
}

func (b *mockBlob) Upload(ctx context.Context, r io.ReadSeeker, h azblob.BlobHTTPHeaders, m azblob.Metadata, ac azblob.BlobAccessConditions, t azblob.AccessTierType, tags azblob.BlobTagsMap, k azblob.ClientProvidedKeyOptions) (*azblob.BlockBlobUploadResponse, error) {
	i := b.nUpload
	b.nUpload++
	o := "ok"
	if len(b.uploads) > 0 {
		if i < len(b.uploads) {
			o = b.uploads[i]
		} else {
			o = b.uploads[len(b.uploads)-1]
		}
	}
	b.log.f("call upload %d ifnonematch=%s", i, string(ac.ModifiedAccessConditions.IfNoneMatch))
	return nil, errOf(o)
}
func (b *mockBlob) AcquireLease(ctx context.Context, id string, dur int32, ac azblob.ModifiedAccessConditions) (*azblob.BlobAcquireLeaseResponse, error) {
	b.log.f("call acquire id=%s duration=%d", id, dur)
	return nil, errOf(b.acquires)
}

func leaseListener(log *leaseLog) func(event string, val int, msg string, metadata interface{}) {
	return func(event string, val int, msg string, metadata interface{}) {
		log.f("ev %s %d", event, val)
	}
}

type eventer2 struct {
	b2.EventerBase
}

// leaseCtxCancelled: the next mock-level cases run with a context that is already cancelled
var leaseCtxCancelled bool

// leaseProvisionFirst: the next "create" cases call Provision() on the same manager first, with this outcome of the
// container creation (not recorded): what CreatePartitions does must not depend on it
var leaseProvisionFirst string

// one case against one generation at the mock level
// leaseCaseMock runs one call against in-package fakes.  prev >= 0 (kind "create" only): the same manager has
// already served a CreatePartitions(prev) call whose uploads all failed; the call that is recorded must behave
// exactly like a first call (the manager keeps no memory of what it created).
func leaseCaseMock(log *leaseLog, gen int, kind string, n int, index int, outcomes []string) {
	leaseCaseMockPrev(log, gen, kind, n, index, outcomes, -1)
}

func leaseCaseMockPrev(log *leaseLog, gen int, kind string, n int, index int, outcomes []string, prev int) {
	log.f("case %d mock %s %d %d %s", gen, kind, n, index, strings.Join(outcomes, " "))
	cont := &mockContainer{log: log, outcome: "ok"}
	blob := &mockBlob{log: log, acquires: "ok"}
	provisionFirst := func(call func()) {
		if leaseProvisionFirst != "" && kind == "create" {
			cont.outcome = leaseProvisionFirst
			log.mute = true
			call()
			log.mute = false
			log.f("note provisioned-first %s", leaseProvisionFirst)
		}
	}
	warm := func(call func()) {
		if prev >= 0 && kind == "create" {
			blob.uploads = []string{"ServerBusy"}
			log.mute = true
			call()
			log.mute = false
			blob.nUpload = 0
			blob.uploads = outcomes
		}
	}
	switch kind {
	case "provision":
		cont.outcome = outcomes[0]
	case "create":
		blob.uploads = outcomes
	case "lease":
		blob.acquires = outcomes[0]
	}
	ctx := context.Background()
	if leaseCtxCancelled {
		// the caller's context is already cancelled (a resource that is shutting down): the outcome of the storage
		// call is classified and reported exactly as with a live context
		c, cancel := context.WithCancel(ctx)
		cancel()
		ctx = c
		log.f("note ctx-cancelled")
	}
	key := "a2V5" // base64
	if gen == 1 {
		m := b1.VerifNewBlobLeaseManager("acct", "cont", &key, cont, blob, leaseListener(log))
		switch kind {
		case "provision":
			err := m.Provision(ctx)
			log.f("ret %d", b2i(err == nil))
		case "create":
			provisionFirst(func() { m.Provision(ctx) })
			warm(func() { m.CreatePartitions(ctx, prev) })
			err := m.CreatePartitions(ctx, n)
			log.f("ret %d", b2i(err == nil))
		case "lease":
			lt := m.LeasePartition(ctx, "the-lease-id", uint32(index))
			log.f("ret %d", int64(lt))
		}
	} else {
		ev := &eventer2{}
		ev.AddListener(leaseListener(log))
		m := b2.VerifNewBlobLeaseManager("acct", "cont", key, cont, blob)
		m.RaiseEventsTo(ev)
		switch kind {
		case "provision":
			err := m.Provision(ctx)
			log.f("ret %d", b2i(err == nil))
		case "create":
			provisionFirst(func() { m.Provision(ctx) })
			warm(func() { m.CreatePartitions(ctx, prev) })
			m.CreatePartitions(ctx, n)
			log.f("ret 1")
		case "lease":
			lt := m.LeasePartition(ctx, "the-lease-id", uint32(index))
			log.f("ret %d", int64(lt))
		}
	}
	log.f("endcase")
}

// leaseCaseProvRes: the v1 ProvisionedResource through a sequence of calls; after each call the two getters
func leaseCaseProvRes(log *leaseLog, m uint32, ops []string) {
	log.f("case 1 mock provres %d 0 %s", m, strings.Join(ops, " "))
	r := b1.NewProvisionedResource(m)
	r.AddListener(leaseListener(log))
	ctx := context.Background()
	for _, op := range ops {
		switch op {
		case "provision":
			_ = r.Provision(ctx)
		case "start":
			_ = r.Start(ctx)
		case "stop":
			r.Stop()
		case "giveme":
			r.GiveMe(m/2 + 3)
		}
		log.f("caps %d %d", r.Capacity(), r.MaxCapacity())
	}
	log.f("ret 1")
	log.f("endcase")
}

// ----- SDK level: real BlockBlobURL on an in-process transport -----

type fakeTransport struct {
	log     *leaseLog
	outcome func(req *http.Request) string
}

func (f *fakeTransport) New(next pipeline.Policy, po *pipeline.PolicyOptions) pipeline.Policy {
	return pipeline.PolicyFunc(func(ctx context.Context, request pipeline.Request) (pipeline.Response, error) {
		req := request.Request
		comp := req.URL.Query().Get("comp")
		f.log.f("http %s %s comp=%s ifnonematch=%s lease-action=%s lease-duration=%s proposed-id=%s", req.Method, req.URL.Path, comp,
			req.Header.Get("If-None-Match"), req.Header.Get("x-ms-lease-action"), req.Header.Get("x-ms-lease-duration"), req.Header.Get("x-ms-proposed-lease-id"))
		o := f.outcome(req)
		switch o {
		case "ok":
			code := http.StatusCreated
			return pipeline.NewHTTPResponse(&http.Response{StatusCode: code, Status: "201 Created", Header: http.Header{}, Body: io.NopCloser(strings.NewReader("")), Request: req}), nil
		case "other":
			return nil, errors.New("connection reset by peer")
		}
		h := http.Header{}
		h.Set("x-ms-error-code", o)
		body := fmt.Sprintf("<?xml version=\"1.0\" encoding=\"utf-8\"?><Error><Code>%s</Code><Message>scripted</Message></Error>", o)
		return pipeline.NewHTTPResponse(&http.Response{StatusCode: http.StatusConflict, Status: "409 Conflict", Header: h, Body: io.NopCloser(strings.NewReader(body)), Request: req}), nil
	})
}

// leaseSDKPrev >= 0: the manager of the next SDK-level cases has already created that many partitions (an earlier
// provisioning with a smaller count, all uploads fine, not recorded); names and behaviour of the recorded call must
// be those of a first call
var leaseSDKPrev = -1

func leaseCaseSDK(log *leaseLog, gen int, kind string, n int, index int, outcomes []string) {
	log.f("case %d sdk %s %d %d %s", gen, kind, n, index, strings.Join(outcomes, " "))
	nreq := 0
	warming := false
	ft := &fakeTransport{log: log, outcome: func(req *http.Request) string {
		if warming {
			return "ok"
		}
		i := nreq
		nreq++
		if len(outcomes) == 0 {
			return "ok"
		}
		if i < len(outcomes) {
			return outcomes[i]
		}
		return outcomes[len(outcomes)-1]
	}}
	p := pipeline.NewPipeline([]pipeline.Factory{pipeline.MethodFactoryMarker()}, pipeline.Options{HTTPSender: ft})
	base, _ := url.Parse("https://acct.blob.core.windows.net/cont")
	cont := &mockContainer{log: log, outcome: "ok", sdkBlob: func(name string) azblob.BlockBlobURL {
		u := *base
		u.Path = u.Path + "/" + name
		return azblob.NewBlockBlobURL(u, p)
	}}
	ctx, cancel := context.WithTimeout(context.Background(), 5*time.Second)
	defer cancel()
	key := "a2V5"
	warm := func(call func()) {
		if leaseSDKPrev >= 0 {
			warming, log.mute = true, true
			call()
			warming, log.mute = false, false
			log.f("note created-before %d", leaseSDKPrev)
		}
	}
	if gen == 1 {
		m := b1.VerifNewBlobLeaseManager("acct", "cont", &key, cont, nil, leaseListener(log))
		warm(func() { m.CreatePartitions(ctx, leaseSDKPrev) })
		switch kind {
		case "create":
			err := m.CreatePartitions(ctx, n)
			log.f("ret %d", b2i(err == nil))
		case "lease":
			lt := m.LeasePartition(ctx, "the-lease-id", uint32(index))
			log.f("ret %d", int64(lt))
		}
	} else {
		ev := &eventer2{}
		ev.AddListener(leaseListener(log))
		m := b2.VerifNewBlobLeaseManager("acct", "cont", key, cont, nil)
		m.RaiseEventsTo(ev)
		warm(func() { m.CreatePartitions(ctx, leaseSDKPrev) })
		switch kind {
		case "create":
			m.CreatePartitions(ctx, n)
			log.f("ret 1")
		case "lease":
			lt := m.LeasePartition(ctx, "the-lease-id", uint32(index))
			log.f("ret %d", int64(lt))
		}
	}
	log.f("endcase")
}

// RunLease writes one history file with all cases of a run.
func RunLease(t *testing.T, seed int64, thorough bool, out io.Writer) {
	log := &leaseLog{w: bufio.NewWriter(out)}
	defer log.w.Flush()
	codes := ServiceCodes()
	log.f("lease-history codes %d", len(codes))
	for i, c := range codes {
		log.f("code %d %s", i, c)
	}
	all := append([]string{"ok", "other", "cancel"}, codes...)
	rng := rand.New(rand.NewSource(seed))
	for gen := 1; gen <= 2; gen++ {
		// every code at the three call sites
		for _, o := range all {
			leaseCaseMock(log, gen, "provision", 0, 0, []string{o})
			leaseCaseMock(log, gen, "lease", 0, rng.Intn(500), []string{o})
			leaseCaseMock(log, gen, "create", 1, 0, []string{o})
		}
		// the same with a context that is already cancelled when the call is made
		leaseCtxCancelled = true
		for _, o := range all {
			leaseCaseMock(log, gen, "provision", 0, 0, []string{o})
			leaseCaseMock(log, gen, "lease", 0, rng.Intn(500), []string{o})
			leaseCaseMock(log, gen, "create", 2, 0, []string{o, o})
		}
		leaseCtxCancelled = false
		// CreatePartitions after Provision on the same manager, whatever the container creation said
		for _, po := range []string{"ok", "ContainerAlreadyExists", "other"} {
			leaseProvisionFirst = po
			leaseCaseMock(log, gen, "create", 3, 0, []string{"ok", "ok", "ok"})
			leaseCaseMock(log, gen, "create", 4, 0, []string{"BlobAlreadyExists", "ok", "other", "ok"})
			leaseCaseMock(log, gen, "create", 2, 0, []string{"LeaseIdMissing", "ServerBusy"})
		}
		leaseProvisionFirst = ""
		// every position of runs with n <= 4 (exhaustive over a small alphabet incl. the interesting codes)
		alpha := []string{"ok", "BlobAlreadyExists", "LeaseIdMissing", "other", "ServerBusy", "LeaseAlreadyPresent"}
		maxn := 3
		if thorough {
			maxn = 4
		}
		for n := 0; n <= maxn; n++ {
			total := 1
			for k := 0; k < n; k++ {
				total *= len(alpha)
			}
			for x := 0; x < total; x++ {
				outs := make([]string, n)
				y := x
				for k := 0; k < n; k++ {
					outs[k] = alpha[y%len(alpha)]
					y /= len(alpha)
				}
				leaseCaseMock(log, gen, "create", n, 0, outs)
			}
		}
		// random longer runs with any code
		nr := 60
		if thorough {
			nr = 600
		}
		for k := 0; k < nr; k++ {
			n := 1 + rng.Intn(40)
			outs := make([]string, n)
			for j := range outs {
				if rng.Float64() < 0.7 {
					outs[j] = alpha[rng.Intn(3)]
				} else {
					outs[j] = all[rng.Intn(len(all))]
				}
			}
			leaseCaseMock(log, gen, "create", n, 0, outs)
		}
		// a second CreatePartitions on the same manager (re-provisioning after SetSharedCapacity, or a retry after a
		// failure) behaves like the first: nothing is remembered from the earlier call
		for _, prev := range []int{0, 1, 2, 3, 6} {
			for _, n := range []int{1, 2, 3, 5, 8} {
				outs := make([]string, n)
				for j := range outs {
					outs[j] = alpha[rng.Intn(len(alpha))]
				}
				leaseCaseMockPrev(log, gen, "create", n, 0, outs, prev)
			}
		}
		// through the SDK client: names, headers, duration
		for _, o := range []string{"ok", "LeaseAlreadyPresent", "BlobNotFound", "other"} {
			leaseCaseSDK(log, gen, "lease", 0, rng.Intn(500), []string{o})
		}
		for k := 0; k < 12; k++ {
			n := 1 + rng.Intn(6)
			outs := make([]string, n)
			for j := range outs {
				outs[j] = alpha[rng.Intn(len(alpha))]
			}
			leaseCaseSDK(log, gen, "create", n, 0, outs)
		}
	}
	// through the SDK client on a manager that has provisioned a smaller count before (a growing SetSharedCapacity)
	for gen := 1; gen <= 2; gen++ {
		leaseSDKPrev = 3
		leaseCaseSDK(log, gen, "create", 6, 0, []string{"ok"})
		leaseCaseSDK(log, gen, "create", 5, 0, []string{"BlobAlreadyExists", "BlobAlreadyExists", "BlobAlreadyExists", "ok", "ok"})
		for _, idx := range []int{0, 2, 3, 4, 5} {
			leaseCaseSDK(log, gen, "lease", 0, idx, []string{"ok"})
		}
		leaseSDKPrev = -1
	}
	// the v1 ProvisionedResource: every sequence of up to three calls, for a few capacities
	provOps := []string{"provision", "start", "giveme", "stop"}
	for _, m := range []uint32{0, 1, 7, 1000, 4294967295} {
		var rec func(prefix []string)
		rec = func(prefix []string) {
			if len(prefix) > 0 {
				leaseCaseProvRes(log, m, prefix)
			}
			if len(prefix) == 3 {
				return
			}
			for _, o := range provOps {
				rec(append(append([]string{}, prefix...), o))
			}
		}
		rec(nil)
	}
	log.f("eof")
}
