package harness

// Real-time runs of the shared-resource rate limiters.
//
// Under testing/synctest a goroutine that waits for a mutex is not "durably blocked", so a
// scenario in which CreatePartitions is slow while a lease expires (the expiry handler then
// waits for the partition lock) freezes the virtual clock.  Those schedules are run here in
// real time with short leases (the resources take the lease time from the lease manager).
// Real timestamps cannot be replayed step by step against the model; the recorded history is
// checked by the model-free monitor replay/rt.ml against consequences of the theorems
// (CapInv + TimerInv: what is counted is covered by a grant that has not run out).

import (
	"context"
	"fmt"
	"io"
	"math/rand"
	"sync"
	"time"

	b1 "github.com/mspnp/go-batcher"
	b2 "github.com/mspnp/go-batcher/v2"
)

type rtStore struct {
	mu    sync.Mutex
	parts map[uint32]time.Time // expiry per partition
}

type rtLM struct {
	inst      int
	lg        *Logger
	store     *rtStore
	lease     time.Duration
	mu        sync.Mutex
	createLat []time.Duration // per CreatePartitions call, last repeats
	ncreate   int
	leaseLat  time.Duration
	refuseP   int // per cent of calls refused by a "fault"
	rng       *rand.Rand
}

func (m *rtLM) src() string { return fmt.Sprintf("S%d", m.inst) }

func (m *rtLM) create(n int) {
	m.mu.Lock()
	var d time.Duration
	if len(m.createLat) > 0 {
		i := m.ncreate
		if i >= len(m.createLat) {
			i = len(m.createLat) - 1
		}
		d = m.createLat[i]
	}
	m.ncreate++
	m.mu.Unlock()
	m.lg.Logf(m.src(), "lm create %d", n)
	if d > 0 {
		time.Sleep(d)
	}
	m.lg.Logf(m.src(), "lm createret %d", n)
}

func (m *rtLM) leasePartition(index uint32) time.Duration {
	m.lg.Logf(m.src(), "lm lease %d", index)
	m.mu.Lock()
	refuse := m.rng.Intn(100) < m.refuseP
	m.mu.Unlock()
	var lt time.Duration
	if !refuse {
		m.store.mu.Lock()
		now := time.Now()
		if e, ok := m.store.parts[index]; !ok || !now.Before(e) {
			m.store.parts[index] = now.Add(m.lease)
			lt = m.lease
		}
		m.store.mu.Unlock()
	}
	if m.leaseLat > 0 {
		time.Sleep(m.leaseLat)
	}
	m.lg.Logf(m.src(), "lm leaseret %d %d", index, int64(lt))
	return lt
}

type rtLM1 struct{ *rtLM }

func (m rtLM1) Provision(ctx context.Context) error { return nil }
func (m rtLM1) CreatePartitions(ctx context.Context, count int) error {
	m.create(count)
	return nil
}
func (m rtLM1) LeasePartition(ctx context.Context, id string, index uint32) time.Duration {
	return m.leasePartition(index)
}

type rtLM2 struct{ *rtLM }

func (m rtLM2) RaiseEventsTo(e b2.Eventer)                      {}
func (m rtLM2) Provision(ctx context.Context) error             { return nil }
func (m rtLM2) CreatePartitions(ctx context.Context, count int) { m.create(count) }
func (m rtLM2) LeasePartition(ctx context.Context, id string, index uint32) time.Duration {
	return m.leasePartition(index)
}

type rtStep struct {
	at   time.Duration
	inst int
	kind string
	a    int64
}

// RunSharedRT generates and runs one real-time scenario from the seed.
func RunSharedRT(seed int64, out io.Writer) {
	rng := rand.New(rand.NewSource(seed))
	gen := 2
	if rng.Intn(4) == 0 {
		gen = 1
	}
	factor := []int64{1, 2, 5}[rng.Intn(3)]
	parts := int64(1 + rng.Intn(4))
	shared := parts*factor - rng.Int63n(factor)
	reserved := []int64{0, 3, 10}[rng.Intn(3)]
	maxint := []int64{2, 5, 10}[rng.Intn(3)]
	lease := time.Duration([]int64{150, 200, 300}[rng.Intn(3)]) * time.Millisecond
	ninst := 1
	if rng.Intn(3) == 0 {
		ninst = 2
	}
	start := time.Now()
	lg := NewLogger(out, start)
	lg.Raw("rt-history")
	lg.Raw(fmt.Sprintf("# seed %d", seed))
	lg.Raw(fmt.Sprintf("rtcfg gen %d reserved %d factor %d shared %d maxint %d lease_ns %d insts %d", gen, reserved, factor, shared, maxint, int64(lease), ninst))
	store := &rtStore{parts: map[uint32]time.Time{}}

	type inst struct {
		lm     *rtLM
		r1     *b1.AzureSharedResource
		r2     b2.SharedResource
		ctx    context.Context
		cancel context.CancelFunc
		shared int64
	}
	var insts []*inst
	var maxCreate time.Duration
	for i := 0; i < ninst; i++ {
		in := &inst{shared: shared}
		in.lm = &rtLM{inst: i, lg: lg, store: store, lease: lease, rng: rand.New(rand.NewSource(seed*31 + int64(i))),
			leaseLat: time.Duration([]int64{0, 5, 20}[rng.Intn(3)]) * time.Millisecond}
		if rng.Intn(4) == 0 {
			in.lm.refuseP = 30
		}
		// the first CreatePartitions (at start) is quick, the later ones (re-provisioning) may be slow
		in.lm.createLat = []time.Duration{0}
		for k := 0; k < 3; k++ {
			d := time.Duration(rng.Int63n(int64(2 * lease)))
			if rng.Intn(4) == 0 {
				d = 0
			}
			in.lm.createLat = append(in.lm.createLat, d)
			if d > maxCreate {
				maxCreate = d
			}
		}
		in.ctx, in.cancel = context.WithCancel(context.Background())
		src := in.lm.src()
		// a listener that takes its time inside the allocated event (user code runs in the acquisition loop's goroutine):
		// the partition must still be given up when its lease, counted from the request, has run out
		var slowAlloc time.Duration
		if seed%3 == 0 {
			slowAlloc = 350 * time.Millisecond
		}
		var slowCap time.Duration
		if seed%3 == 1 {
			slowCap = 12 * time.Millisecond
		}
		slowListener := func(inner func(event string, val int, msg string, metadata interface{})) func(event string, val int, msg string, metadata interface{}) {
			return func(event string, val int, msg string, metadata interface{}) {
				inner(event, val, msg, metadata)
				if event == "allocated" && slowAlloc > 0 {
					time.Sleep(slowAlloc)
				}
				if event == "capacity" && slowCap > 0 {
					time.Sleep(slowCap) // a listener of the capacity event that takes a moment (a metrics call, say)
				}
			}
		}
		if gen == 1 {
			r := b1.NewAzureSharedResource("acct", "cont", uint32(shared)).
				WithFactor(uint32(factor)).WithReservedCapacity(uint32(reserved)).WithMaxInterval(uint32(maxint))
			r.VerifSetLeaseManager(rtLM1{in.lm})
			r.AddListener(slowListener(sharedListener(lg, src)))
			in.r1 = r
		} else {
			r := b2.NewSharedResource().WithFactor(uint32(factor)).WithReservedCapacity(uint32(reserved)).WithMaxInterval(uint32(maxint)).
				WithSharedCapacity(uint32(shared), rtLM2{in.lm})
			r.AddListener(slowListener(sharedListener(lg, src)))
			in.r2 = r
		}
		insts = append(insts, in)
	}
	capOf := func(in *inst) (uint32, uint32) {
		if gen == 1 {
			return in.r1.Capacity(), in.r1.MaxCapacity()
		}
		return in.r2.Capacity(), in.r2.MaxCapacity()
	}
	giveme := func(in *inst, v int64) {
		lg.Logf(in.lm.src(), "act giveme %d", v)
		if gen == 1 {
			in.r1.GiveMe(uint32(v))
		} else {
			in.r2.GiveMe(uint32(v))
		}
	}

	// the timeline
	var steps []rtStep
	t := 5 * time.Millisecond
	for i := range insts {
		steps = append(steps, rtStep{t, i, "giveme", reserved + shared})
	}
	phases := 1 + rng.Intn(2)
	for ph := 0; ph < phases; ph++ {
		t += 40*time.Millisecond + time.Duration(rng.Int63n(int64(lease)/2))
		for i := range insts {
			if gen == 2 && rng.Intn(10) < 8 {
				ns := shared + factor*int64(rng.Intn(3)) - factor*int64(rng.Intn(2))
				if ns < 1 {
					ns = 1
				}
				steps = append(steps, rtStep{t, i, "setshared", ns})
			}
			if rng.Intn(2) == 0 {
				steps = append(steps, rtStep{t + time.Duration(rng.Int63n(int64(lease))), i, "giveme", 0})
			}
		}
		t += time.Duration(rng.Int63n(int64(lease) * 2))
		if ph+1 < phases {
			for i := range insts {
				steps = append(steps, rtStep{t, i, "giveme", reserved + shared + factor*2})
			}
		}
	}
	end := t + 20*time.Millisecond
	// sort by time (stable)
	for i := 1; i < len(steps); i++ {
		for j := i; j > 0 && steps[j].at < steps[j-1].at; j-- {
			steps[j], steps[j-1] = steps[j-1], steps[j]
		}
	}

	for _, in := range insts {
		lg.Logf(in.lm.src(), "act start")
		if gen == 1 {
			if err := in.r1.Provision(in.ctx); err != nil {
				lg.Logf(in.lm.src(), "startret 5")
				continue
			}
			err := in.r1.Start(in.ctx)
			lg.Logf(in.lm.src(), "startret %d", b2i(err != nil))
		} else {
			err := in.r2.Start(in.ctx)
			lg.Logf(in.lm.src(), "startret %d", b2i(err != nil))
		}
	}
	sample := func() {
		for _, in := range insts {
			c, m := capOf(in)
			lg.Logf(in.lm.src(), "rtsample %d %d", c, m)
		}
	}
	si := 0
	for time.Since(start) < end {
		for si < len(steps) && steps[si].at <= time.Since(start) {
			st := steps[si]
			si++
			in := insts[st.inst]
			switch st.kind {
			case "giveme":
				giveme(in, st.a)
			case "setshared":
				lg.Logf(in.lm.src(), "act setshared %d", st.a)
				err := in.r2.SetSharedCapacity(uint32(st.a))
				in.shared = st.a
				lg.Logf(in.lm.src(), "setsharedret %d", b2i(err == nil))
			}
		}
		sample()
		time.Sleep(7 * time.Millisecond)
	}
	// demand goes away: everything that is counted must be given up when its lease has run out
	for _, in := range insts {
		giveme(in, 0)
	}
	limit := 2*lease + 2*maxCreate + 5*time.Second
	t0 := time.Now()
	for _, in := range insts {
		okFor := 0
		settled := 0
		var c, m uint32
		for time.Since(t0) < limit {
			c, m = capOf(in)
			if int64(c) == reserved {
				okFor++
				if okFor >= 3 {
					settled = 1
					break
				}
			} else {
				okFor = 0
			}
			time.Sleep(10 * time.Millisecond)
		}
		lg.Logf(in.lm.src(), "rtfinal %d %d %d %d", c, m, in.shared, settled)
	}
	sample()
	for _, in := range insts {
		if gen == 1 {
			// Stop() from three goroutines at once (real time: a caller waiting on the phase mutex is fine here): each
			// must return, none may panic, and the instance raises one shutdown event
			r := in.r1
			src := in.lm.src()
			done := make(chan struct{}, 3)
			for k := 0; k < 3; k++ {
				go func() {
					defer func() {
						if e := recover(); e != nil {
							lg.Logf(src, "apipanic stop")
						}
						done <- struct{}{}
					}()
					r.Stop()
					lg.Logf(src, "stopret")
				}()
			}
			deadline := time.After(3 * time.Second)
			for k := 0; k < 3; k++ {
				select {
				case <-done:
				case <-deadline:
					lg.Logf(src, "stophang")
					k = 3
				}
			}
		} else {
			in.cancel()
		}
	}
	time.Sleep(20 * time.Millisecond)
	lg.Raw("eof")
	lg.Flush()
}
