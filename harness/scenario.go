package harness

// Scenario description shared by the Batcher drivers of both generations, its text
// form (which is also the header of every history file, so a history can be re-run),
// and the history logger.

import (
	"bufio"
	"fmt"
	"io"
	"os"
	"strconv"
	"strings"
	"sync"
	"time"
)

type WCfg struct {
	MaxBatch    uint32
	MaxAttempts uint32
	MaxOp       int64 // ns
}

type Step struct {
	At   int64 // ns since scenario start
	Kind string
	A    []int64
}

type Scenario struct {
	Name    string
	Gen     int
	BufCap  int
	ErrFull bool
	Limiter bool
	Flush   int64
	CapInt  int64
	Audit   int64
	MaxOp   int64
	Pause   int64
	MaxConc int
	// a listener that takes its time: the loop is kept busy this long (ns) inside the flush-done event (v2) /
	// inside the audit-skip, audit-pass and audit-fail events
	BusyFD    int64
	BusyAudit int64
	BusyCap   int64 // the rate limiter's GiveMe takes this long
	// this many resume events are answered by the listener having Pause() called from a goroutine of its own (and waiting for it)
	ReactPause int64
	Watchers   []WCfg
	Steps      []Step
	Tail       int64 // ns to keep the bubble alive after the last step (wind-down)
}

func b2i(b bool) int64 {
	if b {
		return 1
	}
	return 0
}

func (s *Scenario) WriteHeader(w io.Writer) {
	fmt.Fprintf(w, "name %s\n", s.Name)
	fmt.Fprintf(w, "cfg %d %d %d %d %d %d %d %d %d %d %d %d %d %d\n", s.Gen, s.BufCap, b2i(s.ErrFull), b2i(s.Limiter),
		s.Flush, s.CapInt, s.Audit, s.MaxOp, s.Pause, s.MaxConc, s.BusyFD, s.BusyAudit, s.BusyCap, s.ReactPause)
	for _, wc := range s.Watchers {
		fmt.Fprintf(w, "watcher %d %d %d\n", wc.MaxBatch, wc.MaxAttempts, wc.MaxOp)
	}
	for _, st := range s.Steps {
		fmt.Fprintf(w, "step %d %s", st.At, st.Kind)
		for _, a := range st.A {
			fmt.Fprintf(w, " %d", a)
		}
		fmt.Fprintln(w)
	}
	fmt.Fprintf(w, "tail %d\n", s.Tail)
	fmt.Fprintln(w, "log")
}

func atoi(s string) int64 {
	v, err := strconv.ParseInt(s, 10, 64)
	if err != nil {
		panic(err)
	}
	return v
}

// ReadScenario parses the header of a history file (or a bare script file).
func ReadScenario(path string) (*Scenario, error) {
	f, err := os.Open(path)
	if err != nil {
		return nil, err
	}
	defer f.Close()
	sc := &Scenario{}
	rd := bufio.NewScanner(f)
	rd.Buffer(make([]byte, 1<<20), 1<<26)
	for rd.Scan() {
		fs := strings.Fields(rd.Text())
		if len(fs) == 0 {
			continue
		}
		switch fs[0] {
		case "name":
			if len(fs) > 1 {
				sc.Name = fs[1]
			}
		case "cfg":
			sc.Gen = int(atoi(fs[1]))
			sc.BufCap = int(atoi(fs[2]))
			sc.ErrFull = atoi(fs[3]) != 0
			sc.Limiter = atoi(fs[4]) != 0
			sc.Flush = atoi(fs[5])
			sc.CapInt = atoi(fs[6])
			sc.Audit = atoi(fs[7])
			sc.MaxOp = atoi(fs[8])
			sc.Pause = atoi(fs[9])
			sc.MaxConc = int(atoi(fs[10]))
			if len(fs) > 12 {
				sc.BusyFD = atoi(fs[11])
				sc.BusyAudit = atoi(fs[12])
			}
			if len(fs) > 13 {
				sc.BusyCap = atoi(fs[13])
			}
			if len(fs) > 14 {
				sc.ReactPause = atoi(fs[14])
			}
		case "watcher":
			sc.Watchers = append(sc.Watchers, WCfg{uint32(atoi(fs[1])), uint32(atoi(fs[2])), atoi(fs[3])})
		case "step":
			st := Step{At: atoi(fs[1]), Kind: fs[2]}
			for _, a := range fs[3:] {
				st.A = append(st.A, atoi(a))
			}
			sc.Steps = append(sc.Steps, st)
		case "tail":
			sc.Tail = atoi(fs[1])
		case "log":
			return sc, nil
		}
	}
	return sc, rd.Err()
}

// Logger writes one observation per line, stamped with the bubble's clock.
type Logger struct {
	mu    sync.Mutex
	w     *bufio.Writer
	start time.Time
}

func NewLogger(w io.Writer, start time.Time) *Logger {
	return &Logger{w: bufio.NewWriter(w), start: start}
}

func (l *Logger) Logf(src string, format string, args ...interface{}) {
	l.mu.Lock()
	defer l.mu.Unlock()
	t := time.Since(l.start).Nanoseconds()
	fmt.Fprintf(l.w, "%d %s ", t, src)
	fmt.Fprintf(l.w, format, args...)
	l.w.WriteByte('\n')
}

func (l *Logger) Raw(line string) {
	l.mu.Lock()
	defer l.mu.Unlock()
	l.w.WriteString(line)
	l.w.WriteByte('\n')
}

func (l *Logger) Flush() {
	l.mu.Lock()
	defer l.mu.Unlock()
	l.w.Flush()
}

func idsString(ids []int64) string {
	var sb strings.Builder
	fmt.Fprintf(&sb, "%d", len(ids))
	for _, i := range ids {
		fmt.Fprintf(&sb, " %d", i)
	}
	return sb.String()
}

// result codes of Enqueue, shared with the Coq model (eres)
const (
	ROk = iota
	RNoOp
	RNoWatcher
	RTooExpensive
	RTooManyAttempts
	RBufferFull
	RShutdown
	RPanic
	ROther
)
