(* replay/rt.ml — model-free monitor for the real-time histories of the shared resources
   (harness/shared_rt.go).  Real timestamps: every rule has a slack and only states what must
   hold whatever the scheduling was.
     count-not-covered : Capacity() - reserved exceeds factor x (grants of this instance whose
                         lease, counted from the start of the call, has not run out, slack 250 ms)
     count-never-released : demand was withdrawn and, long after every lease had run out,
                         Capacity() still did not come back to the reserved capacity
     shape             : Capacity() < reserved, or (Capacity() - reserved) not a multiple of factor
     max               : MaxCapacity() at the end is not reserved + min(shared, factor x 500) *)
let ios = int_of_string
let split s = List.filter (fun x -> x <> "") (String.split_on_char ' ' s)
let slack = 250_000_000

let is_rt path =
  try let ic = open_in path in let l = (try input_line ic with End_of_file -> "") in close_in ic; l = "rt-history"
  with Sys_error _ -> false

let monitor_file (pid : string) (path : string) =
  let ic = open_in path in
  let lines = ref [] in
  (try while true do lines := split (input_line ic) :: !lines done with End_of_file -> ());
  close_in ic;
  let lines = List.rev !lines in
  let gen = ref 2 and reserved = ref 0 and factor = ref 1 and lease = ref 0 in
  let hits = ref [] in
  let hit s = if not (List.mem s !hits) then hits := s :: !hits in
  let callstart = Hashtbl.create 16 in          (* (inst, idx) -> ns of the call in flight *)
  let grants = Hashtbl.create 16 in             (* inst -> (callstart, lt) list *)
  let nsample = ref 0 and ngrant = ref 0 and nreprov = ref 0 and nfinal = ref 0 and slowcreate = ref 0 in
  let created = Hashtbl.create 4 in
  let nshut = Hashtbl.create 4 and nstopret = Hashtbl.create 4 in
  let prefix = String.lowercase_ascii pid in
  List.iter (fun w ->
      match w with
      | "rtcfg" :: "gen" :: g :: "reserved" :: r :: "factor" :: f :: "shared" :: _ :: "maxint" :: _ :: "lease_ns" :: l :: _ ->
          gen := ios g; reserved := ios r; factor := ios f; lease := ios l
      | [t; s; "lm"; "lease"; idx] -> Hashtbl.replace callstart (s, idx) (ios t)
      | [t; s; "lm"; "leaseret"; idx; lt] ->
          if ios lt > 0 then begin
            incr ngrant;
            let cs = (try Hashtbl.find callstart (s, idx) with Not_found -> ios t) in
            Hashtbl.replace grants s ((cs, ios lt) :: (try Hashtbl.find grants s with Not_found -> []))
          end
      | [t; s; "lm"; "create"; _] ->
          if Hashtbl.mem created s then incr nreprov; Hashtbl.replace created s (ios t)
      | [t; s; "lm"; "createret"; _] ->
          (match Hashtbl.find_opt created s with Some t0 -> if ios t - t0 > 50_000_000 then incr slowcreate | None -> ())
      | [t; s; "rtsample"; c; _] ->
          incr nsample;
          let t = ios t and c = ios c in
          let live = List.length (List.filter (fun (cs, lt) -> cs + lt > t - slack) (try Hashtbl.find grants s with Not_found -> [])) in
          (* the fake logs the return of a granting call before the resource can count it, so every
             counted partition has its grant earlier in the file *)
          if c < !reserved || (c - !reserved) mod !factor <> 0 then
            hit (Printf.sprintf "%s:rt-shape Capacity()=%d with reserved=%d factor=%d at %d" prefix c !reserved !factor t)
          else if (c - !reserved) / !factor > live then
            hit (Printf.sprintf "%s:rt-count-not-covered Capacity()=%d counts %d partitions but only %d grants of %s can still be running at %d (reserved=%d factor=%d)"
                   prefix c ((c - !reserved) / !factor) live s t !reserved !factor)
      | [t; s; "rtfinal"; c; m; sh; settled] ->
          incr nfinal;
          if ios settled = 0 then
            hit (Printf.sprintf "%s:rt-count-never-released demand withdrawn, all leases run out, but Capacity()=%d stays above reserved=%d (%s)" prefix (ios c) !reserved s);
          let want = !reserved + (if !gen = 2 then min (ios sh) (!factor * 500) else ios sh) in
          if ios m <> want then hit (Printf.sprintf "%s:rt-max MaxCapacity()=%d, expected %d (%s)" prefix (ios m) want s)
      | [t; s; "apipanic"; k] -> if pid = "C17" then hit (Printf.sprintf "c17:rt-panic %s() panicked at %s (%s)" k t s)
      | [t; s; "stophang"] -> if pid = "C17" then hit (Printf.sprintf "c17:rt-stop-hang a Stop() call did not return within 3 s (%s, t=%s)" s t)
      | [_; s; "ev"; "shutdown"] -> Hashtbl.replace nshut s (1 + (try Hashtbl.find nshut s with Not_found -> 0))
      | [_; s; "stopret"] -> Hashtbl.replace nstopret s ()
      | _ -> ()) lines;
  (* v1: concurrent Stop() calls at the end of the run: exactly one shutdown event for an instance whose Stop returned *)
  if pid = "C17" && !gen = 1 then
    Hashtbl.iter (fun s () ->
        let n = (try Hashtbl.find nshut s with Not_found -> 0) in
        if n <> 1 then hit (Printf.sprintf "c17:rt-shutdown-events %d shutdown events for instance %s after concurrent Stop() calls (expected 1)" n s)) nstopret;
  List.iter (fun h -> Printf.printf "MONITOR %s %s\n" path h) (List.rev !hits);
  Printf.printf "STATS %s sig=rt%d trivial=%d rtsamples=%d rtgrants=%d rtreprovisions=%d rtslowcreates=%d rtfinals=%d\n%!" path
    (Hashtbl.hash lines) (if !ngrant = 0 then 1 else 0) !nsample !ngrant !nreprov !slowcreate !nfinal
