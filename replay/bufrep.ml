(* replay/buffer.ml — the recorded behaviour of the real v2 buffer against the extracted pointer-level model
   (Model/BufferPtr.v): same results, same sizes, for every recorded sequence of operations. *)
open Batcher_model
let split s = List.filter (fun x -> x <> "") (String.split_on_char ' ' s)
let rec nat_of_int n = if n <= 0 then O else S (nat_of_int (n - 1))
let rec int_of_nat = function O -> 0 | S n -> 1 + int_of_nat n

let res_str (r : pres) : string =
  match r with
  | RBufOp None -> "nil" | RBufOp (Some k) -> Printf.sprintf "op%d" (int_of_nat k)
  | RBufOk -> "ok" | RBufFull -> "full" | RBufShut -> "shut" | RBufWouldBlock -> "wb" | RBufPanic -> "panic"

let check_file (path : string) : (int * int * string option) =
  let ic = open_in path in
  let nseq = ref 0 and nops = ref 0 and bad = ref None in
  let cur = ref None in
  (try
     while true do
       let w = split (input_line ic) in
       match w with
       | "seq" :: cap :: cmds -> cur := Some (int_of_string cap, cmds)
       | "res" :: rs ->
           (match !cur with
            | Some (cap, cmds) ->
                incr nseq;
                let k = ref 0 in
                let cs = List.map (fun c -> match c with
                    | "T" -> BTop | "S" -> BSkip | "R" -> BRemove | "X" -> BShutdown
                    | "Ee" -> incr k; BEnqueue (nat_of_int !k, true)
                    | "Eb" -> incr k; BEnqueue (nat_of_int !k, false)
                    | _ -> failwith ("command " ^ c)) cmds in
                let model = prun (pinit (nat_of_int cap)) cs in
                let ms = List.map (fun (r, n) -> Printf.sprintf "%s:%d" (res_str r) (int_of_nat n)) model in
                nops := !nops + List.length cs;
                if ms <> rs && !bad = None then
                  bad := Some (Printf.sprintf "cap=%d ops=[%s] observed=[%s] model=[%s]" cap (String.concat " " cmds) (String.concat " " rs) (String.concat " " ms))
            | None -> ())
       | ["eof"] -> Stdlib.raise Exit
       | _ -> ()
     done
   with Exit | End_of_file -> ());
  close_in ic;
  (!nseq, !nops, !bad)

let replay_file path =
  let (n, ops, bad) = check_file path in
  match bad with
  | None -> Printf.printf "ACCEPT %s sequences=%d operations=%d\n%!" path n ops
  | Some m -> Printf.printf "REJECT %s seg=0 t=0 kind=buffer:mismatch :: %s\n%!" path m

let monitor_file path =
  (* model-free rules: the size never exceeds the capacity, nothing panics, an error-mode Enqueue on a full buffer says full *)
  let ic = open_in path in
  let cur = ref None and hits = ref [] and n = ref 0 in
  (try
     while true do
       let w = split (input_line ic) in
       match w with
       | "seq" :: cap :: cmds -> cur := Some (int_of_string cap, cmds)
       | "res" :: rs ->
           (match !cur with
            | Some (cap, cmds) ->
                incr n;
                List.iter (fun r ->
                    match String.split_on_char ':' r with
                    | [v; sz] ->
                        if int_of_string sz > cap && List.length !hits < 5 then hits := Printf.sprintf "c15:buffer-overfull cap=%d ops=[%s] res=[%s]" cap (String.concat " " cmds) (String.concat " " rs) :: !hits;
                        if v = "panic" && List.length !hits < 5 then hits := Printf.sprintf "c15:buffer-panic cap=%d ops=[%s] res=[%s]" cap (String.concat " " cmds) (String.concat " " rs) :: !hits
                    | _ -> ()) rs
            | None -> ())
       | ["eof"] -> Stdlib.raise Exit
       | _ -> ()
     done
   with Exit | End_of_file -> ());
  close_in ic;
  List.iter (fun h -> Printf.printf "MONITOR %s %s\n" path h) (List.rev !hits);
  Printf.printf "STATS %s sig=buffer trivial=0 cases=%d\n%!" path !n
