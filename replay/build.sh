#!/bin/sh
# builds replay/replay.exe from the Coq development: extraction (coqc) + ocamlfind
set -e
cd "$(dirname "$0")"
mkdir -p extracted
cd extracted
coqc -Q ../../coq GB -o ./Extract.vo ../../coq/Replay/Extract.v >/dev/null
cp ../main.ml ../monitors.ml ../shared.ml ../smonitors.ml ../lease.ml ../eventer.ml ../rt.ml ../bufrep.ml .
ocamlfind ocamlopt -w -a -package str -linkpkg batcher_model.mli batcher_model.ml monitors.ml shared.ml smonitors.ml lease.ml eventer.ml rt.ml bufrep.ml main.ml -o ../replay.exe 2>&1 | grep -v "^$" || true
test -x ../replay.exe
