(* replay/lease.ml — C18: compares what the real lease managers did in each recorded case with
   Model/Lease.v (extracted), and a model-free monitor of the same cases. *)
open Batcher_model

let ios = int_of_string
let split s = List.filter (fun x -> x <> "") (String.split_on_char ' ' s)
let rec nat_of_int n = if n <= 0 then O else S (nat_of_int (n - 1))
let rec int_of_nat = function O -> 0 | S n -> 1 + int_of_nat n
let rec int_of_pos = function XH -> 1 | XO p -> 2 * int_of_pos p | XI p -> 2 * int_of_pos p + 1
let int_of_z = function Z0 -> 0 | Zpos p -> int_of_pos p | Zneg p -> - (int_of_pos p)
let rec pos_of_int n = if n <= 1 then XH else if n land 1 = 0 then XO (pos_of_int (n lsr 1)) else XI (pos_of_int (n lsr 1))
let z_of_int n = if n = 0 then Z0 else if n > 0 then Zpos (pos_of_int n) else Zneg (pos_of_int (-n))

type lcase = { gen : int; level : string; kind : string; n : int; index : int; outcomes : string list;
               mutable lines : string list list }

let read path : (string, int) Hashtbl.t * lcase list =
  let ic = open_in path in
  let codes = Hashtbl.create 128 and cases = ref [] and cur = ref None in
  (try
     while true do
       let w = split (input_line ic) in
       match w with
       | ["code"; i; name] -> Hashtbl.replace codes name (ios i)
       | "case" :: g :: level :: kind :: n :: index :: outs ->
           cur := Some { gen = ios g; level; kind; n = ios n; index = ios index; outcomes = outs; lines = [] }
       | ["endcase"] -> (match !cur with Some c -> c.lines <- List.rev c.lines; cases := c :: !cases; cur := None | None -> ())
       | ["eof"] -> Stdlib.raise Exit
       | l -> (match !cur with Some c -> c.lines <- l :: c.lines | None -> ())
     done
   with Exit | End_of_file -> ());
  close_in ic;
  (codes, List.rev !cases)

let ecode_of codes = function
  | "ok" -> EOk
  | "other" | "cancel" -> ENonStorage
  | "ContainerAlreadyExists" -> EContainerAlreadyExists
  | "BlobAlreadyExists" -> EBlobAlreadyExists
  | "LeaseIdMissing" -> ELeaseIdMissing
  | "LeaseAlreadyPresent" -> ELeaseAlreadyPresent
  | s -> EOtherStorage (nat_of_int (try Hashtbl.find codes s with Not_found -> 9999))

let ev_str = function
  | LCreatedContainer -> "created-container 0" | LVerifiedContainer -> "verified-container 0"
  | LCreatedBlob i -> Printf.sprintf "created-blob %d" (int_of_nat i)
  | LVerifiedBlob i -> Printf.sprintf "verified-blob %d" (int_of_nat i)
  | LFailed i -> Printf.sprintf "failed %d" (int_of_nat i)
  | LError -> "error 0"

let observed_events c = List.filter_map (function "ev" :: r -> Some (String.concat " " r) | _ -> None) c.lines
let observed_ret c = List.fold_left (fun a l -> match l with ["ret"; v] -> Some (ios v) | _ -> a) None c.lines
let observed_calls c = List.filter (function ("call" :: ("upload" | "acquire" | "create-container") :: _) | ("http" :: _) -> true | _ -> false) c.lines

(* model verdict for one case: None = agrees *)
let check_model codes (c : lcase) : string option =
  let g = if c.gen = 1 then V1 else V2 in
  if c.kind = "provres" then begin
    (* the getters after every call, and the events each call raises, against prov_step / prov_capacity *)
    let m = z_of_int c.n in
    let pev = function PECapacity v -> Printf.sprintf "ev capacity %d" (int_of_z v) | PEShutdown -> "ev shutdown 0" in
    let expected = List.concat_map (fun o ->
        let op = (match o with "provision" -> POProvision | "start" -> POStart | "stop" -> POStop | _ -> POGiveMe) in
        List.map pev (prov_step m op) @ [Printf.sprintf "caps %d %d" (int_of_z (prov_capacity m)) (int_of_z (prov_max_capacity m))]) c.outcomes in
    let observed = List.filter_map (fun l -> match l with ("ev" | "caps") :: _ -> Some (String.concat " " l) | _ -> None) c.lines in
    if observed <> expected then Some (Printf.sprintf "provisioned resource: observed [%s], model [%s]" (String.concat "; " observed) (String.concat "; " expected))
    else None
  end else
  let evs, ret, ncalls =
    match c.kind with
    | "provision" ->
        let (ok, ev) = lm_provision (ecode_of codes (List.hd c.outcomes)) in
        (List.map ev_str ev, (if ok then 1 else 0), 1)
    | "lease" ->
        let (lt, ev) = lm_lease (nat_of_int c.index) (ecode_of codes (List.hd c.outcomes)) in
        (List.map ev_str ev, int_of_z lt, 1)
    | "create" ->
        let outs = Array.of_list c.outcomes in
        let results k = let k = int_of_nat k in if k < Array.length outs then ecode_of codes outs.(k) else EOk in
        let ((ok, att), ev) = lm_create g results (nat_of_int c.n) in
        (List.map ev_str ev, (if c.gen = 2 || ok then 1 else 0), List.length att)
    | k -> failwith ("case kind " ^ k) in
  let oevs = observed_events c in
  if oevs <> evs then Some (Printf.sprintf "events: observed [%s], model [%s]" (String.concat "; " oevs) (String.concat "; " evs))
  else if observed_ret c <> Some ret then Some (Printf.sprintf "return: observed %s, model %d" (match observed_ret c with Some v -> string_of_int v | None -> "none") ret)
  else if List.length (observed_calls c) <> ncalls then Some (Printf.sprintf "storage calls: observed %d, model %d" (List.length (observed_calls c)) ncalls)
  else None

(* model-free monitor: the property's clauses on the observed case *)
let check_monitor (c : lcase) : string list =
  let hits = ref [] in
  let hit s = hits := (Printf.sprintf "c18:%s gen=%d %s %s n=%d [%s]" s c.gen c.level c.kind c.n (String.concat " " c.outcomes)) :: !hits in
  let evs = observed_events c in
  (match c.kind with
   | "lease" ->
       let o = List.hd c.outcomes in
       let ret = observed_ret c in
       if (ret = Some 15_000_000_000) <> (o = "ok") then hit "lease-reported-without-acquire";
       if o <> "ok" && ret <> Some 0 then hit "lease-time-on-failure";
       if o = "LeaseAlreadyPresent" && evs <> [Printf.sprintf "failed %d" c.index] then hit "failed-event";
       if o <> "ok" && o <> "LeaseAlreadyPresent" && evs <> ["error 0"] then hit "error-event";
       if o = "ok" && evs <> [] then hit "event-on-success";
       List.iter (function
           | ["call"; "acquire"; id; dur] -> if id <> "id=the-lease-id" || dur <> "duration=15" then hit "acquire-arguments"
           | "http" :: _ :: path :: rest ->
               if path <> Printf.sprintf "/cont/%d" c.index then hit "blob-name";
               if not (List.mem "lease-duration=15" rest) || not (List.mem "proposed-id=the-lease-id" rest) then hit "acquire-arguments"
           | _ -> ()) c.lines
   | "provision" ->
       let o = List.hd c.outcomes in
       let ok = o = "ok" || o = "ContainerAlreadyExists" in
       if (observed_ret c = Some 1) <> ok then hit "provision-result"
   | "create" ->
       (* blobs 0..n-1 in order, never overwriting; only exists/leased count as verified; v1 stops at the first other error *)
       let outs = Array.of_list c.outcomes in
       let k = ref 0 and stop = ref false and expect = ref [] in
       while !k < c.n && not !stop do
         let o = if !k < Array.length outs then outs.(!k) else "ok" in
         (match o with
          | "ok" -> expect := Printf.sprintf "created-blob %d" !k :: !expect
          | "BlobAlreadyExists" | "LeaseIdMissing" -> expect := Printf.sprintf "verified-blob %d" !k :: !expect
          | _ -> if c.gen = 1 then stop := true else expect := "error 0" :: !expect);
         incr k
       done;
       if evs <> List.rev !expect then hit "create-events";
       if c.gen = 1 && (observed_ret c = Some 1) = !stop then hit "create-error-not-surfaced";
       let calls = observed_calls c in
       if List.length calls <> !k then hit "create-attempts";
       List.iteri (fun i l -> match l with
           | "call" :: "upload" :: _ :: inm :: _ -> if inm <> "ifnonematch=*" then hit "overwrite-allowed"
           | "http" :: _ :: path :: rest ->
               if path <> Printf.sprintf "/cont/%d" i then hit "blob-name";
               if not (List.mem "ifnonematch=*" rest) then hit "overwrite-allowed"
           | _ -> ()) calls
   | "provres" ->
       List.iter (function
           | ["caps"; a; b] -> if ios a <> c.n || ios b <> c.n then hit "provisioned-capacity"
           | _ -> ()) c.lines
   | _ -> ());
  List.rev !hits

let replay_file path =
  try
    let (codes, cases) = read path in
    let bad = List.filter_map (fun c -> match check_model codes c with
        | Some d -> Some (Printf.sprintf "gen=%d %s %s n=%d [%s]: %s" c.gen c.level c.kind c.n (String.concat " " c.outcomes) d)
        | None -> None) cases in
    (match bad with
     | [] -> Printf.printf "ACCEPT %s cases=%d codes=%d\n%!" path (List.length cases) (Hashtbl.length codes)
     | d :: _ -> Printf.printf "REJECT %s seg=0 t=0 kind=lease-case :: %d of %d cases disagree; first: %s\n%!" path (List.length bad) (List.length cases) d)
  with Failure m -> Printf.printf "ERROR %s %s\n%!" path m

let monitor_file path =
  try
    let (codes, cases) = read path in
    List.iter (fun c -> List.iter (fun m -> Printf.printf "MONITOR %s %s\n" path m) (check_monitor c)) cases;
    let kinds = Hashtbl.create 8 in
    List.iter (fun c -> let k = Printf.sprintf "g%d_%s_%s" c.gen c.level c.kind in
                Hashtbl.replace kinds k (1 + try Hashtbl.find kinds k with Not_found -> 0)) cases;
    Printf.printf "STATS %s sig=%s trivial=0 codes=%d cases=%d %s\n%!" path (Digest.to_hex (Digest.file path)) (Hashtbl.length codes) (List.length cases)
      (String.concat " " (Hashtbl.fold (fun k v a -> Printf.sprintf "%s=%d" k v :: a) kinds []))
  with Failure m -> Printf.printf "ERROR %s %s\n%!" path m
