(* replay/smonitors.ml — model-free monitors for the shared-resource properties
   (C04, C06, C07, C09, C17), evaluated on recorded histories. *)
open Shared   (* the history reader: read, shist, sline *)

let ios = int_of_string
let sec = 1_000_000_000
let lease = 15 * sec
let eff_factor f = if f = 0 then 1 else f
let eff_maxint m = if m <= 0 then 500 else m
let ceil_div a b = if b = 0 then 0 else (a + b - 1) / b

type interval = { p : int; a : int; mutable r : int option; issued : int; granted : int option }

(* per instance: counted intervals, from the allocated / released events *)
let intervals (h : shist) (k : int) : interval list =
  let open_ : (int, interval list) Hashtbl.t = Hashtbl.create 8 and out = ref [] in
  let last_issue = Hashtbl.create 8 and last_grant = Hashtbl.create 8 in
  List.iter (fun ln ->
      if ln.inst = k then
        match ln.w with
        | ["lm"; "lease"; p] -> Hashtbl.replace last_issue (ios p) ln.t; Hashtbl.remove last_grant (ios p)
        | ["store"; "grant"; p] -> Hashtbl.replace last_grant (ios p) ln.t
        | ["ev"; "allocated"; p] ->
            let p = ios p in
            let iv = { p; a = ln.t; r = None; issued = (try Hashtbl.find last_issue p with Not_found -> ln.t);
                       granted = Hashtbl.find_opt last_grant p } in
            Hashtbl.replace open_ p ((try Hashtbl.find open_ p with Not_found -> []) @ [iv]); out := iv :: !out
        | ["ev"; "released"; p] ->
            (* a release event belongs to the oldest interval still open for that partition *)
            (match (try Hashtbl.find open_ (ios p) with Not_found -> []) with
             | iv :: rest -> iv.r <- Some ln.t; Hashtbl.replace open_ (ios p) rest
             | [] -> ())
        | _ -> ()) h.lines;
  List.rev !out

let death_time (h : shist) (k : int) : int =
  (* the instant after which what an instance counts no longer matters: crash, or stop request *)
  List.fold_left (fun acc ln -> if ln.inst = k && (ln.w = ["act"; "crash"] || ln.w = ["act"; "stop"]) then min acc ln.t else acc) max_int h.lines

let last_time (h : shist) = List.fold_left (fun a ln -> max a ln.t) 0 h.lines

(* ------------------------------------------------------------------ C04 *)
let c04 (h : shist) : string list =
  let hits = ref [] in
  let n = Array.length h.insts in
  let ivs = Array.init n (fun k -> intervals h k) in
  let endt = last_time h in
  Array.iteri (fun k l ->
      let dk = death_time h k in
      List.iter (fun iv ->
          let r = match iv.r with Some r -> r | None -> min endt dk in
          (* counted only inside the lease, measured from the request *)
          if iv.a < dk then begin
            if r > iv.issued + lease then
              hits := (Printf.sprintf "c04:counted-after-lease inst=%d partition=%d counted until %d, the lease requested at %d ends at %d" k iv.p r iv.issued (iv.issued + lease)) :: !hits;
            (match iv.granted with
             | Some g -> if iv.a < g then hits := (Printf.sprintf "c04:counted-before-grant inst=%d partition=%d" k iv.p) :: !hits
             | None -> hits := (Printf.sprintf "c04:counted-without-grant inst=%d partition=%d counted from %d with no grant of the store" k iv.p iv.a) :: !hits)
          end) l) ivs;
  (* no partition counted by two live instances at once *)
  for k1 = 0 to n - 1 do
    for k2 = k1 + 1 to n - 1 do
      let d1 = death_time h k1 and d2 = death_time h k2 in
      List.iter (fun i1 ->
          List.iter (fun i2 ->
              if i1.p = i2.p then begin
                let e1 = min d1 (match i1.r with Some r -> r | None -> endt) and e2 = min d2 (match i2.r with Some r -> r | None -> endt) in
                let lo = max i1.a i2.a and hi = min e1 e2 in
                if lo < hi then
                  hits := (Printf.sprintf "c04:shared-partition partition=%d counted by instances %d and %d at once during [%d,%d)" i1.p k1 k2 lo hi) :: !hits
              end) ivs.(k2)) ivs.(k1)
    done
  done;
  (* the sum of shared capacity never exceeds partitions x factor *)
  let reserved = Array.map (fun (i : sinst) -> i.reserved) h.insts in
  let provisioned = Array.make n 0 in
  let cur_t = ref (-1) and sum = ref 0 and seen = ref [] in
  let flush () =
    if !cur_t >= 0 && List.length !seen = n then begin
      let f = eff_factor h.insts.(0).factor in
      let bound = Array.fold_left max 0 provisioned * f in
      if !sum > bound then hits := (Printf.sprintf "c04:sum t=%d the instances count %d shared capacity in total, more than %d" !cur_t !sum bound) :: !hits;
      (* the same against the configured SharedCapacity rounded up to whole partitions (not against the number of
         blobs the code asked for); left to the rule above when the shared capacity is changed on the way *)
      let has_setshared = List.exists (fun ln -> match ln.w with ["act"; "setshared"; _] -> true | _ -> false) h.lines in
      let shared = Array.fold_left (fun a (i : sinst) -> max a i.shared) 0 h.insts in
      let parts = let w = ceil_div shared f in if h.gen = 2 then min 500 w else w in
      if not has_setshared && !sum > parts * f then
        hits := (Printf.sprintf "c04:sum-above-shared t=%d the instances count %d shared capacity in total; SharedCapacity %d rounded up to whole partitions of %d is %d" !cur_t !sum shared f (parts * f)) :: !hits
    end;
    sum := 0; seen := [] in
  List.iter (fun ln ->
      (match ln.w with
       | ["act"; "setreserved"; v] -> reserved.(ln.inst) <- ios v
       | ["lm"; "create"; np] -> provisioned.(ln.inst) <- max provisioned.(ln.inst) (ios np)
       | _ -> ());
      match ln.w with
      | ["sample"; cap; _] ->
          if ln.t <> !cur_t then (flush (); cur_t := ln.t);
          if ln.t < death_time h ln.inst && not (List.mem ln.inst !seen) then (sum := !sum + (ios cap - reserved.(ln.inst)); seen := ln.inst :: !seen)
          else if not (List.mem ln.inst !seen) then seen := ln.inst :: !seen
      | _ -> ()) h.lines;
  flush ();
  List.rev !hits

(* ------------------------------------------------------------------ C06 *)
let c06 (h : shist) : string list =
  let hits = ref [] in
  Array.iteri (fun k (ic : sinst) ->
      let f = eff_factor ic.factor in
      let reserved = ref ic.reserved and shared = ref (if h.gen = 2 && not ic.hasmgr then 0 else ic.shared) in
      let counted = Hashtbl.create 8 in
      let started = ref false and factor_applied = ref (h.gen = 1 && false) in
      let provisioned = ref 0 in
      let cancelled = ref false in
      (* expiry timers of partitions that a shrink has dropped keep running: their released events say nothing
         about a partition of the same index that was created and acquired again later *)
      let orphan = Hashtbl.create 8 in
      (* while CreatePartitions of a re-provisioning runs the published figure is only recomputed by expiries: after a
         shrink that dropped counted partitions it may still include them until the call returns *)
      let lag = ref 0 in
      List.iter (fun ln ->
          if ln.inst = k then
            match ln.w with
            | ["act"; "setreserved"; v] -> reserved := ios v
            | ["act"; "setshared"; v] -> if ic.hasmgr then shared := ios v
            | ["act"; "stop"] | ["act"; "crash"] -> cancelled := true
            | ["startret"; e] -> if e = "0" then started := true; if e <> "1" then factor_applied := true
            | ["provret"; _] -> factor_applied := true
            | ["lm"; "create"; n] ->
                let want = ceil_div !shared f in
                let expect = if h.gen = 2 then min 500 want else want in
                if ios n <> expect || ios n > 500 then
                  hits := (Printf.sprintf "c06:partition-count inst=%d CreatePartitions(%s) for shared=%d factor=%d (expected %d)" k n !shared f expect) :: !hits;
                provisioned := ios n;
                (* a shrink drops the partitions above the new count *)
                lag := 0;
                Hashtbl.iter (fun p cnt -> if p >= ios n then begin
                                    Hashtbl.replace orphan p (cnt + (try Hashtbl.find orphan p with Not_found -> 0));
                                    Hashtbl.remove counted p; incr lag end) (Hashtbl.copy counted)
            | ["ev"; "provision-done"; _] -> lag := 0
            | ["ev"; "capacity"; _] -> if h.gen = 2 then lag := 0
            | ["provret"; "4"] -> if ceil_div !shared f <= 500 then hits := (Printf.sprintf "c06:out-of-range inst=%d refused although %d partitions suffice" k (ceil_div !shared f)) :: !hits
            | ["ev"; "allocated"; p] -> Hashtbl.replace counted (ios p) (1 + try Hashtbl.find counted (ios p) with Not_found -> 0)
            | ["ev"; "released"; p] ->
                (* a timer that fires in the instant its partition is re-acquired logs its release after the new allocation *)
                if (try Hashtbl.find orphan (ios p) with Not_found -> 0) > 0 then
                  Hashtbl.replace orphan (ios p) (Hashtbl.find orphan (ios p) - 1)
                else
                (match Hashtbl.find_opt counted (ios p) with
                 | Some c when c > 1 -> Hashtbl.replace counted (ios p) (c - 1)
                 | _ -> Hashtbl.remove counted (ios p))
            | ["sample"; cap; mx] ->
                let fa = if !factor_applied then f else ic.factor in
                let expect = !reserved + fa * Hashtbl.length counted in
                if ios cap < expect || ios cap > expect + fa * !lag then
                  hits := (Printf.sprintf "c06:capacity inst=%d t=%d Capacity()=%s but reserved %d + factor %d x %d counted partitions = %d" k ln.t cap !reserved fa (Hashtbl.length counted) expect) :: !hits;
                if ios cap > !reserved + fa * (!provisioned + !lag) then
                  hits := (Printf.sprintf "c06:above-provisioned inst=%d t=%d Capacity()=%s with %d partitions provisioned" k ln.t cap !provisioned) :: !hits;
                let emx = if h.gen = 1 then !reserved + !shared else !reserved + min !shared (fa * 500) in
                if ios mx <> emx then
                  hits := (Printf.sprintf "c06:maxcapacity inst=%d t=%d MaxCapacity()=%s, expected %d" k ln.t mx emx) :: !hits
            | _ -> ()) h.lines;
      ignore started; ignore cancelled) h.insts;
  List.rev !hits

(* ------------------------------------------------------------------ C07 *)
let c07 (h : shist) : string list =
  let hits = ref [] in
  let endt = last_time h in
  let rel_at = Hashtbl.create 64 in
  List.iter (fun ln -> match ln.w with ["ev"; "released"; q] -> Hashtbl.add rel_at (ln.inst, ln.t) (ios q) | _ -> ()) h.lines;
  Array.iteri (fun k (ic : sinst) ->
      let f = eff_factor ic.factor in
      let reserved = ref ic.reserved in
      let counted = Hashtbl.create 8 in
      let asked = ref 0 and asked_t = ref (-1) and provisioned = ref 0 and want = ref 0 in
      let cancelled = ref max_int in
      let low_since = ref 0 in   (* since when every GiveMe has been at or below the reserve *)
      let maxlat = 3 * sec in
      List.iter (fun ln ->
          if ln.inst = k then
            match ln.w with
            | ["act"; "setreserved"; v] -> reserved := ios v; low_since := -1
            | ["act"; "stop"] | ["act"; "crash"] -> cancelled := min !cancelled ln.t
            | ["act"; "giveme"; v] ->
                asked := ios v; asked_t := ln.t; want := ceil_div (max 0 (ios v - !reserved)) f;
                if ios v > !reserved then low_since := -1 else if !low_since < 0 then low_since := ln.t
            | ["lm"; "create"; n] ->
                provisioned := ios n;
                Hashtbl.iter (fun p _ -> if p >= ios n then Hashtbl.remove counted p) (Hashtbl.copy counted)
            | ["lm"; "lease"; p] ->
                let want = !want in
                (* an expiry handler clears the partition first and raises its released event afterwards: a released
                   event of this very instant may stand for a clear that the loop has already seen *)
                let cleared_now = List.length (List.filter (fun q -> Hashtbl.mem counted q) (Hashtbl.find_all rel_at (k, ln.t))) in
                if ln.t <> !asked_t && Hashtbl.length counted - cleared_now >= want then
                  hits := (Printf.sprintf "c07:lease-without-demand inst=%d t=%d a lease was requested while %d partitions are counted and %d are wanted" k ln.t (Hashtbl.length counted - cleared_now) want) :: !hits;
                if Hashtbl.mem counted (ios p) && not (List.exists (fun l2 -> l2.inst = k && l2.t = ln.t && l2.w = ["ev"; "released"; p]) h.lines) then
                  hits := (Printf.sprintf "c07:lease-of-counted inst=%d t=%d partition %s is requested while it is counted" k ln.t p) :: !hits;
                if ios p >= !provisioned then
                  hits := (Printf.sprintf "c07:lease-out-of-range inst=%d t=%d partition %s of %d" k ln.t p !provisioned) :: !hits
            | ["ev"; "allocated"; p] -> Hashtbl.replace counted (ios p) ln.t
            | ["ev"; "released"; p] ->
                (match Hashtbl.find_opt counted (ios p) with
                 | Some a -> if ln.t - a > lease then hits := (Printf.sprintf "c07:held-too-long inst=%d partition %s counted for %d ns" k p (ln.t - a)) :: !hits
                 | None -> ());
                Hashtbl.remove counted (ios p)
            | ["sample"; cap; _] ->
                (* never renewed: nothing is counted for more than one lease duration *)
                Hashtbl.iter (fun p a -> if ln.t - a > lease && ln.t < !cancelled then
                                 hits := (Printf.sprintf "c07:not-released inst=%d t=%d partition %d counted since %d" k ln.t p a) :: !hits) counted;
                (* decay to the reserve once demand has been at or below it for a lease (+ one call in flight) *)
                if !low_since >= 0 && ln.t > !low_since + lease + maxlat && ln.t < !cancelled && ios cap <> !reserved then
                  hits := (Printf.sprintf "c07:no-decay inst=%d t=%d Capacity()=%s although demand has been within the reserve %d since %d" k ln.t cap !reserved !low_since) :: !hits
            | _ -> ()) h.lines;
      ignore endt) h.insts;
  List.rev !hits

(* ------------------------------------------------------------------ C09 *)
let c09 (h : shist) : string list =
  (* the bound of the property for instance 0, when its hypotheses hold on this history: from T0 on no fault,
     constant demand, peers dead or without demand; then within one lease + P x (MaxInterval + latency) the
     instance counts min(needed, P) partitions at some instant *)
  let hits = ref [] in
  let n = Array.length h.insts in
  if n >= 1 then begin
    let ic = h.insts.(0) in
    let f = eff_factor ic.factor in
    let mi = eff_maxint ic.maxint * 1_000_000 in
    let t0 = ref 0 and asked = ref 0 and reserved = ref ic.reserved and provisioned = ref 0 and maxlat = ref 0 in
    let issue = ref 0 and wantp = ref 0 in
    let dead0 = death_time h 0 in
    let started = ref false in
    List.iter (fun ln ->
        match ln.w with
        | ["startret"; "0"] -> if ln.inst = 0 then (started := true; t0 := max !t0 ln.t)
        | ["act"; "giveme"; v] ->
            if ln.inst = 0 then begin
              let w = ceil_div (max 0 (ios v - !reserved)) f in
              if w <> !wantp then t0 := max !t0 ln.t;
              wantp := w; asked := ios v
            end else if ios v > h.insts.(ln.inst).reserved then t0 := max_int
        | ["act"; "setreserved"; v] -> if ln.inst = 0 then (t0 := max !t0 ln.t; reserved := ios v)
        | ["act"; "setshared"; _] -> if ln.inst = 0 then t0 := max !t0 ln.t
        | ["act"; ("crash" | "stop")] -> if ln.inst <> 0 then t0 := max !t0 ln.t
        | ["store"; ("refuse" | "error"); _] -> if ln.inst = 0 then t0 := max !t0 ln.t
        | ["lm"; "create"; np] -> if ln.inst = 0 then provisioned := ios np
        | ["lm"; "lease"; _] -> if ln.inst = 0 then issue := ln.t
        | ["lm"; "leaseret"; _; _] -> if ln.inst = 0 then maxlat := max !maxlat (ln.t - !issue)
        | _ -> ()) h.lines;
    (* peers must be dead or never have asked above their reserve *)
    let peers_ok = ref true in
    for k = 1 to n - 1 do
      if death_time h k = max_int then
        if List.exists (fun ln -> ln.inst = k && (match ln.w with ["act"; "giveme"; v] -> ios v > h.insts.(k).reserved | _ -> false)) h.lines then peers_ok := false
    done;
    let want = min !wantp !provisioned in
    let window = lease + !provisioned * (mi + !maxlat) in
    let deadline = if !t0 = max_int then max_int else !t0 + lease + window in
    if !started && !peers_ok && want > 0 && !provisioned * (mi + !maxlat) < lease && deadline < min (last_time h) dead0 then begin
      let counted = Hashtbl.create 8 and best = ref 0 in
      List.iter (fun ln ->
          if ln.inst = 0 then
            match ln.w with
            | ["ev"; "allocated"; p] -> Hashtbl.replace counted (ios p) (); if ln.t <= deadline then best := max !best (Hashtbl.length counted)
            | ["ev"; "released"; p] -> Hashtbl.remove counted (ios p)
            | _ -> if ln.t >= !t0 && ln.t <= deadline then best := max !best (Hashtbl.length counted)) h.lines;
      if !best < want then
        hits := (Printf.sprintf "c09:not-acquired instance 0 wants %d partitions from t=%d on (no faults, peers gone) but never counted more than %d by %d" want !t0 !best deadline) :: !hits
    end
  end;
  (* an instance that needs more must try the partitions it does not hold, not one of them over and over: with at
     least two locally free partitions the choice is random, so 45 consecutive requests for the same partition that
     all come back empty cannot be luck (2^-44) *)
  Array.iteri (fun k (_ : sinst) ->
      let counted = Hashtbl.create 8 and provisioned = ref 0 in
      let streak_p = ref (-1) and streak_n = ref 0 and minfree = ref max_int in
      List.iter (fun ln ->
          if ln.inst = k then
            match ln.w with
            | ["lm"; "create"; n] -> provisioned := ios n; streak_n := 0; streak_p := -1;
                Hashtbl.iter (fun p _ -> if p >= ios n then Hashtbl.remove counted p) (Hashtbl.copy counted)
            | ["ev"; "allocated"; p] -> Hashtbl.replace counted (ios p) (); streak_n := 0; streak_p := -1
            | ["ev"; "released"; p] -> Hashtbl.remove counted (ios p)
            | ["lm"; "leaseret"; p; lt] ->
                if ios lt > 0 then (streak_n := 0; streak_p := -1)
                else begin
                  let free = !provisioned - Hashtbl.length counted in
                  if ios p = !streak_p then (incr streak_n; minfree := min !minfree free)
                  else (streak_p := ios p; streak_n := 1; minfree := free);
                  if !streak_n = 45 && !minfree >= 2 then
                    hits := (Printf.sprintf "c09:stuck-on-one-partition inst=%d t=%d 45 consecutive requests for partition %d came back empty although at least %d partitions are locally free" k ln.t (ios p) !minfree) :: !hits
                end
            | _ -> ()) h.lines) h.insts;
  (* the pace of the acquisition loop, on which the bound rests: each attempt costs at most MaxInterval + the latency
     of the call, whatever the outcomes of the earlier calls.  Virtual time makes this exact: after a lease call has
     returned (or Start has), while the instance keeps counting fewer partitions than it wants and one it does not
     count exists, and nothing else happens to it, the next lease call comes less than MaxInterval later *)
  Array.iteri (fun k (ic : sinst) ->
      let f = eff_factor ic.factor in
      let mi = eff_maxint ic.maxint * 1_000_000 in
      let counted = Hashtbl.create 8 in
      let provisioned = ref 0 and want = ref 0 and reserved = ref ic.reserved in
      let since = ref (-1) in       (* the loop has been free to poll since this instant, nothing happened since *)
      let alive = ref false and reported = ref false in
      (* what is counted, by the larger of two estimates: the allocated/released events, and the last published capacity
         (a released event may come from the timer of an earlier lease of a partition that has been acquired again) *)
      let capv = ref (-1) in
      let held () = max (Hashtbl.length counted) (if !capv < 0 then 0 else (!capv - !reserved) / f) in
      let cond () = held () < !want && held () < !provisioned in
      let close t what =
        if !since >= 0 && !alive && not !reported && cond () && t - !since >= mi then begin
          reported := true;
          hits := (Printf.sprintf "c09:slow-poll inst=%d t=%d %s %d ns after the previous call returned at %d, while %d partitions are counted, %d wanted, %d exist and MaxInterval is %d ms" k t what (t - !since) !since (Hashtbl.length counted) !want !provisioned (mi / 1_000_000)) :: !hits
        end in
      let rec go = function
        | [] -> ()
        | ln :: rest ->
            if ln.inst = k then begin
              (match ln.w with
               | ["lm"; "lease"; _] -> close ln.t "the next lease request comes"; since := -1
               | ["lm"; "leaseret"; _; _] | ["startret"; "0"] ->
                   if ln.w = ["startret"; "0"] then alive := true;
                   (* the state that counts is the one after everything logged at this very instant *)
                   since := ln.t
               | ["act"; "giveme"; v] ->
                   let w' = ceil_div (max 0 (ios v - !reserved)) f in
                   (* a call that leaves the number of partitions wanted as it was changes nothing for the loop *)
                   if w' <> !want && !since >= 0 && ln.t > !since then since := -1;
                   want := w'
               | ["act"; ("stop" | "crash")] -> close ln.t "no lease request until the instance is stopped,"; alive := false; since := -1
               | ["act"; "setreserved"; v] -> reserved := ios v; since := -1
               | ["act"; "probe"] -> ()
               | ["act"; _] | ["act"; _; _] | ["act"; _; _; _] -> if ln.t > !since then since := -1
               | ["lm"; "create"; n] -> provisioned := ios n;
                   Hashtbl.iter (fun p _ -> if p >= ios n then Hashtbl.remove counted p) (Hashtbl.copy counted); since := -1
               | ["ev"; "allocated"; p] -> Hashtbl.replace counted (ios p) (); if ln.t > !since then since := -1
               | ["ev"; "released"; p] -> Hashtbl.remove counted (ios p); if ln.t > !since then since := -1
               | ["ev"; "shutdown"] -> alive := false; since := -1
               | ["ev"; "capacity"; v] -> capv := ios v
               | ["ev"; "provision-done"; _] -> if !alive then since := ln.t   (* v2: the loop is back at its top *)
               | _ -> ())
            end;
            go rest in
      go h.lines) h.insts;
  (* failed blob provisioning only delays: v1 Provision() that got as far as CreatePartitions leaves the resource
     provisioned even when that call reports an error, so the Start() that follows starts the loop *)
  if h.gen = 1 then
    Array.iteri (fun k (_ : sinst) ->
        let created = ref false and prov_failed_create = ref false and stopped = ref false and started = ref false in
        List.iter (fun ln ->
            if ln.inst = k then
              match ln.w with
              | ["act"; "provision"; _; _] | ["act"; "provision"] -> created := false
              | ["lm"; "create"; _] -> created := true
              | ["provret"; e] -> if ios e = 5 && !created then prov_failed_create := true
              | ["act"; "stop"] -> stopped := true
              | ["startret"; e] ->
                  if !prov_failed_create && not !stopped && not !started && ios e <> 0 then
                    hits := (Printf.sprintf "c09:start-refused-after-failed-create inst=%d t=%d Start() returned error %s although Provision() had reached CreatePartitions (its failure must only delay acquisition)" k ln.t e) :: !hits;
                  if ios e = 0 then started := true
              | _ -> ()) h.lines) h.insts;
  (* faults never stop the loop or corrupt the figure: covered by c06 (figure) and the replay (loop keeps going) *)
  List.rev !hits @ c06 h

(* ------------------------------------------------------------------ C17 *)
let c17 (h : shist) : string list =
  let hits = ref [] in
  Array.iteri (fun k (ic : sinst) ->
      let nstart = ref 0 and nshut = ref 0 and provisioned_ok = ref false in
      List.iter (fun ln ->
          if ln.inst = k then
            match ln.w with
            | ["provret"; e] -> if ios e = 0 || ios e = 5 then provisioned_ok := true
            | ["startret"; "0"] ->
                incr nstart;
                if !nstart > 1 then hits := (Printf.sprintf "c17:start-twice inst=%d t=%d" k ln.t) :: !hits;
                if h.gen = 1 && not !provisioned_ok then hits := (Printf.sprintf "c17:start-before-provision inst=%d t=%d" k ln.t) :: !hits
            | ["ev"; "shutdown"] -> incr nshut; if !nshut > 1 then hits := (Printf.sprintf "c17:shutdown-twice inst=%d t=%d" k ln.t) :: !hits
            | ["lm"; "lease"; _] ->
                if !nshut > 0 then hits := (Printf.sprintf "c17:lease-after-shutdown inst=%d t=%d" k ln.t) :: !hits;
                if !nstart = 0 then hits := (Printf.sprintf "c17:lease-before-start inst=%d t=%d a lease is requested although Start did not succeed" k ln.t) :: !hits
            | "apipanic" :: r -> hits := (Printf.sprintf "c17:panic inst=%d t=%d %s" k ln.t (String.concat " " r)) :: !hits
            | ["setsharedret"; ok] -> if (ios ok <> 0) <> ic.hasmgr then hits := (Printf.sprintf "c17:setshared-result inst=%d t=%d" k ln.t) :: !hits
            | _ -> ()) h.lines) h.insts;
  if h.hung then hits := "c17:hang the scenario deadlocked" :: !hits;
  List.rev !hits @ c06 h

let monitor pid h =
  match pid with
  | "C04" ->
      (* counted without a lease: the published capacity exceeds what the partitions with a current allocation are worth
         (the over-count half of the capacity rule of C06) *)
      c04 h @ List.filter_map (fun s ->
          try Scanf.sscanf s "c06:capacity inst=%d t=%d Capacity()=%d but reserved %d + factor %d x %d counted partitions = %d"
                (fun k t cap _ _ n expect -> if cap > expect then Some (Printf.sprintf "c04:counted-without-lease inst=%d t=%d Capacity()=%d exceeds the reserve plus the %d partitions that are allocated and not released (%d)" k t cap n expect) else None)
          with _ -> None) (c06 h)
  | "C06" -> c06 h | "C07" -> c07 h | "C09" -> c09 h | "C17" -> c17 h
  | _ -> []

let stats (h : shist) : string =
  let kinds = Hashtbl.create 32 in
  let buf = Buffer.create 4096 in
  let nontrivial = ref false in
  List.iter (fun ln ->
      (match ln.w with
       | "ev" :: k :: _ -> Hashtbl.replace kinds ("ev_" ^ k) (1 + try Hashtbl.find kinds ("ev_" ^ k) with Not_found -> 0)
       | "act" :: k :: _ -> Hashtbl.replace kinds ("act_" ^ k) (1 + try Hashtbl.find kinds ("act_" ^ k) with Not_found -> 0)
       | "lm" :: k :: _ -> Hashtbl.replace kinds ("lm_" ^ k) (1 + try Hashtbl.find kinds ("lm_" ^ k) with Not_found -> 0)
       | "store" :: k :: _ -> Hashtbl.replace kinds ("store_" ^ k) (1 + try Hashtbl.find kinds ("store_" ^ k) with Not_found -> 0)
       | _ -> ());
      (match ln.w with ["ev"; "allocated"; _] | ["store"; ("refuse" | "error"); _] -> nontrivial := true | _ -> ());
      Buffer.add_string buf (String.concat " " (string_of_int ln.inst :: ln.w)); Buffer.add_char buf '\n') h.lines;
  let ks = Hashtbl.fold (fun k v acc -> Printf.sprintf "%s=%d" (String.map (fun c -> if c = '-' then '_' else c) k) v :: acc) kinds [] in
  Printf.sprintf "sig=%s trivial=%d %s" (Digest.to_hex (Digest.string (Buffer.contents buf))) (if !nontrivial then 0 else 1)
    (String.concat " " (List.sort compare ks))
