(* replay/shared.ml — replay of shared-resource histories against Model/Shared.v.
   Every log line of an instance is either the trigger of a model step (a driver call, a
   call on the lease manager, an event that only one step can begin with) or an observation
   that a running step still owes; [sstep] decides enabledness and the values. *)
open Batcher_model

let ios = int_of_string
let split s = List.filter (fun x -> x <> "") (String.split_on_char ' ' s)
let rec pos_of_int n = if n = 1 then XH else if n land 1 = 1 then XI (pos_of_int (n lsr 1)) else XO (pos_of_int (n lsr 1))
let z_of_int n = if n = 0 then Z0 else if n > 0 then Zpos (pos_of_int n) else Zneg (pos_of_int (-n))
let rec nat_of_int n = if n <= 0 then O else S (nat_of_int (n - 1))
let rec int_of_nat = function O -> 0 | S n -> 1 + int_of_nat n
let rec int_of_pos = function XH -> 1 | XO p -> 2 * int_of_pos p | XI p -> 2 * int_of_pos p + 1
let int_of_z = function Z0 -> 0 | Zpos p -> int_of_pos p | Zneg p -> - (int_of_pos p)

type sline = { t : int; inst : int; w : string list }
type sinst = { factor : int; maxint : int; hasmgr : bool; reserved : int; shared : int }
type shist = { gen : int; insts : sinst array; lines : sline list; hung : bool }

let read path : shist =
  let ic = open_in path in
  let gen = ref 2 and insts = ref [] and lines = ref [] and in_log = ref false and hung = ref false in
  (try
     while true do
       let l = input_line ic in
       let w = split l in
       if not !in_log then
         (match w with
          | ["scfg"; g; _; _] -> gen := ios g
          | ["sinst"; _; f; m; h; r; s] -> insts := { factor = ios f; maxint = ios m; hasmgr = ios h <> 0; reserved = ios r; shared = ios s } :: !insts
          | ["log"] -> in_log := true
          | _ -> ())
       else
         (match w with
          | ["winddown"] | ["eof"] -> Stdlib.raise Exit
          | ["hang"] -> hung := true; Stdlib.raise Exit
          | t :: src :: rest when String.length src > 1 && src.[0] = 'S' && (match int_of_string_opt t with Some _ -> true | None -> false) ->
              lines := { t = ios t; inst = ios (String.sub src 1 (String.length src - 1)); w = rest } :: !lines
          | _ -> ())
     done
   with Exit | End_of_file -> ());
  close_in ic;
  { gen = !gen; insts = Array.of_list (List.rev !insts); lines = List.rev !lines; hung = !hung }

let sobs_str = function
  | SOProvisionRet (ok, e) -> Printf.sprintf "provret(%b,%d)" ok (int_of_nat e)
  | SOStartRet e -> Printf.sprintf "startret(%d)" (int_of_nat e)
  | SOSetSharedRet b -> Printf.sprintf "setsharedret(%b)" b
  | SOLmProvision -> "lm-provision" | SOLmCreate n -> Printf.sprintf "lm-create(%d)" (int_of_z n)
  | SOLmLease p -> Printf.sprintf "lm-lease(%d)" (int_of_nat p)
  | SOEvCapacity v -> Printf.sprintf "capacity(%d)" (int_of_z v) | SOEvTarget v -> Printf.sprintf "target(%d)" (int_of_z v)
  | SOEvAllocated p -> Printf.sprintf "allocated(%d)" (int_of_nat p) | SOEvReleased p -> Printf.sprintf "released(%d)" (int_of_nat p)
  | SOEvShutdown -> "shutdown" | SOEvError n -> Printf.sprintf "error(%d)" (int_of_z n)
  | SOEvProvisionStart n -> Printf.sprintf "provision-start(%d)" (int_of_z n)
  | SOEvProvisionDone n -> Printf.sprintf "provision-done(%d)" (int_of_z n)

(* does a log line show this observation? *)
let line_is (w : string list) (o : sobs) : bool =
  match w, o with
  | ["provret"; e], SOProvisionRet (_, e') -> ios e = int_of_nat e'
  | ["startret"; e], SOStartRet e' -> ios e = int_of_nat e'
  | ["setsharedret"; b], SOSetSharedRet b' -> (ios b <> 0) = b'
  | ["lm"; "provision"], SOLmProvision -> true
  | ["lm"; "create"; n], SOLmCreate n' -> ios n = int_of_z n'
  | ["lm"; "lease"; p], SOLmLease p' -> ios p = int_of_nat p'
  | ["ev"; "capacity"; v], SOEvCapacity v' -> ios v = int_of_z v'
  | ["ev"; "target"; v], SOEvTarget v' -> ios v = int_of_z v'
  | ["ev"; "allocated"; p], SOEvAllocated p' -> ios p = int_of_nat p'
  | ["ev"; "released"; p], SOEvReleased p' -> ios p = int_of_nat p'
  | ["ev"; "shutdown"], SOEvShutdown -> true
  | ["ev"; "error"; n], SOEvError n' -> ios n = int_of_z n'
  | ["ev"; "provision-start"; n], SOEvProvisionStart n' -> ios n = int_of_z n'
  | ["ev"; "provision-done"; n], SOEvProvisionDone n' -> ios n = int_of_z n'
  | _ -> false

exception Reject of int * string * string   (* time, kind, detail *)

let replay_instance (h : shist) (k : int) : unit =
  let ic = h.insts.(k) in
  let c = { sc_gen = (if h.gen = 1 then V1 else V2); sc_factor = z_of_int ic.factor; sc_maxint = z_of_int ic.maxint;
            sc_has_mgr = ic.hasmgr } in
  let s = ref (sinit c (z_of_int ic.reserved) (z_of_int (if h.gen = 2 && not ic.hasmgr then 0 else ic.shared))) in
  (* observations still owed by steps in progress, one queue per step *)
  let owed : sobs list list ref = ref [] in
  let dead = ref false in
  (* capacity values the model has had during the current instant: a goroutine that recomputes the
     capacity (v1: every recalculation; both: an expiry handler running beside the loop) may read the
     table at any point of the instant, so its event may carry any of them *)
  let cands : int list ref = ref [] in
  let relaxed = ref false in
  let note () = let v = int_of_z (capacity (calc !s)) in if not (List.mem v !cands) then cands := v :: !cands in
  (* values seen in capacity events of the current instant that are checked when the instant is over *)
  let deferred : int list ref = ref [] in
  let cap_ok w o =
    match w, o with
    | ["ev"; "capacity"; v], SOEvCapacity v' ->
        ios v = int_of_z v' || ((!relaxed || h.gen = 1) && (deferred := ios v :: !deferred; true))
    | _ -> line_is w o in
  let do_step t l trigger =
    match sstep c !s l with
    | None -> Stdlib.raise (Reject (t, "not-enabled:" ^ trigger, "the model cannot take the step this line stands for"))
    | Some (s', os) -> s := s'; note (); os in
  let advance t =
    if int_of_z !s.s_now < t then
      match sstep c !s (STime (z_of_int t)) with
      | Some (s', _) -> s := s'
      | None -> Stdlib.raise (Reject (t, "missing:released", "time passed the expiry of a counted partition without a released event")) in
  let process ln =
        let w = ln.w in
        (* 1. an owed observation? *)
        let rec take_owed acc = function
          | [] -> None
          | (o :: rest) :: qs when cap_ok w o -> Some (List.rev_append acc ((if rest = [] then [] else [rest]) @ qs))
          | q :: qs -> take_owed (q :: acc) qs in
        match take_owed [] !owed with
        | Some owed' -> owed := owed'
        | None ->
            (* 2. a trigger *)
            let start l name first_is_line =
              let os = do_step ln.t l name in
              let os = if first_is_line then
                  (match os with
                   | o :: rest when cap_ok w o -> rest
                   | o :: _ -> Stdlib.raise (Reject (ln.t, "value:" ^ name, Printf.sprintf "observed %s, model %s" (String.concat " " w) (sobs_str o)))
                   | [] -> Stdlib.raise (Reject (ln.t, "value:" ^ name, "model step has no observation")))
                else os in
              if os <> [] then owed := !owed @ [os] in
            (match w with
             | ["act"; "provision"; a; b] -> start (SAProvision (ios a <> 0, ios b <> 0)) "provision" false
             | ["act"; "start"; a] -> start (SAStart (ios a <> 0)) "start" false
             | ["act"; "stop"] -> start SAStop "stop" false
             | ["act"; "crash"] -> dead := true
             | ["act"; "giveme"; v] -> start (SAGiveMe (z_of_int (ios v))) "giveme" false
             | ["act"; "setreserved"; v] -> start (SASetReserved (z_of_int (ios v))) "setreserved" false
             | ["act"; "setshared"; v] -> start (SASetShared (z_of_int (ios v))) "setshared" false
             | ["act"; "probe"] -> ()
             | ["lm"; "lease"; p] -> start (SILease (nat_of_int (ios p))) "lease" true
             | ["lm"; "leaseret"; _; lt] -> start (SILeaseRet (z_of_int (ios lt))) "leaseret" false
             | ["store"; _; _] -> ()
             | ["stopret"] -> ()
             | ["ev"; "released"; p] -> start (SIExpire (nat_of_int (ios p))) "expire" true
             | ["ev"; "shutdown"] -> start SILoopShutdown "shutdown" true
             | ["ev"; "capacity"; _] when h.gen = 1 -> start SIRecalc "recalc" true
             | ["ev"; ("error" | "provision-start"); _] -> start SILoopProvision "loop-provision" true
             | ["ev"; "provision-done"; _] -> start SICreateRet "create-ret" true
             | ["sample"; cap; mx] ->
                 if !owed <> [] then
                   Stdlib.raise (Reject (ln.t, "missing:" ^ (match !owed with (o :: _) :: _ -> sobs_str o | _ -> "?"),
                                  "a settled instant is reached but the model still owes observations"));
                 if h.gen = 1 && int_of_nat !s.s_recalcs > 0 then
                   Stdlib.raise (Reject (ln.t, "missing:capacity-event", "v1: a recalculation was due but no capacity event was published"));
                 if int_of_z (capacity !s) <> ios cap then
                   Stdlib.raise (Reject (ln.t, "sample:capacity", Printf.sprintf "Capacity()=%s, model %d" cap (int_of_z (capacity !s))));
                 if int_of_z (max_capacity c !s) <> ios mx then
                   Stdlib.raise (Reject (ln.t, "sample:maxcapacity", Printf.sprintf "MaxCapacity()=%s, model %d" mx (int_of_z (max_capacity c !s))))
             | "apipanic" :: _ -> Stdlib.raise (Reject (ln.t, "unknown:apipanic", String.concat " " w))
             | _ -> Stdlib.raise (Reject (ln.t, "unexpected:" ^ (match w with a :: b :: _ -> a ^ "-" ^ b | a :: _ -> a | [] -> "?"),
                                   Printf.sprintf "line '%s' is not something the model can do now; owed: %s" (String.concat " " w)
                                     (String.concat " | " (List.map (fun q -> String.concat "," (List.map sobs_str q)) !owed))))) in
  (* the lines of this instance, grouped by instant *)
  let mine = List.filter (fun ln -> ln.inst = k) h.lines in
  let rec groups acc cur = function
    | [] -> List.rev (if cur = [] then acc else List.rev cur :: acc)
    | ln :: r -> (match cur with
        | l0 :: _ when l0.t <> ln.t -> groups (List.rev cur :: acc) [ln] r
        | _ -> groups acc (ln :: cur) r) in
  let is_trigger ln = match ln.w with
    | ["ev"; "released"; _] | ["lm"; "lease"; _] | ["ev"; "provision-done"; _] -> true
    | "act" :: "probe" :: _ -> false
    | "act" :: _ -> true
    | _ -> false in
  (* Alternatives: an expiry handler clears its partition first and raises the released event afterwards,
     possibly after steps of the loop that already saw the clear.  In an instant in which the loop and an
     expiry handler both act, the instant is replayed in log order and with the clears taken first; every
     order the model accepts is kept (a handful of states at most) and the history is rejected only when
     none is left. *)
  let alts = ref [ (!s, !owed, !dead) ] in
  List.iter (fun g ->
      let t = (List.hd g).t in
      let rel = List.filter (fun ln -> match ln.w with ["ev"; "released"; _] -> true | _ -> false) g in
      let amb = List.length (List.filter is_trigger g) >= 2 in
      let first_err = ref None in
      let out = ref [] in
      let run (s0, owed0, dead0) early =
        s := s0; owed := owed0; dead := dead0; relaxed := amb;
        if !dead then out := (s0, owed0, dead0) :: !out
        else
          try
            advance t;
            cands := []; deferred := []; note ();
            if early then
              List.iter (fun ln -> match ln.w with
                  | ["ev"; "released"; p] ->
                      let os = do_step ln.t (SIExpire (nat_of_int (ios p))) "expire" in
                      if os <> [] then owed := !owed @ [os]
                  | _ -> ()) rel;
            List.iter (fun ln -> if not !dead then process ln) g;
            (* the steps of the instant may have been interleaved otherwise than logged (the table is set just before
               the allocated event, cleared some time before the released event): any count between "all clears
               first" and "all sets first" can have been read *)
            let f = int_of_z !s.s_factor in
            let nrel = List.length rel and nall = List.length (List.filter (fun ln -> match ln.w with ["ev"; "allocated"; _] -> true | _ -> false) g) in
            let lo = List.fold_left min max_int !cands - f * nrel and hi = List.fold_left max min_int !cands + f * nall in
            List.iter (fun v -> if v < lo || v > hi then
                          Stdlib.raise (Reject (t, "value:capacity-event", Printf.sprintf "a capacity event of this instant carries %d, outside what any interleaving of the instant can read (%d..%d)"
                                                      v lo hi))) !deferred;
            let key (s1, o1, d1) = ({ s1 with s_issued = [] }, o1, d1) in
            let me = (!s, !owed, !dead) in
            if !out = [] || not (List.exists (fun a -> Stdlib.compare (key a) (key me) = 0) !out) then out := me :: !out
          with Reject _ as e -> if !first_err = None && not early then first_err := Some e in
      List.iter (fun a -> run a false; if amb && rel <> [] then run a true) !alts;
      (match !out with
       | [] -> (match !first_err with Some e -> Stdlib.raise e | None -> Stdlib.raise (Reject (t, "unknown:no-alternative", "")))
       | l -> alts := (let rec take n = function [] -> [] | x :: r -> if n = 0 then [] else x :: take (n - 1) r in take 8 (List.rev l))))
    (groups [] [] mine)

let replay_file path =
  try
    let h = read path in
    if h.hung then Printf.printf "REJECT %s seg=0 t=0 kind=hang :: the scenario deadlocked\n%!" path
    else begin
      (try
         Array.iteri (fun k _ -> replay_instance h k) h.insts;
         Printf.printf "ACCEPT %s insts=%d lines=%d\n%!" path (Array.length h.insts) (List.length h.lines)
       with Reject (t, kind, detail) ->
         (* a capacity value that disagrees while two goroutines of the instance act at the same instant
            (timer and loop) is a read of a half-updated table in either order: ambiguous, not a verdict *)
         let busy = List.length (List.filter (fun ln -> ln.t = t && (match ln.w with
             | ["ev"; "released"; _] | ["lm"; "lease"; _] | "act" :: _ -> true | _ -> false)) h.lines) in
         if busy >= 2 && kind <> "sample:maxcapacity"
         then Printf.printf "FUEL %s ambiguous-instant t=%d (%s: %s)\n%!" path t kind detail
         else Printf.printf "REJECT %s seg=0 t=%d kind=%s :: %s\n%!" path t kind detail)
    end
  with Failure m -> Printf.printf "ERROR %s %s\n%!" path m
