(* replay/eventer.ml — C20, listener clauses, on recorded sequence-numbered histories of the event
   API under concurrent add / remove / emit.  The rules are the bracket forms of the theorems of
   Proofs/EventerProofs.v: a call's effect lies between its begin and its end. *)
let ios = int_of_string
let split s = List.filter (fun x -> x <> "") (String.split_on_char ' ' s)

type scen = { desc : string; mutable evs : (int * string * int list) list; mutable hung : bool }

let read path : scen list =
  let ic = open_in path in
  let out = ref [] and cur = ref None in
  (try
     while true do
       let w = split (input_line ic) in
       match w with
       | "escenario" :: r -> (match !cur with Some c -> c.evs <- List.rev c.evs; out := c :: !out | None -> ());
           cur := Some { desc = String.concat " " r; evs = []; hung = false }
       | ["endscenario"] -> (match !cur with Some c -> c.evs <- List.rev c.evs; out := c :: !out; cur := None | None -> ())
       | ["hang"] -> (match !cur with Some c -> c.hung <- true; c.evs <- List.rev c.evs; out := c :: !out; cur := None | None -> ())
       | ["eof"] -> Stdlib.raise Exit
       | seq :: kind :: args when (match int_of_string_opt seq with Some _ -> true | None -> false) ->
           (match !cur with Some c -> c.evs <- (ios seq, kind, List.map ios args) :: c.evs | None -> ())
       | _ -> ()
     done
   with Exit | End_of_file -> ());
  close_in ic;
  (match !cur with Some c -> c.evs <- List.rev c.evs; out := c :: !out | None -> ());
  List.rev !out

let check (c : scen) : string list =
  let hits = ref [] in
  let hit s = hits := (Printf.sprintf "c20:%s (%s)" s c.desc) :: !hits in
  if c.hung then hit "deadlock a call on the event API never returned";
  let tbl kind = let t = Hashtbl.create 32 in
    List.iter (fun (s, k, a) -> if k = kind then match a with x :: _ -> if not (Hashtbl.mem t x) then Hashtbl.replace t x s | [] -> ()) c.evs; t in
  let addbegin = tbl "addbegin" and addend = tbl "addend" and rembegin = tbl "rembegin" and remend = tbl "remend"
  and emitbegin = tbl "emitbegin" and emitend = tbl "emitend" in
  let delivered = Hashtbl.create 64 in
  List.iter (fun (s, k, a) ->
      match k, a with
      | "deliver", [e; l] ->
          (* at most once *)
          if Hashtbl.mem delivered (e, l) then hit (Printf.sprintf "delivered-twice event %d reached listener %d twice" e l);
          Hashtbl.replace delivered (e, l) s;
          (* not before it was being added *)
          (match Hashtbl.find_opt addbegin l with
           | Some ab -> if s < ab then hit (Printf.sprintf "delivered-before-add event %d listener %d" e l)
           | None -> hit (Printf.sprintf "delivered-to-unknown listener %d" l));
          (* never after RemoveListener has returned *)
          (match Hashtbl.find_opt remend l with
           | Some re -> if s > re then hit (Printf.sprintf "delivered-after-remove event %d reached listener %d after RemoveListener had returned" e l)
           | None -> ());
          (* only inside the emit call *)
          (match Hashtbl.find_opt emitbegin e, Hashtbl.find_opt emitend e with
           | Some eb, Some ee -> if s < eb || s > ee then hit (Printf.sprintf "delivered-outside-emit event %d listener %d" e l)
           | Some eb, None -> if s < eb then hit (Printf.sprintf "delivered-outside-emit event %d listener %d" e l)
           | None, _ -> hit (Printf.sprintf "delivered-unknown-event %d" e))
      | _ -> ()) c.evs;
  (* exactly once for listeners registered before the event was raised and not being removed until it was over *)
  Hashtbl.iter (fun e eb ->
      match Hashtbl.find_opt emitend e with
      | None -> ()
      | Some ee ->
          Hashtbl.iter (fun l ae ->
              let stable = ae < eb && (match Hashtbl.find_opt rembegin l with Some rb -> rb > ee | None -> true) in
              if stable && not (Hashtbl.mem delivered (e, l)) then
                hit (Printf.sprintf "not-delivered event %d never reached listener %d, registered before it was raised" e l)) addend) emitbegin;
  List.rev !hits

let replay_file path =
  try
    let sc = read path in
    let bad = List.concat_map check sc in
    (match bad with
     | [] -> Printf.printf "ACCEPT %s scenarios=%d\n%!" path (List.length sc)
     | d :: _ -> Printf.printf "REJECT %s seg=0 t=0 kind=eventer-rule :: %d rule violations in %d scenarios; first: %s\n%!" path (List.length bad) (List.length sc) d)
  with Failure m -> Printf.printf "ERROR %s %s\n%!" path m

let monitor_file path =
  try
    let sc = read path in
    List.iter (fun c -> List.iter (fun m -> Printf.printf "MONITOR %s %s\n" path m) (check c)) sc;
    let n k = List.fold_left (fun a c -> a + List.length (List.filter (fun (_, kk, _) -> kk = k) c.evs)) 0 sc in
    Printf.printf "STATS %s sig=%s trivial=0 cases=%d deliver=%d emit=%d add=%d remove=%d\n%!" path (Digest.to_hex (Digest.file path))
      (List.length sc) (n "deliver") (n "emitbegin") (n "addend") (n "remend")
  with Failure m -> Printf.printf "ERROR %s %s\n%!" path m
