(* replay/main.ml — reads history files written by the Go harness, converts them to
   the Coq datatypes and runs the extracted replay engine (Replay/Explore.v).
   Hand-written glue: parsing, int <-> Coq numbers, de-duplication of exploration
   nodes by structural comparison, and printing.  One result line per file. *)
open Batcher_model

let rec pos_of_int n = if n = 1 then XH else if n land 1 = 1 then XI (pos_of_int (n lsr 1)) else XO (pos_of_int (n lsr 1))
let z_of_int n = if n = 0 then Z0 else if n > 0 then Zpos (pos_of_int n) else Zneg (pos_of_int (-n))
let rec nat_of_int n = if n <= 0 then O else S (nat_of_int (n - 1))
let rec int_of_nat = function O -> 0 | S n -> 1 + int_of_nat n
let rec int_of_pos = function XH -> 1 | XO p -> 2 * int_of_pos p | XI p -> 2 * int_of_pos p + 1
let int_of_z = function Z0 -> 0 | Zpos p -> int_of_pos p | Zneg p -> - (int_of_pos p)

let big_nat n = let r = ref O in for _ = 1 to n do r := S !r done; !r

let split s = List.filter (fun x -> x <> "") (String.split_on_char ' ' s)
let ios = int_of_string

let eres_of_int = function
  | 0 -> ROk | 1 -> RNoOp | 2 -> RNoWatcher | 3 -> RTooExpensive | 4 -> RTooManyAttempts
  | 5 -> RBufferFull | 6 -> RShutdown | 7 -> RPanic | _ -> failwith "eres"

exception Unknown_obs of string

let rec take n l = if n = 0 then ([], l) else match l with x :: r -> let (a, b) = take (n - 1) r in (x :: a, b) | [] -> failwith "take"

let parse_obs (ws : string list) : obs =
  match ws with
  | ["enqret"; c; r] -> (try OEnqRet (nat_of_int (ios c), eres_of_int (ios r)) with Failure _ -> Stdlib.raise (Unknown_obs "enqret-other"))
  | ["startret"; b] -> OStartRet (ios b <> 0)
  | ["stopret"] -> OStopRet
  | ["setterpanic"] -> OSetterPanic
  | ["pause"; v] -> OEvPause (z_of_int (ios v))
  | ["resume"] -> OEvResume
  | ["shutdown"] -> OEvShutdown
  | ["auditskip"] -> OEvAuditSkip
  | ["auditpass"] -> OEvAuditPass
  | ["auditfail"; a; b] -> OEvAuditFail (ios a <> 0, ios b <> 0)
  | ["request"; v] -> OEvRequest (z_of_int (ios v))
  | ["giveme"; v] -> OGiveMe (z_of_int (ios v))
  | ["capread"] | ["capread"; _] -> OCapRead
  | ["flushstart"] -> OEvFlushStart
  | ["flushdone"] -> OEvFlushDone
  | "batch" :: w :: n :: rest ->
      let (ids, _) = take (ios n) rest in
      OEvBatch (nat_of_int (ios w), List.map (fun x -> nat_of_int (ios x)) ids)
  | "cbstart" :: w :: n :: rest ->
      let (ids, rest') = take (ios n) rest in
      let (att, _) = take (ios n) rest' in
      OCbStart (nat_of_int (ios w), List.map (fun x -> nat_of_int (ios x)) ids, List.map (fun x -> nat_of_int (ios x)) att)
  | "cbret" :: w :: n :: rest ->
      let (ids, _) = take (ios n) rest in
      OCbRet (nat_of_int (ios w), List.map (fun x -> nat_of_int (ios x)) ids)
  | k :: _ -> Stdlib.raise (Unknown_obs k)
  | [] -> Stdlib.raise (Unknown_obs "empty")

let parse_act (ws : string list) : label option =
  match ws with
  | ["start"] -> Some AStart
  | ["pause"] -> Some APause
  | ["flush"] -> Some AFlush
  | ["stop"] -> Some AStop
  | ["setter"] -> Some ASetter
  | ["probe"] -> None
  | ["setcap"; v] -> Some (ASetCap (z_of_int (ios v)))
  | ["setmaxcap"; v] -> Some (ASetMaxCap (z_of_int (ios v)))
  | ["release"; c] -> Some (ARelease (nat_of_int (ios c)))
  | ["enq"; nl; w; obj; cost; costd; b; dur; hold] ->
      Some (AEnqueue { e_nil = ios nl <> 0;
                       e_watcher = (if ios w < 0 then None else Some (nat_of_int (ios w)));
                       e_obj = nat_of_int (ios obj); e_cost = z_of_int (ios cost);
                       e_cost_done = z_of_int (ios costd); e_batchable = ios b <> 0;
                       e_dur = z_of_int (ios dur); e_hold = ios hold <> 0 })
  | _ -> failwith ("act: " ^ String.concat " " ws)

type hist = { name : string; cfg : cfg; segs : segment list; raw_lines : int }

let read_history path : hist =
  let ic = open_in path in
  let name = ref "" in
  let cfgl = ref [] and watchers = ref [] in
  let in_log = ref false in
  let segs = ref [] in
  (* current segment *)
  let cur_t = ref (-1) and cur_act = ref None and cur_has_act = ref false
  and cur_loop = ref [] and cur_other = ref [] and cur_open = ref false in
  let close sample =
    if !cur_open then begin
      segs := { sg_time = z_of_int !cur_t; sg_act = !cur_act; sg_loop = List.rev !cur_loop;
                sg_other = List.rev !cur_other; sg_sample = sample } :: !segs;
      cur_open := false; cur_act := None; cur_has_act := false; cur_loop := []; cur_other := []
    end in
  let openseg t = if not !cur_open then (cur_open := true; cur_t := t) in
  let nlines = ref 0 in
  (try
     while true do
       let line = input_line ic in
       incr nlines;
       let ws = split line in
       if not !in_log then begin
         match ws with
         | "name" :: n :: _ -> name := n
         | "cfg" :: rest -> cfgl := List.map ios rest
         | ["watcher"; a; b; c] -> watchers := { w_maxbatch = nat_of_int (ios a); w_maxattempts = nat_of_int (ios b); w_maxop = z_of_int (ios c) } :: !watchers
         | ["log"] -> in_log := true
         | _ -> ()
       end else begin
         match ws with
         | ["winddown"] | ["eof"] -> close None; Stdlib.raise Exit
         | t :: src :: rest ->
             let t = ios t in
             if !cur_open && t <> !cur_t then close None;
             (match src, rest with
              | "D", "act" :: a ->
                  if !cur_open && !cur_has_act then close None;
                  openseg t; cur_act := parse_act a; cur_has_act := true
              | "D", ["sample"; n; b; i; p] ->
                  openseg t;
                  close (Some { sm_needs = z_of_int (ios n); sm_buf = nat_of_int (ios b);
                                sm_inflight = nat_of_int (ios i); sm_pending = nat_of_int (ios p) })
              | "D", _ -> ()
              | "L", o -> openseg t; cur_loop := parse_obs o :: !cur_loop
              | _, o -> openseg t; cur_other := parse_obs o :: !cur_other)
         | _ -> ()
       end
     done
   with Exit -> () | End_of_file -> close None);
  close_in ic;
  let c = match !cfgl with
    | g :: bufcap :: errfull :: limiter :: flush :: capint :: audit :: maxop :: pause :: maxconc :: busy ->
        let bfd, bau, bcp, rp = (match busy with [a; b; d; e] -> (a, b, d, e) | [a; b; d] -> (a, b, d, 0) | [a; b] -> (a, b, 0, 0) | [] -> (0, 0, 0, 0) | _ -> failwith "cfg line") in
        { c_gen = (if g = 1 then V1 else V2); c_bufcap = nat_of_int bufcap; c_errfull = errfull <> 0;
          c_limiter = limiter <> 0; c_flush = z_of_int flush; c_capint = z_of_int capint;
          c_audit = z_of_int audit; c_maxop = z_of_int maxop; c_pause = z_of_int pause;
          c_maxconc = nat_of_int maxconc; c_watchers = List.rev !watchers;
          c_busy_fd = z_of_int bfd; c_busy_audit = z_of_int bau; c_busy_cap = z_of_int bcp; c_react_pause = nat_of_int rp }
    | _ -> failwith "cfg line" in
  { name = !name; cfg = c; segs = List.rev !segs; raw_lines = !nlines }

exception Too_many of int
let max_frontier = ref 6000
(* ghost history fields are write-only: two nodes that differ only there behave alike *)
let erase (n : node) : node =
  { n with n_state = { n.n_state with g_inserted = []; g_raised = []; g_started = []; g_discarded = []; g_failed = [];
                                     g_taken = []; g_cycles = O; g_flush_ticks = O; g_flush_calls = O; g_flush_fired = O;
                                     g_shutdowns = O } }
let dedup (l : node list) : node list =
  let keyed = List.map (fun n -> (erase n, n)) l in
  let r = List.sort_uniq (fun (a, _) (b, _) -> Stdlib.compare a b) keyed in
  let r = List.map snd r in
  if List.compare_length_with r !max_frontier > 0 then Stdlib.raise (Too_many (List.length r));
  r

let obs_kind = function
  | OEnqRet (_, _) -> "enqret" | OStartRet _ -> "startret" | OStopRet -> "stopret"
  | OSetterPanic -> "setterpanic" | OEvPause _ -> "pause" | OEvResume -> "resume"
  | OEvShutdown -> "shutdown" | OEvAuditSkip -> "auditskip" | OEvAuditPass -> "auditpass"
  | OEvAuditFail (_, _) -> "auditfail" | OEvRequest _ -> "request" | OGiveMe _ -> "giveme"
  | OCapRead -> "capread" | OEvFlushStart -> "flushstart" | OEvFlushDone -> "flushdone"
  | OEvBatch (_, _) -> "batch" | OCbStart (_, _, _) -> "cbstart" | OCbRet (_, _) -> "cbret"

let ints l = String.concat "," (List.map (fun n -> string_of_int (int_of_nat n)) l)

let obs_str = function
  | OEnqRet (c, r) -> Printf.sprintf "enqret(%d,%d)" (int_of_nat c) (Obj.magic r : int)
  | OEvPause v -> Printf.sprintf "pause(%d)" (int_of_z v)
  | OEvRequest v -> Printf.sprintf "request(%d)" (int_of_z v)
  | OGiveMe v -> Printf.sprintf "giveme(%d)" (int_of_z v)
  | OEvAuditFail (a, b) -> Printf.sprintf "auditfail(%b,%b)" a b
  | OEvBatch (w, l) -> Printf.sprintf "batch(w%d:[%s])" (int_of_nat w) (ints l)
  | OCbStart (w, l, a) -> Printf.sprintf "cbstart(w%d:[%s]@[%s])" (int_of_nat w) (ints l) (ints a)
  | OCbRet (w, l) -> Printf.sprintf "cbret(w%d:[%s])" (int_of_nat w) (ints l)
  | OStartRet b -> Printf.sprintf "startret(%b)" b
  | o -> obs_kind o

let label_name = function
  | AStart -> "AStart" | APause -> "APause" | AFlush -> "AFlush" | AStop -> "AStop"
  | AEnqueue _ -> "AEnqueue" | ARelease _ -> "ARelease" | ASetter -> "ASetter"
  | ASetCap _ -> "ASetCap" | ASetMaxCap _ -> "ASetMaxCap" | IEnqInsert _ -> "IEnqInsert"
  | IEnqRetry _ -> "IEnqRetry" | IStopRet -> "IStopRet" | ITick _ -> "ITick"
  | ILoopShutdown -> "ILoopShutdown" | ILoopPause -> "ILoopPause" | ILoopResume -> "ILoopResume"
  | ILoopAuditCheck -> "ILoopAuditCheck" | ILoopAuditConfirm -> "ILoopAuditConfirm"
  | ILoopCap -> "ILoopCap" | ILoopFlushTick -> "ILoopFlushTick" | ICycleBegin -> "ICycleBegin"
  | ICycleVisit -> "ICycleVisit" | ICycleRaise _ -> "ICycleRaise" | ICycleEnd -> "ICycleEnd"
  | IBatchStart _ -> "IBatchStart" | ICbEnter _ -> "ICbEnter" | ICbReturn _ -> "ICbReturn" | IBatchDone _ -> "IBatchDone"
  | TAdvance _ -> "TAdvance"

(* what the model offers at a dead end *)
let offers c (n : node) : string =
  let s = n.n_state in
  let cands = candidates c s in
  let outs = List.filter_map (fun l ->
      match step c s l with
      | Some (_, os) -> Some (label_name l ^ ":" ^ String.concat "+" (List.map obs_str os))
      | None -> None) cands in
  String.concat " | " outs

let classify c (g : segment) (best : node) (mism : state list) : string * string =
  match best.n_loop, best.n_other, best.n_act with
  | o :: _, _, _ -> ("loop:" ^ obs_kind o, Printf.sprintf "unmatched %s; model offers {%s}" (obs_str o) (offers c best))
  | [], o :: _, _ -> ("other:" ^ obs_kind o, Printf.sprintf "unmatched %s; model offers {%s}" (obs_str o) (offers c best))
  | [], [], Some a -> ("act:" ^ label_name a, "the driver's call is not enabled in the model")
  | [], [], None ->
      (match mism, g.sg_sample with
       | s :: _, Some sm ->
           let k =
             if int_of_z s.target <> int_of_z sm.sm_needs then "sample:needs"
             else if int_of_nat (length s.buffer) <> int_of_nat sm.sm_buf then "sample:buf"
             else if int_of_nat s.tokens <> int_of_nat sm.sm_inflight then "sample:inflight"
             else "sample:pending" in
           (k, Printf.sprintf "observed needs=%d buf=%d inflight=%d pending=%d; model needs=%d buf=%d inflight=%d pending=%d"
                 (int_of_z sm.sm_needs) (int_of_nat sm.sm_buf) (int_of_nat sm.sm_inflight) (int_of_nat sm.sm_pending)
                 (int_of_z s.target) (int_of_nat (length s.buffer)) (int_of_nat s.tokens) (int_of_nat (pending_calls s)))
       | _, _ -> ("missing", Printf.sprintf "history ends the instant but the model must still do {%s}" (offers c best)))

(* what a history file is, from its first line *)
type hkind = KBatcher | KShared | KLease | KEventer | KBuffer | KRt

let kind_of path : hkind =
  let l = (try let ic = open_in path in let l = (try input_line ic with End_of_file -> "") in close_in ic; l with Sys_error _ -> "") in
  let starts p = String.length l >= String.length p && String.sub l 0 (String.length p) = p in
  if starts "eventer-history" then KEventer
  else if starts "buffer-history" then KBuffer
  else if starts "rt-history" then KRt
  else if starts "lease-history" then KLease
  else if starts "sname" then KShared
  else KBatcher

let replay_batcher fuel path =
  try
    let h = read_history path in
    let nseg = List.length h.segs in
    (match replay h.cfg dedup fuel h.segs with
     | Accepted (_, mx) -> Printf.printf "ACCEPT %s segs=%d maxstates=%d\n%!" path nseg (int_of_nat mx)
     | Rejected (k, g, best, mism) ->
         let (kind, detail) = classify h.cfg g best mism in
         Printf.printf "REJECT %s seg=%d t=%d kind=%s :: %s\n" path (int_of_nat k) (int_of_z g.sg_time) kind detail
     | OutOfFuel k -> Printf.printf "FUEL %s seg=%d\n" path (int_of_nat k))
  with
  | Too_many n -> Printf.printf "FUEL %s frontier=%d\n%!" path n
  | Unknown_obs k -> Printf.printf "REJECT %s seg=-1 t=-1 kind=unknown:%s :: observation the model does not know\n" path k
  | Failure m -> Printf.printf "ERROR %s %s\n" path m

let monitor_one pid path =
  match kind_of path with
  | KLease -> Lease.monitor_file path
  | KEventer -> Eventer.monitor_file path
  | KBuffer -> Bufrep.monitor_file path
  | KRt -> Rt.monitor_file pid path
  | KShared ->
      (try
         let h = Shared.read path in
         List.iter (fun msg -> Printf.printf "MONITOR %s %s\n" path msg) (Smonitors.monitor pid h);
         Printf.printf "STATS %s %s\n%!" path (Smonitors.stats h)
       with Failure m -> Printf.printf "ERROR %s %s\n" path m)
  | KBatcher ->
      (try
         let h = Monitors.read path in
         List.iter (fun msg -> Printf.printf "MONITOR %s %s\n" path msg) (Monitors.monitor pid h);
         Printf.printf "STATS %s %s\n%!" path (Monitors.stats path h)
       with Failure m -> Printf.printf "ERROR %s %s\n" path m)

let () =
  let fuel = big_nat 2000000 in
  let args = List.tl (Array.to_list Sys.argv) in
  let mode, files = match args with m :: r -> (m, r) | [] -> ("replay", []) in
  if String.length mode > 8 && String.sub mode 0 8 = "monitor:" then begin
    let pid = String.sub mode 8 (String.length mode - 8) in
    List.iter (monitor_one pid) files;
    exit 0
  end;
  (* every replay mode dispatches on what the file is, so one property can mix engines *)
  if List.mem mode ["replay"; "sreplay"; "lreplay"; "ereplay"; "breplay"; "auto"] then begin
    List.iter (fun path ->
        match kind_of path with
        | KBatcher -> replay_batcher fuel path
        | KShared -> Shared.replay_file path
        | KLease -> Lease.replay_file path
        | KEventer -> Eventer.replay_file path
        | KBuffer -> Bufrep.replay_file path
        | KRt -> ()) files;
    exit 0
  end;
  prerr_endline ("unknown mode " ^ mode); exit 2
