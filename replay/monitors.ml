(* replay/monitors.ml — per-property monitors evaluated directly on a recorded history,
   without the model: each states the observable content of one property and returns
   the list of violations it sees (DESIGN.md 2.6 "Monitors").  They are what turns a
   broken proof / rejected history into a concrete failing input. *)

type line = { t : int; src : string; w : string list }

type call = {
  idx : int; ct : int; nil : bool; cw : int; obj : int; cost : int; costd : int;
  batchable : bool; dur : int; hold : bool;
  mutable ret : (int * int) option;   (* time, result code *)
}

type hist = {
  gen : int; bufcap : int; errfull : bool; limiter : bool;
  flush : int; capint : int; audit : int; maxop : int; pause : int; maxconc : int; busy_fd : int; busy_audit : int; busy_cap : int; react_pause : int;
  watchers : (int * int * int) array;   (* maxbatch, maxattempts, maxop *)
  lines : line list;
  ended : bool;
  hung : bool;     (* the real-time watchdog fired: a genuine deadlock froze the bubble *)
}

let ios = int_of_string
let split s = List.filter (fun x -> x <> "") (String.split_on_char ' ' s)
let ms = 1_000_000
let eff v d = if v <= 0 then d else v

let read path : hist =
  let ic = open_in path in
  let cfg = ref [] and ws = ref [] and lines = ref [] and in_log = ref false and ended = ref false and hung = ref false in
  (try
     while true do
       let l = input_line ic in
       let w = split l in
       if not !in_log then
         (match w with
          | "cfg" :: r -> cfg := List.map ios r
          | ["watcher"; a; b; c] -> ws := (ios a, ios b, ios c) :: !ws
          | ["log"] -> in_log := true
          | _ -> ())
       else
         (match w with
          | ["winddown"] ->
              ended := true;
              (* of the wind-down only the final count of calls still pending is kept (as a line of its own kind) *)
              (try while true do
                   match split (input_line ic) with
                   | [t; "D"; "end"; n] -> lines := { t = ios t; src = "D"; w = ["end"; n] } :: !lines
                   | _ -> ()
                 done with End_of_file -> ());
              raise Exit
          | ["hang"] -> hung := true; raise Exit
          | ["eof"] -> raise Exit
          | t :: src :: rest when (match int_of_string_opt t with Some _ -> true | None -> false) ->
              lines := { t = ios t; src; w = rest } :: !lines
          | _ -> ())
     done
   with Exit | End_of_file -> ());
  close_in ic;
  match !cfg with
  | g :: bufcap :: errfull :: limiter :: flush :: capint :: audit :: maxop :: pause :: maxconc :: busy ->
      let busy_fd, busy_audit, busy_cap = (match busy with a :: b :: d :: _ -> (a, b, d) | [a; b] -> (a, b, 0) | _ -> (0, 0, 0)) in
      let react_pause = (match busy with [_; _; _; e] -> e | _ -> 0) in
      { gen = g; bufcap; errfull = errfull <> 0; limiter = limiter <> 0; flush; capint; audit; maxop;
        pause; maxconc; busy_fd; busy_audit; busy_cap; react_pause; watchers = Array.of_list (List.rev !ws); lines = List.rev !lines; ended = !ended; hung = !hung }
  | _ -> failwith "cfg"

let timeout_of h w =
  let (_, _, wm) = h.watchers.(w) in
  if wm > 0 then wm else eff h.maxop (60_000 * ms)

let rec take n l = if n = 0 then ([], l) else match l with x :: r -> let (a, b) = take (n - 1) r in (x :: a, b) | [] -> ([], [])

let ids_of (ws : string list) : int * int list * string list =
  match ws with
  | w :: n :: rest -> let (ids, rest') = take (ios n) rest in (ios w, List.map ios ids, rest')
  | _ -> (-1, [], [])

(* all calls in issue order *)
let calls_of h : call array =
  let l = ref [] and k = ref 0 in
  List.iter (fun ln ->
      match ln.src, ln.w with
      | "D", ["act"; "enq"; nl; w; obj; cost; costd; b; dur; hold] ->
          l := { idx = !k; ct = ln.t; nil = ios nl <> 0; cw = ios w; obj = ios obj; cost = ios cost;
                 costd = ios costd; batchable = ios b <> 0; dur = ios dur; hold = ios hold <> 0; ret = None } :: !l;
          incr k
      | _ -> ()) h.lines;
  let a = Array.of_list (List.rev !l) in
  List.iter (fun ln ->
      match ln.src, ln.w with
      | _, ["enqret"; c; r] -> let c = ios c in if c < Array.length a then a.(c).ret <- Some (ln.t, ios r)
      | _ -> ()) h.lines;
  a

let tbl_get tbl k = try Hashtbl.find tbl k with Not_found -> 0
let tbl_add tbl k v = Hashtbl.replace tbl k (tbl_get tbl k + v)

let obj_info h (calls : call array) =
  (* watcher, batchable, cost, cost at completion per object (objects keep their attributes) *)
  let t = Hashtbl.create 64 in
  Array.iter (fun c -> if not c.nil then Hashtbl.replace t c.obj c) calls;
  t

(* ------------------------------------------------------------------ C01 *)
let c01 h : string list =
  let calls = calls_of h in
  let info = obj_info h calls in
  let issued = Hashtbl.create 64 and errs = Hashtbl.create 64 and delivered = Hashtbl.create 64 in
  let okret = ref 0 and ndelivered = ref 0 and shut = ref false in
  let batches = Hashtbl.create 64 and cbs = Hashtbl.create 64 in
  let hits = ref [] in
  let hit s = hits := s :: !hits in
  List.iter (fun ln ->
      match ln.src, ln.w with
      | "D", "act" :: "enq" :: nl :: w :: obj :: _ -> if ios nl = 0 && ios w >= 0 then tbl_add issued (ios obj) 1
      | _, ["enqret"; c; r] ->
          let c = calls.(ios c) in
          if ios r = 0 then incr okret else if not c.nil then tbl_add errs c.obj 1
      | "L", ["shutdown"] -> shut := true
      | "L", "batch" :: rest -> let (w, ids, _) = ids_of rest in tbl_add batches (w, ids) 1
      | _, "cbstart" :: rest ->
          let (w, ids, _) = ids_of rest in
          tbl_add cbs (w, ids) 1;
          if tbl_get cbs (w, ids) > tbl_get batches (w, ids) then
            hit (Printf.sprintf "c01:callback-without-batch t=%d a callback was invoked more often than its batch was raised" ln.t);
          List.iter (fun id ->
              tbl_add delivered id 1; incr ndelivered;
              if tbl_get delivered id > tbl_get issued id - tbl_get errs id then
                hit (Printf.sprintf "c01:over-delivery t=%d operation %d delivered %d times but accepted at most %d times" ln.t id
                       (tbl_get delivered id) (tbl_get issued id - tbl_get errs id));
              (match Hashtbl.find_opt info id with
               | Some c -> if c.cw <> w then hit (Printf.sprintf "c01:wrong-watcher t=%d operation %d of watcher %d delivered to watcher %d" ln.t id c.cw w)
               | None -> hit (Printf.sprintf "c01:unknown-op t=%d operation %d was never enqueued" ln.t id))) ids
      | "D", ["sample"; _; buf; _; _] ->
          if not !shut then begin
            if !okret - !ndelivered <> ios buf then
              hit (Printf.sprintf "c01:conservation t=%d accepted=%d delivered=%d but OperationsInBuffer=%s" ln.t !okret !ndelivered buf);
            Hashtbl.iter (fun k v -> if tbl_get cbs k <> v then
                             hit (Printf.sprintf "c01:batch-not-delivered t=%d a raised batch has no callback invocation at a settled instant" ln.t)) batches
          end
      | _ -> ()) h.lines;
  List.rev !hits

(* ------------------------------------------------------------------ C05 *)
let c05 h : string list =
  let calls = calls_of h in
  let info = obj_info h calls in
  let hits = ref [] in
  let hit s = hits := s :: !hits in
  (* insertion rank of the instance of an object that a batch carries: the k-th delivery of an object belongs to its
     k-th accepted Enqueue (instances of one object keep their order in a FIFO buffer); only when those calls do not
     overlap in time, otherwise unknown *)
  let accepted = Hashtbl.create 64 and overlap = Hashtbl.create 8 and last_rt = Hashtbl.create 64 in
  Array.iter (fun c ->
      if not c.nil then begin
        (match Hashtbl.find_opt last_rt c.obj with
         | Some rt when c.ct < rt -> Hashtbl.replace overlap c.obj ()
         | _ -> ());
        match c.ret with
        | Some (rt, 0) ->
            Hashtbl.replace accepted c.obj ((try Hashtbl.find accepted c.obj with Not_found -> []) @ [(rt, if rt = c.ct then c.idx else -1)]);
            Hashtbl.replace last_rt c.obj (max rt (try Hashtbl.find last_rt c.obj with Not_found -> 0))
        | Some (rt, _) -> Hashtbl.replace last_rt c.obj (max rt (try Hashtbl.find last_rt c.obj with Not_found -> 0))
        | None -> Hashtbl.replace overlap c.obj ()   (* a call that never returned *)
      end) calls;
  let ndeliv = Hashtbl.create 64 in
  let rank id =
    if Hashtbl.mem overlap id && List.length (try Hashtbl.find accepted id with Not_found -> []) > 1 then None
    else List.nth_opt (try Hashtbl.find accepted id with Not_found -> []) (tbl_get ndeliv id) in
  let before a b = (* a strictly inserted before b, when that is certain *)
    match a, b with
    | Some (ta, ia), Some (tb, ib) -> ta < tb || (ta = tb && ia >= 0 && ib >= 0 && ia < ib)
    | _ -> false in
  let last_b = Hashtbl.create 8 and last_nb = ref None in
  (* cycle grouping *)
  let cyc = Hashtbl.create 8 in   (* watcher -> sizes of batchable batches in this cycle, newest first *)
  let end_cycle () =
    Hashtbl.iter (fun w sizes ->
        let (mb, _, _) = h.watchers.(w) in
        match sizes with
        | _ :: earlier ->
            List.iter (fun n -> if mb = 0 || n <> mb then
                          hits := (Printf.sprintf "c05:second-batch watcher %d got another batch in the same cycle after one of size %d (MaxBatchSize %d)" w n mb) :: !hits) earlier
        | [] -> ()) cyc;
    Hashtbl.reset cyc in
  let cur_t = ref (-1) in
  List.iter (fun ln ->
      if h.gen = 1 && ln.t <> !cur_t then (end_cycle (); cur_t := ln.t);
      match ln.src, ln.w with
      | "L", ["flushstart"] | "L", "capread" :: _ -> end_cycle ()
      | "L", ["flushdone"] -> end_cycle ()
      | "D", ["act"; "flush"] -> if h.gen = 1 then Hashtbl.reset cyc
      | "L", "batch" :: rest ->
          let (w, ids, _) = ids_of rest in
          let n = List.length ids in
          if n = 0 then hit (Printf.sprintf "c05:empty-batch t=%d" ln.t);
          let (mb, _, _) = if w >= 0 && w < Array.length h.watchers then h.watchers.(w) else (0, 0, 0) in
          if mb > 0 && n > mb then hit (Printf.sprintf "c05:too-large t=%d batch of %d for watcher %d with MaxBatchSize %d" ln.t n w mb);
          let nonb = ref false in
          List.iter (fun id ->
              match Hashtbl.find_opt info id with
              | Some c ->
                  if c.cw <> w then hit (Printf.sprintf "c05:mixed-watchers t=%d operation %d of watcher %d in a batch of watcher %d" ln.t id c.cw w);
                  if not c.batchable then nonb := true
              | None -> ()) ids;
          if !nonb && n > 1 then hit (Printf.sprintf "c05:non-batchable-not-alone t=%d batch of %d contains a non-batchable operation" ln.t n);
          if not !nonb then Hashtbl.replace cyc w (n :: (try Hashtbl.find cyc w with Not_found -> []));
          (* order inside the batch and across batches *)
          (* the rank of every position of the batch (an object may occur more than once in one batch) *)
          let seen = Hashtbl.create 8 in
          let ranked = List.map (fun id ->
              let k = tbl_get seen id in
              tbl_add seen id 1;
              let r = if Hashtbl.mem overlap id && List.length (try Hashtbl.find accepted id with Not_found -> []) > 1 then None
                else List.nth_opt (try Hashtbl.find accepted id with Not_found -> []) (tbl_get ndeliv id + k) in
              (id, r)) ids in
          let rank id = (try List.assoc id ranked with Not_found -> None) in
          let rec inorder = function
            | (a, ra) :: (((b, rb) :: _) as r) ->
                if before rb ra then hit (Printf.sprintf "c05:order-in-batch t=%d operation %d precedes %d in a batch but was enqueued after it" ln.t a b);
                inorder r
            | _ -> () in
          inorder ranked;
          if h.maxconc = 0 then begin
            if !nonb then begin
              (match !last_nb, ids with
               | Some (p, rp), [id] -> if before (rank id) rp then hit (Printf.sprintf "c05:release-order t=%d non-batchable %d released after %d but enqueued before it" ln.t id p)
               | _ -> ());
              (match ids with [id] -> last_nb := Some (id, rank id) | _ -> ())
            end else begin
              (match Hashtbl.find_opt last_b w, ids with
               | Some (p, rp), id :: _ -> if before (rank id) rp then hit (Printf.sprintf "c05:release-order t=%d watcher %d: %d released after %d but enqueued before it" ln.t w id p)
               | _ -> ());
              (match List.rev ranked with (id, r) :: _ -> Hashtbl.replace last_b w (id, r) | [] -> ())
            end
          end;
          List.iter (fun id -> tbl_add ndeliv id 1) ids
      | _ -> ()) h.lines;
  end_cycle ();
  List.rev !hits

(* ------------------------------------------------------------------ C02 *)
let c02 h : string list =
  let calls = calls_of h in
  let info = obj_info h calls in
  let hits = ref [] in
  let flush_ms = eff h.flush (100 * ms) / ms in
  let in_cycle = ref false and cap = ref 0 and total = ref 0 and mx = ref 0 and ct = ref 0 in
  let close () =
    if !in_cycle && h.limiter then begin
      (* released - (largest single cost) must be below (v1: not above) Capacity*ms/1000 *)
      let lhs = (!total - !mx) * 1000 and rhs = !cap * flush_ms in
      if !total > 0 && (if h.gen = 2 then lhs >= rhs else lhs > rhs) then
        hits := (Printf.sprintf "c02:over-allowance t=%d a cycle released cost %d (largest operation %d) with Capacity()=%d and FlushInterval=%dms" !ct !total !mx !cap flush_ms) :: !hits;
      if h.gen = 2 && !cap = 0 && !total > 0 then
        hits := (Printf.sprintf "c02:zero-allowance t=%d a v2 cycle released cost %d with Capacity()=0" !ct !total) :: !hits
    end;
    in_cycle := false; total := 0; mx := 0 in
  let ncycles = ref 0 and nflush = ref 0 and start_t = ref (-1) and paused_cycles = ref 0 in
  List.iter (fun ln ->
      (match ln.src, ln.w with
       | "L", ["capread"; v] -> close (); in_cycle := true; cap := ios v; ct := ln.t; incr ncycles
       | "L", ["flushdone"] -> close ()
       | "L", "batch" :: rest ->
           let (_, ids, _) = ids_of rest in
           List.iter (fun id -> match Hashtbl.find_opt info id with
               | Some c -> total := !total + c.cost; if c.cost > !mx then mx := c.cost
               | None -> ()) ids
       | "D", ["act"; "flush"] -> incr nflush
       | "D", ["act"; "start"] -> if !start_t < 0 then start_t := ln.t
       | _ -> ());
      if h.gen = 1 && !in_cycle && ln.t <> !ct then close ();
      (* cycles so far never exceed flush ticks so far + Flush() calls so far *)
      if h.limiter && !start_t >= 0 then begin
        let ticks = (ln.t - !start_t) / eff h.flush (100 * ms) in
        if !ncycles > ticks + !nflush + !paused_cycles then begin
          hits := (Printf.sprintf "c02:too-many-cycles t=%d %d cycles after %d flush ticks and %d Flush() calls" ln.t !ncycles ticks !nflush) :: !hits;
          paused_cycles := !paused_cycles + 1000000
        end
      end) h.lines;
  close ();
  List.rev !hits

(* ------------------------------------------------------------------ C03 / C10 / C11 (accounting at settled instants) *)
type braised = { bt : int; bw : int; bids : int list; mutable cbret : int option }

let accounting ?(check_needs = true) ?(check_inflight = true) h : string list =
  let calls = calls_of h in
  let info = obj_info h calls in
  let hits = ref [] in
  let raised = ref [] in
  let shut = ref false and tainted = ref false in
  let nissued = ref 0 and returned = Hashtbl.create 64 in
  let hyp = Array.for_all (fun (_, _, wm) -> wm <= eff h.maxop (60_000 * ms)) h.watchers in
  let shifty = Array.exists (fun c -> c.cost <> c.costd) calls in
  List.iter (fun ln ->
      match ln.src, ln.w with
      | "L", ["shutdown"] -> shut := true
      | "L", "auditfail" :: _ -> tainted := true
      | "L", "batch" :: rest -> let (w, ids, _) = ids_of rest in raised := { bt = ln.t; bw = w; bids = ids; cbret = None } :: !raised
      | _, "cbret" :: rest ->
          let (w, ids, _) = ids_of rest in
          (* the oldest matching batch that has not returned *)
          (match List.find_opt (fun b -> b.bw = w && b.bids = ids && b.cbret = None) (List.rev !raised) with
           | Some b -> b.cbret <- Some ln.t
           | None -> ())
      | "D", "act" :: "enq" :: _ -> incr nissued
      | _, ["enqret"; c; _] -> Hashtbl.replace returned (ios c) ()
      | "D", ["sample"; needs; _; infl; _] when not !shut && not !tainted ->
          let finished b = (match b.cbret with Some t -> t <= ln.t | None -> false) || b.bt + timeout_of h b.bw <= ln.t in
          let outstanding = ref 0 in
          Array.iter (fun c ->
              if c.idx < !nissued && not c.nil && c.cw >= 0 then
                match c.ret with
                | Some (_, r) when Hashtbl.mem returned c.idx -> if r = 0 then outstanding := !outstanding + c.cost
                | _ -> (* not returned yet: blocked on a full buffer or parked after counting *)
                    outstanding := !outstanding + c.cost) calls;
          let inprog = ref 0 in
          List.iter (fun b ->
              if finished b then
                List.iter (fun id -> match Hashtbl.find_opt info id with
                    | Some c -> outstanding := !outstanding - c.costd | None -> ()) b.bids
              else incr inprog) !raised;
          if check_needs && not shifty && ios needs <> !outstanding then
            hits := (Printf.sprintf "c03:needs t=%d NeedsCapacity()=%s but the outstanding cost is %d" ln.t needs !outstanding) :: !hits;
          if check_inflight && h.gen = 2 && h.maxconc > 0 then begin
            if ios infl > h.maxconc then
              hits := (Printf.sprintf "c10:over-limit t=%d Inflight()=%s with MaxConcurrentBatches=%d" ln.t infl h.maxconc) :: !hits;
            if hyp && ios infl <> !inprog then
              hits := (Printf.sprintf "c10:inflight t=%d Inflight()=%s but %d batches are in progress" ln.t infl !inprog) :: !hits;
            if !inprog > h.maxconc then
              hits := (Printf.sprintf "c10:too-many t=%d %d batches in progress with MaxConcurrentBatches=%d" ln.t !inprog h.maxconc) :: !hits
          end
      | _ -> ()) h.lines;
  List.rev !hits

(* ------------------------------------------------------------------ C15 *)
let c15 h : string list =
  let calls = calls_of h in
  let hits = ref [] in
  let shut = ref false and parked = ref 0 and k = ref 0 in
  let shut_t = ref max_int in
  let parked_calls = Hashtbl.create 8 in
  List.iter (fun ln ->
      match ln.src, ln.w with
      | "L", ["shutdown"] -> shut := true; if !shut_t = max_int then shut_t := ln.t
      | "D", "act" :: "enq" :: _ ->
          let c = calls.(!k) in
          (* a call is parked at the hook only if it passes validation: it then stays pending until released *)
          if c.hold && not c.nil && c.cw >= 0 then (Hashtbl.replace parked_calls !k (); incr parked);
          incr k
      | _, ["enqret"; c; _] -> if Hashtbl.mem parked_calls (ios c) then (Hashtbl.remove parked_calls (ios c); decr parked)
      | "D", ["act"; "release"; c] -> if Hashtbl.mem parked_calls (ios c) then (Hashtbl.remove parked_calls (ios c); decr parked)
      | "D", ["sample"; _; buf; _; pend] ->
          if ios buf > h.bufcap then hits := (Printf.sprintf "c15:overfull t=%d OperationsInBuffer()=%s exceeds the buffer size %d" ln.t buf h.bufcap) :: !hits;
          (* v2 empties the buffer at shutdown and every caller, blocked or later, gets an error from then on: an
             operation found in the buffer afterwards was accepted by a call that had to fail *)
          if h.gen = 2 && ln.t > !shut_t && ios buf > 0 then
            hits := (Printf.sprintf "c15:accepted-at-shutdown t=%d OperationsInBuffer()=%s after the shutdown event of t=%d: an Enqueue that was blocked or came later returned without an error" ln.t buf !shut_t) :: !hits;
          if not !shut && ios pend - !parked > 0 && ios buf < h.bufcap && not h.errfull then
            hits := (Printf.sprintf "c15:blocked-with-space gen=%d t=%d %d Enqueue calls are blocked although the buffer holds %s of %d" h.gen ln.t (ios pend - !parked) buf h.bufcap) :: !hits;
          if h.errfull && not !shut && ios pend - !parked > 0 then
            hits := (Printf.sprintf "c15:blocked-in-error-mode gen=%d t=%d %d Enqueue calls are blocked although ErrorOnFullBuffer is set (buffer holds %s of %d)" h.gen ln.t (ios pend - !parked) buf h.bufcap) :: !hits;
          if !shut && ios pend - !parked > 0 then
            (* callers parked at the hook by the harness are not counted *)
            hits := (Printf.sprintf "c15:blocked-after-shutdown gen=%d t=%d %d Enqueue calls are still blocked after the shutdown event" h.gen ln.t (ios pend - !parked)) :: !hits
      | _ -> ()) h.lines;
  (* the harness ends every scenario by releasing the callers it parked, stopping the Batcher and letting every timer run
     out: an Enqueue call that has not returned by then never will *)
  let was_started = List.exists (fun ln -> ln.w = ["startret"; "1"]) h.lines in
  List.iter (fun ln -> match ln.src, ln.w with
      | "D", ["end"; n] when ios n > 0 && was_started ->
          hits := (Printf.sprintf "c15:never-returned gen=%d t=%d %s Enqueue calls have not returned although the Batcher, which had been started, was stopped and every timer has run out" h.gen ln.t n) :: !hits
      | _ -> ()) h.lines;
  if h.hung then hits := (Printf.sprintf "c15:hang gen=%d the scenario deadlocked with Enqueue calls pending (real-time watchdog): a blocked Enqueue must return when the Batcher shuts down" h.gen) :: !hits;
  Array.iter (fun c ->
      match c.ret with
      | Some (t, 5) when not h.errfull -> hits := (Printf.sprintf "c15:bufferfull-in-blocking-mode t=%d" t) :: !hits
      | Some (t, 7) -> hits := (Printf.sprintf "c15:panic gen=%d t=%d Enqueue call %d panicked" h.gen t c.idx) :: !hits
      | _ -> ()) calls;
  List.rev !hits

(* ------------------------------------------------------------------ C16 *)
let c16 h : string list =
  let calls = calls_of h in
  let hits = ref [] in
  let nstart_ok = ref 0 and nshut = ref 0 and shut_t = ref (-1) and first_start = ref true in
  let stop_seen = ref false and started = ref false in
  let last_state = ref None in
  List.iter (fun ln ->
      match ln.src, ln.w with
      | _, ["startret"; ok] ->
          if ios ok = 1 then (incr nstart_ok; started := true);
          if !nstart_ok > 1 then hits := (Printf.sprintf "c16:start-twice t=%d Start succeeded a second time" ln.t) :: !hits;
          if !first_start && ios ok = 0 && not !stop_seen then hits := (Printf.sprintf "c16:first-start-failed t=%d" ln.t) :: !hits;
          first_start := false
      | "D", ["act"; "stop"] -> stop_seen := true
      | "L", ["shutdown"] ->
          incr nshut; if !shut_t < 0 then shut_t := ln.t;
          if !nshut > 1 then hits := (Printf.sprintf "c16:shutdown-twice t=%d" ln.t) :: !hits
      | "L", ("batch" | "request" | "giveme" | "capread" | "flushstart") :: _ ->
          if !nshut > 0 then hits := (Printf.sprintf "c16:activity-after-shutdown t=%d %s after the shutdown event" ln.t (List.hd ln.w)) :: !hits
      | _, ["apipanic"; k] -> hits := (Printf.sprintf "c16:api-panic gen=%d t=%d %s() panicked" h.gen ln.t k) :: !hits
      | _, ["setterquiet"] -> hits := (Printf.sprintf "c16:setter-after-start t=%d a With* setter after Start did not panic" ln.t) :: !hits
      | "D", ["sample"; _; _; _; _] -> last_state := Some (ln.t, !stop_seen && !started && !nshut = 0)
      | _ -> ()) h.lines;
  if h.hung then hits := (Printf.sprintf "c16:hang gen=%d the scenario deadlocked (real-time watchdog)" h.gen) :: !hits;
  (match !last_state with
   | Some (t, true) when h.ended && h.busy_fd = 0 && h.busy_audit = 0 && h.busy_cap = 0 ->
       hits := (Printf.sprintf "c16:not-terminated t=%d stop was requested on a started Batcher but there is no shutdown event by the end (a pause time later)" t) :: !hits
   | _ -> ());
  (* an Enqueue made by a listener in answer to the shutdown event: the Batcher is shut down by then *)
  List.iter (fun ln -> match ln.src, ln.w with
      | "D", ["shutenq"; r] -> if ios r <> 6 then hits := (Printf.sprintf "c16:enqueue-in-shutdown-listener gen=%d t=%d an Enqueue made in answer to the shutdown event returned %s instead of the shutdown error" h.gen ln.t (if r = "0" then "no error" else "code " ^ r)) :: !hits
      | _ -> ()) h.lines;
  if !shut_t >= 0 then
    Array.iter (fun c ->
        if c.ct > !shut_t && not c.nil && c.cw >= 0 then
          match c.ret with
          | Some (_, 0) -> hits := (Printf.sprintf "c16:enqueue-after-shutdown-ok gen=%d call %d was accepted after shutdown" h.gen c.idx) :: !hits
          | Some (_, 7) -> hits := (Printf.sprintf "c16:enqueue-after-shutdown-panic gen=%d call %d panicked after shutdown" h.gen c.idx) :: !hits
          | None -> if h.ended then hits := (Printf.sprintf "c16:enqueue-after-shutdown-blocked gen=%d call %d never returned" h.gen c.idx) :: !hits
          | _ -> ()) calls;
  List.rev !hits

(* ------------------------------------------------------------------ C13 *)
let c13 h : string list =
  let hits = ref [] in
  let pause_t = ref (-1) in
  let pt = eff h.pause (500 * ms) in
  List.iter (fun ln ->
      match ln.src, ln.w with
      | "L", ["pause"; v] ->
          if ios v <> pt / ms then hits := (Printf.sprintf "c13:pause-value t=%d pause event carries %s ms, PauseTime is %d ms" ln.t v (pt / ms)) :: !hits;
          if !pause_t >= 0 then hits := (Printf.sprintf "c13:nested-pause t=%d" ln.t) :: !hits;
          pause_t := ln.t
      | "L", ["resume"] ->
          if !pause_t < 0 then hits := (Printf.sprintf "c13:resume-without-pause t=%d" ln.t) :: !hits
          else if ln.t <> !pause_t + pt then
            hits := (Printf.sprintf "c13:pause-length t=%d paused at %d for %d ns, PauseTime is %d ns" ln.t !pause_t (ln.t - !pause_t) pt) :: !hits;
          pause_t := -1
      | "L", (("batch" | "request" | "giveme" | "auditskip" | "auditpass" | "auditfail" | "capread" | "flushstart" | "shutdown") as k) :: _ ->
          if !pause_t >= 0 then hits := (Printf.sprintf "c13:activity-while-paused t=%d %s between pause and resume" ln.t k) :: !hits
      | _ -> ()) h.lines;
  (* Pause() calls made while already paused do not extend the pause: every pause event answers a Pause() made while
     the Batcher was running - at or after Start, at or after the previous resume (calls of that very instant
     included) - or the Pause() by which a listener answers one of the first react_pause resume events *)
  (let lower = ref (-1) and last_call = ref (-1) and nres = ref 0 and last_res = ref (-1) in
   List.iter (fun ln ->
       match ln.src, ln.w with
       | _, ["startret"; "1"] -> if !lower < 0 then lower := ln.t
       | "D", ["act"; "pause"] -> last_call := ln.t
       | "L", ["resume"] -> incr nres; last_res := ln.t; lower := ln.t; if !nres <= h.react_pause then last_call := ln.t
       | "L", ["pause"; _] ->
           if !lower >= 0 && !last_call < !lower then
             hits := (Printf.sprintf "c13:pause-extended t=%d a pause begins although no Pause() was made since the Batcher was last running (last call at %d, running since %d)" ln.t !last_call !lower) :: !hits
       | _ -> ()) h.lines);
  (* Pause() works again after every resume: the first react_pause resume events are answered by a Pause() from a
     listener's own goroutine; on a Batcher that nobody has asked to stop, a pause event follows in the same instant *)
  if h.react_pause > 0 && h.busy_fd = 0 && h.busy_audit = 0 && h.busy_cap = 0 then begin
    (* without slow listeners every step of the loop takes no time: the new pause begins in the very instant of the resume *)
    let arr = Array.of_list h.lines in
    let nres = ref 0 and stop_seen = ref false in
    Array.iteri (fun i ln ->
        match ln.src, ln.w with
        | "D", ["act"; "stop"] -> stop_seen := true
        | "L", ["resume"] ->
            incr nres;
            if !nres <= h.react_pause && not !stop_seen then begin
              let found = ref false and stopped_now = ref false in
              Array.iteri (fun j l2 -> if j > i && l2.t = ln.t then begin
                                          (match l2.src, l2.w with
                                           | "L", ["pause"; _] -> found := true
                                           | "D", ["act"; "stop"] | "L", ["shutdown"] -> stopped_now := true
                                           | _ -> ()) end) arr;
              if not !found && not !stopped_now then
                hits := (Printf.sprintf "c13:pause-after-resume-ignored t=%d a Pause() made in answer to the resume event had no effect" ln.t) :: !hits
            end
        | _ -> ()) arr
  end;
  let last_t = List.fold_left (fun a ln -> max a ln.t) 0 h.lines in
  if !pause_t >= 0 && last_t > !pause_t + pt then
    hits := (Printf.sprintf "c13:no-resume t=%d the pause that began at %d was never followed by a resume event" last_t !pause_t) :: !hits;
  List.rev !hits

(* ------------------------------------------------------------------ C12 / C19: one request (audit) per tick while running *)
let per_tick h ~interval ~(is_ev : string list -> bool) ~name ~need_limiter : string list =
  let hits = ref [] in
  if need_limiter && not h.limiter then
    hits := List.rev (List.filter_map (fun ln -> if ln.src = "L" && is_ev ln.w then Some (Printf.sprintf "%s:without-limiter t=%d" name ln.t) else None) h.lines)
  else begin
    let start_t = ref (-1) and shut_t = ref max_int in
    let pauses = ref [] and cur_p = ref (-1) in
    let evs = Hashtbl.create 64 in
    List.iter (fun ln ->
        match ln.src, ln.w with
        | _, ["startret"; "1"] -> if !start_t < 0 then start_t := ln.t
        | "L", ["shutdown"] -> if !shut_t = max_int then shut_t := ln.t
        | "L", ["pause"; _] -> cur_p := ln.t
        | "L", ["resume"] -> if !cur_p >= 0 then pauses := (!cur_p, ln.t) :: !pauses; cur_p := -1
        | "L", w when is_ev w -> tbl_add evs ln.t 1
        | _ -> ()) h.lines;
    if !cur_p >= 0 then pauses := (!cur_p, max_int) :: !pauses;
    let last_t = List.fold_left (fun a ln -> max a ln.t) 0 (List.filter (fun ln -> ln.src = "D") h.lines) in
    (* a listener that keeps the loop busy delays the answer to a tick and lets ticks coalesce: the grid rules
       only apply when the scenario has no such listener (the replay against the model covers the others) *)
    let slow = h.busy_fd > 0 || h.busy_audit > 0 || h.busy_cap > 0 in
    if !start_t >= 0 then begin
      let in_pause t = List.exists (fun (a, b) -> a <= t && t <= b) !pauses in
      let k = ref 1 in
      while not slow && !start_t + !k * interval < min !shut_t last_t do
        let t = !start_t + !k * interval in
        if not (in_pause t) then begin
          let n = tbl_get evs t in
          if n <> 1 then hits := (Printf.sprintf "%s:tick t=%d %d events on a tick of a running, unpaused Batcher (expected 1)" name t n) :: !hits
        end;
        incr k
      done;
      (* nothing off the grid except at a resume instant (ticks that fell into the pause coalesce into one) *)
      Hashtbl.iter (fun t n ->
          let on_grid = t > !start_t && (t - !start_t) mod interval = 0 in
          let at_resume = List.exists (fun (_, b) -> b = t) !pauses in
          if t > !shut_t then hits := (Printf.sprintf "%s:after-shutdown t=%d" name t) :: !hits
          else if slow then ()
          else if not on_grid && not at_resume then hits := (Printf.sprintf "%s:off-grid t=%d" name t) :: !hits
          else if at_resume && not on_grid && n > 1 then hits := (Printf.sprintf "%s:not-coalesced t=%d %d events after one pause" name t n) :: !hits
          else if List.exists (fun (a, b) -> a < t && t < b) !pauses then hits := (Printf.sprintf "%s:during-pause t=%d" name t) :: !hits) evs
    end
  end;
  List.rev !hits

(* the demand figure re-computed from the history alone: +cost when a valid Enqueue is issued,
   -cost again when the buffer refuses it, -batch cost when a batch finishes (callback return or
   time-out, whichever comes first), 0 after a failing audit.  Returns the value just before
   time t together with a flag telling whether something also changes it exactly at t. *)
let demand_at h : int -> int * bool =
  let calls = calls_of h in
  let info = obj_info h calls in
  let evs = ref [] in   (* (time, order, change) *)
  let raised = ref [] in
  List.iter (fun ln ->
      match ln.src, ln.w with
      | "L", "batch" :: rest -> let (w, ids, _) = ids_of rest in raised := { bt = ln.t; bw = w; bids = ids; cbret = None } :: !raised
      | _, "cbret" :: rest ->
          let (w, ids, _) = ids_of rest in
          (match List.find_opt (fun b -> b.bw = w && b.bids = ids && b.cbret = None) (List.rev !raised) with
           | Some b -> b.cbret <- Some ln.t | None -> ())
      | "L", ["auditfail"; "1"; _] -> evs := (ln.t, `Reset) :: !evs
      | _ -> ()) h.lines;
  Array.iter (fun c ->
      if not c.nil && c.cw >= 0 then
        match c.ret with
        | Some (_, r) when r >= 1 && r <= 4 -> ()
        | Some (rt, r) when r = 5 || r = 6 -> evs := (rt, `Sub c.cost) :: (c.ct, `Add c.cost) :: !evs
        | _ -> evs := (c.ct, `Add c.cost) :: !evs) calls;
  List.iter (fun b ->
      let fin = match b.cbret with Some t -> min t (b.bt + timeout_of h b.bw) | None -> b.bt + timeout_of h b.bw in
      let total = List.fold_left (fun a id -> match Hashtbl.find_opt info id with Some c -> a + c.costd | None -> a) 0 b.bids in
      evs := (fin, `Sub total) :: !evs) !raised;
  let evs = List.stable_sort (fun (a, _) (b, _) -> compare a b) (List.rev !evs) in
  (* a reset that shares its instant with another change is ambiguous in order: give up from there on *)
  let taint = List.fold_left (fun acc (t, e) ->
      match e with
      | `Reset -> if List.exists (fun (t2, e2) -> t2 = t && e2 <> `Reset) evs then min acc t else acc
      | _ -> acc) max_int evs in
  fun t ->
    let v = ref 0 and same = ref (t >= taint) in
    List.iter (fun (et, e) ->
        if et < t then (match e with `Add c -> v := !v + c | `Sub c -> v := max 0 (!v - c) | `Reset -> v := 0)
        else if et = t then same := true) evs;
    (!v, !same)

let c12 h =
  let calls = calls_of h in
  let shifty = Array.exists (fun c -> c.cost <> c.costd) calls in
  let d = demand_at h in
  let vals = if shifty then [] else
      List.filter_map (fun ln -> match ln.src, ln.w with
          | "L", ["giveme"; v] ->
              let (e, same) = d ln.t in
              if not same && ios v <> e then
                Some (Printf.sprintf "c12:stale-value t=%d GiveMe(%s) but the demand figure at that moment is %d" ln.t v e)
              else None
          | _ -> None) h.lines in
  vals @
  let a = per_tick h ~interval:(eff h.capint (100 * ms)) ~is_ev:(function "giveme" :: _ -> true | _ -> false) ~name:"c12" ~need_limiter:true in
  (* the value passed is the demand figure of that moment: compare with a sample taken at the same instant when nothing else moved *)
  a

let c19 h =
  let hyp = Array.for_all (fun (_, _, wm) -> wm <= eff h.maxop (60_000 * ms)) h.watchers in
  let calls = calls_of h in
  let shifty = Array.exists (fun c -> c.cost <> c.costd) calls in
  let a = per_tick h ~interval:(eff h.audit (10_000 * ms))
      ~is_ev:(function ("auditskip" | "auditpass" | "auditfail") :: _ -> true | _ -> false) ~name:"c19" ~need_limiter:false in
  let b = if hyp && not shifty then begin
      (* an Enqueue call is "in its count window" from the call to its return: the only way an honest,
         healthy Batcher can be found with a non-zero figure by the audit (finding D7) *)
      let open_calls = Hashtbl.create 8 and k = ref 0 and last_enq_t = ref (-1) in
      List.filter_map (fun ln -> match ln.src, ln.w with
          | "D", "act" :: "enq" :: _ -> Hashtbl.replace open_calls !k (); incr k; last_enq_t := ln.t; None
          | _, ["enqret"; cc; _] -> Hashtbl.remove open_calls (ios cc); None
          | "L", "auditfail" :: _ ->
              (* the audit's test and its reset are two steps of one instant: a call made in this very instant may
                 lie between them even if it has already returned when the event is raised *)
              let n = Hashtbl.length open_calls + (if !last_enq_t = ln.t && Hashtbl.length open_calls = 0 then 1 else 0) in
              Some (Printf.sprintf "c19:audit-fail%s gen=%d t=%d an audit failed on a Batcher whose costs are honest%s"
                      (if n > 0 then "-in-count-window" else "") h.gen ln.t
                      (if n > 0 then Printf.sprintf " (%d Enqueue call(s) between count and insert)" n else ""))
          | _ -> None) h.lines
    end
    else [] in
  (* which audits must be skipped: the audit only judges the demand figure when the buffer is empty and the last batch
     was raised more than the Batcher's MaxOperationTime ago (by the clock at the moment the audit runs, e.g. at the
     end of a pause, not the moment its tick came due); then it raises pass or fail, otherwise skip.  Decided from
     the history when nothing else happens in the audit's instant. *)
  let slow = h.busy_fd > 0 || h.busy_audit > 0 || h.busy_cap > 0 in
  let kinds = if slow then [] else begin
      let busy_t = Hashtbl.create 64 in
      List.iter (fun ln -> match ln.src, ln.w with
          | _, "enqret" :: _ | "L", "batch" :: _ | "D", "act" :: "enq" :: _ | "D", ["act"; "release"; _] -> Hashtbl.replace busy_t ln.t ()
          | _ -> ()) h.lines;
      let inbuf = ref 0 and last = ref (-1) and shut = ref false in
      let maxop = eff h.maxop (60_000 * ms) in
      List.filter_map (fun ln -> match ln.src, ln.w with
          | _, ["enqret"; _; "0"] -> if not !shut then incr inbuf; None
          | "L", "batch" :: rest -> let (_, ids, _) = ids_of rest in inbuf := !inbuf - List.length ids; last := ln.t; None
          | "L", ["shutdown"] -> shut := true; None
          | "L", (("auditskip" | "auditpass" | "auditfail") as k) :: _ when not (Hashtbl.mem busy_t ln.t) && not !shut ->
              let must_skip = !inbuf > 0 || (!last >= 0 && ln.t - !last <= maxop) in
              if must_skip && k <> "auditskip" then
                Some (Printf.sprintf "c19:audit-not-skipped gen=%d t=%d %s although %d operations are buffered and the last batch was raised at %d (MaxOperationTime %d ns)" h.gen ln.t k !inbuf !last maxop)
              else if not must_skip && k = "auditskip" then
                Some (Printf.sprintf "c19:audit-skipped gen=%d t=%d the buffer is empty and the last batch was raised at %d, more than MaxOperationTime (%d ns) ago, but the audit was skipped" h.gen ln.t !last maxop)
              else None
          | _ -> None) h.lines
    end in
  a @ b @ kinds

(* ------------------------------------------------------------------ C14 *)
let c14 h : string list =
  let calls = calls_of h in
  let hits = ref [] in
  let ncb = Hashtbl.create 64 in   (* deliveries (callback entries) per object so far *)
  let nraised = Hashtbl.create 64 in   (* batches raised so far that contain the object: its attempt counter may already count them *)
  let maxcap = ref 0 in
  let inflight_dup = Hashtbl.create 16 in
  ignore inflight_dup;
  let k = ref 0 in
  let shut = ref false in
  List.iter (fun ln ->
      match ln.src, ln.w with
      | "D", ["act"; "setmaxcap"; v] -> maxcap := ios v
      | "L", ["shutdown"] -> shut := true
      | "L", "batch" :: rest ->
          let (_, ids, _) = ids_of rest in
          List.iter (fun id -> tbl_add nraised id 1) ids
      | _, "cbstart" :: rest ->
          let (_, ids, att) = ids_of rest in
          List.iter (fun id -> tbl_add ncb id 1) ids;
          (* Attempt() seen in the callback: exact when the object is in no other batch in flight; never below the count *)
          List.iteri (fun i id ->
              match List.nth_opt att i with
              | Some a -> if ios a < 1 then hits := (Printf.sprintf "c14:attempt-zero t=%d operation %d has Attempt()=0 inside its callback" ln.t id) :: !hits
              | None -> ()) ids
      | "D", "act" :: "enq" :: _ ->
          let c = calls.(!k) in incr k;
          (* expected verdict of the validation, from what the history shows *)
          let expected =
            if c.nil then Some 1
            else if c.cw < 0 then Some 2
            else if h.limiter && c.cost > !maxcap then Some 3
            else
              let (_, ma, _) = h.watchers.(c.cw) in
              if ma > 0 && tbl_get ncb c.obj >= ma then Some 4 else None in
          (match expected, c.ret with
           | Some e, Some (_, r) -> if r <> e then hits := (Printf.sprintf "c14:wrong-verdict call %d expected result %d got %d" c.idx e r) :: !hits
           | Some e, None -> hits := (Printf.sprintf "c14:wrong-verdict call %d expected result %d but the call did not return" c.idx e) :: !hits
           | None, Some (_, r) ->
               let (_, ma, _) = if c.cw >= 0 then h.watchers.(c.cw) else (0, 0, 0) in
               let maybe_counted = r = 4 && ma > 0 && tbl_get nraised c.obj >= ma in
               if r >= 1 && r <= 4 && not maybe_counted then hits := (Printf.sprintf "c14:spurious-reject call %d rejected with %d" c.idx r) :: !hits
           | None, None -> ())
      | _ -> ()) h.lines;
  (* rejections leave no trace: sample before = sample after for validation rejects *)
  let prev = ref None in
  let pend_rej = ref false in
  List.iter (fun ln ->
      match ln.src, ln.w with
      | "D", "act" :: "enq" :: _ -> pend_rej := false
      | _, ["enqret"; _; r] -> if ios r >= 1 && ios r <= 4 then pend_rej := true
      | "D", "act" :: _ -> pend_rej := false
      | "D", ["sample"; n; b; i; p] ->
          (match !prev with
           | Some (pt, pn, pb) when !pend_rej && pt = ln.t && (pn <> n || pb <> b) ->
               hits := (Printf.sprintf "c14:reject-side-effect t=%d a rejected Enqueue changed NeedsCapacity %s->%s or the buffer %s->%s" ln.t pn n pb b) :: !hits
           | _ -> ());
          ignore i; ignore p;
          prev := Some (ln.t, n, b); pend_rej := false
      | _ -> ()) h.lines;
  List.rev !hits

(* ------------------------------------------------------------------ C08 *)
(* Flush(): a cycle starts as soon as the loop is free (v2: the flush-start event shows it).  The loop is not
   free while it sleeps in a pause (pause .. resume) or sits in a listener that takes its time (after a
   flush-done / audit event, for the configured duration).  From the Flush() call we walk forward through these
   windows: the first instant at which the loop is free must carry a flush-start. *)
let c08_flush h : string list =
  (* v1 raises no flush events; with a rate limiter the start of a cycle shows as the read of Capacity() *)
  if h.gen <> 2 && not h.limiter then [] else begin
    let hits = ref [] in
    let is_cycle w = w = ["flushstart"] || (h.gen = 1 && (match w with "capread" :: _ -> true | _ -> false)) in
    let arr = Array.of_list h.lines in
    let n = Array.length arr in
    let windows = ref [] and pause_from = ref (-1) in
    let start_t = ref max_int and shut_t = ref max_int in
    Array.iter (fun ln ->
        match ln.src, ln.w with
        | _, ["startret"; "1"] -> if !start_t = max_int then start_t := ln.t
        | "L", ["shutdown"] -> if !shut_t = max_int then shut_t := ln.t
        | "L", ["pause"; _] -> pause_from := ln.t
        | "L", ["resume"] -> if !pause_from >= 0 then windows := (!pause_from, ln.t) :: !windows; pause_from := -1
        | "L", ["flushdone"] -> if h.busy_fd > 0 then windows := (ln.t, ln.t + h.busy_fd) :: !windows
        | "L", (("auditskip" | "auditpass" | "auditfail") :: _) -> if h.busy_audit > 0 then windows := (ln.t, ln.t + h.busy_audit) :: !windows
        | "L", ("giveme" :: _) -> if h.busy_cap > 0 then windows := (ln.t, ln.t + h.busy_cap) :: !windows
        | _ -> ()) arr;
    if !pause_from >= 0 then windows := (!pause_from, max_int) :: !windows;
    let last_t = if n > 0 then arr.(n - 1).t else 0 in
    let stop_t = ref max_int in
    Array.iter (fun ln -> match ln.src, ln.w with "D", ["act"; "stop"] -> if !stop_t = max_int then stop_t := ln.t | _ -> ()) arr;
    let fs_after i t = (* a flush-start at time t logged after line i *)
      let r = ref false in
      for j = i + 1 to n - 1 do if arr.(j).t = t && arr.(j).src = "L" && is_cycle arr.(j).w then r := true done; !r in
    let fs_at t = Array.exists (fun ln -> ln.t = t && ln.src = "L" && is_cycle ln.w) arr in
    Array.iteri (fun i ln ->
        match ln.src, ln.w with
        | "D", ["act"; "flush"] when ln.t >= !start_t && ln.t < !stop_t ->
            let cur = ref ln.t and fin = ref false and steps = ref 0 in
            while not !fin && !steps < 1000 do
              incr steps;
              if !cur >= min !shut_t (min !stop_t last_t) then fin := true
              else if (if !cur = ln.t then fs_after i !cur else fs_at !cur) then fin := true
              else
                (match List.filter (fun (a, b) -> a <= !cur && !cur < b) !windows with
                 | [] ->
                     hits := (Printf.sprintf "c08:flush-not-served Flush() at t=%d: the loop is free at t=%d but no cycle starts there" ln.t !cur) :: !hits;
                     fin := true
                 | ws -> cur := List.fold_left (fun m (_, b) -> max m b) !cur ws)
            done
        | _ -> ()) arr;
    List.rev !hits
  end

let c08 h : string list =
  (* head progress, in the cases a history determines: a cycle that starts on a running Batcher with a
     non-empty buffer, an allowance of at least one unit (limiter absent, or Capacity() >= 1 and an interval of
     at least 1 ms) and a free batch slot releases at least one operation.  The buffer content is tracked from
     the history itself: accepted returns minus operations raised. *)
  let hits = ref [] in
  let inbuf = ref 0 and inprog = ref [] in
  let shut = ref false in
  let cyc_t = ref (-1) and cyc_cap = ref (-1) and cyc_batches = ref 0 and cyc_buf = ref 0 and cyc_busy = ref 0 in
  let cyc_n = ref 0 and cyc_cost = ref 0 in
  let calls08 = calls_of h in
  let info08 = obj_info h calls08 in
  let shifty = Array.exists (fun c -> c.cost <> c.costd) calls08 in
  let flush_ms = eff h.flush (100 * ms) / ms in
  let close () =
    if !cyc_t >= 0 then begin
      (* work conservation, v2 without a slot limit: a cycle that leaves operations in the buffer has used up its
         allowance of ceil(Capacity() x FlushInterval / 1000) *)
      (if h.gen = 2 && h.limiter && h.maxconc = 0 && not shifty && !cyc_cap >= 0 then
         let allowance = (!cyc_cap * flush_ms + 999) / 1000 in
         if !cyc_buf - !cyc_n > 0 && !cyc_cost < allowance then
           hits := (Printf.sprintf "c08:cycle-stopped-early t=%d the cycle released cost %d of an allowance of %d (Capacity() %d, FlushInterval %d ms) and left %d operations in the buffer" !cyc_t !cyc_cost allowance !cyc_cap flush_ms (!cyc_buf - !cyc_n)) :: !hits);
      let full = h.maxconc > 0 && !cyc_busy >= h.maxconc in
      if !cyc_buf > 0 && !cyc_batches = 0 && not full && flush_ms >= 1 && (not h.limiter || !cyc_cap >= 1) then
        hits := (Printf.sprintf "c08:no-progress t=%d a cycle over %d buffered operations released nothing (Capacity() %d, %d of %d slots busy)" !cyc_t !cyc_buf !cyc_cap !cyc_busy h.maxconc) :: !hits
    end;
    cyc_t := -1; cyc_batches := 0; cyc_n := 0; cyc_cost := 0 in
  let busy t = List.length (List.filter (fun (bt, w, ret) -> (match !ret with Some r -> r >= t | None -> true) && bt + timeout_of h w >= t) !inprog) in
  let begin_cycle t = close (); cyc_t := t; cyc_cap := -1; cyc_buf := !inbuf; cyc_busy := busy t in
  List.iter (fun ln ->
      match ln.src, ln.w with
      | _, ["enqret"; _; "0"] -> if not !shut then incr inbuf
      | "L", ["shutdown"] -> shut := true; close ()
      | "L", ["flushstart"] -> begin_cycle ln.t
      | "L", ["capread"; v] -> if h.gen = 1 then begin_cycle ln.t; cyc_cap := ios v
      | "L", "batch" :: rest ->
          let (w, ids, _) = ids_of rest in
          inbuf := !inbuf - List.length ids; incr cyc_batches;
          cyc_n := !cyc_n + List.length ids;
          List.iter (fun id -> match Hashtbl.find_opt info08 id with Some c -> cyc_cost := !cyc_cost + c.cost | None -> ()) ids;
          inprog := (ln.t, w, ref None) :: !inprog
      | _, "cbret" :: rest ->
          let (w, _, _) = ids_of rest in
          (match List.find_opt (fun (_, bw, r) -> bw = w && !r = None) (List.rev !inprog) with
           | Some (_, _, r) -> r := Some ln.t | None -> ())
      | "L", ["flushdone"] -> close ()
      | _ -> if h.gen = 1 && !cyc_t >= 0 && ln.t <> !cyc_t then close ()) h.lines;
  List.rev !hits

(* automatic cycles: a running, unpaused Batcher starts a cycle on every FlushInterval tick (the grid of the ticker
   created by Start).  v2 raises an event at the start of each cycle; v1 shows a cycle through what it releases: it
   always dispatches at least one buffered operation, so a tick that finds operations accepted before it must
   raise a batch.  Scenarios with listeners or a limiter that keep the loop busy are left to the replay. *)
let c08_ticks h : string list =
  let hits = ref [] in
  let slow = h.busy_fd > 0 || h.busy_audit > 0 || h.busy_cap > 0 in
  if not slow then begin
    let interval = eff h.flush (100 * ms) in
    let start_t = ref (-1) and shut_t = ref max_int and stop_t = ref max_int in
    let pauses = ref [] and cur_p = ref (-1) in
    let cyc = Hashtbl.create 64 and bat = Hashtbl.create 64 in
    let deltas = ref [] in   (* (time, change of the number of buffered operations) *)
    List.iter (fun ln ->
        match ln.src, ln.w with
        | _, ["startret"; "1"] -> if !start_t < 0 then start_t := ln.t
        | "D", ["act"; "stop"] -> if !stop_t = max_int then stop_t := ln.t
        | "L", ["shutdown"] -> if !shut_t = max_int then shut_t := ln.t
        | "L", ["pause"; _] -> cur_p := ln.t
        | "L", ["resume"] -> if !cur_p >= 0 then pauses := (!cur_p, ln.t) :: !pauses; cur_p := -1
        | "L", ["flushstart"] -> tbl_add cyc ln.t 1
        | "L", "batch" :: rest -> let (_, ids, _) = ids_of rest in tbl_add bat ln.t 1; deltas := (ln.t, - List.length ids) :: !deltas
        | _, ["enqret"; _; "0"] -> deltas := (ln.t, 1) :: !deltas
        | _ -> ()) h.lines;
    if !cur_p >= 0 then pauses := (!cur_p, max_int) :: !pauses;
    let last_t = List.fold_left (fun a ln -> max a ln.t) 0 (List.filter (fun ln -> ln.src = "D") h.lines) in
    let buffered_before t = List.fold_left (fun a (u, d) -> if u < t then a + d else a) 0 !deltas in
    if !start_t >= 0 then begin
      let in_pause t = List.exists (fun (a, b) -> a <= t && t <= b) !pauses in
      let k = ref 1 in
      while !start_t + !k * interval < min (min !shut_t !stop_t) last_t do
        let t = !start_t + !k * interval in
        if not (in_pause t) then begin
          if h.gen = 2 && tbl_get cyc t = 0 then
            hits := (Printf.sprintf "c08:tick-missed t=%d no cycle starts on a FlushInterval tick of a running, unpaused Batcher" t) :: !hits;
          if h.gen = 1 && buffered_before t > 0 && tbl_get bat t = 0 then
            hits := (Printf.sprintf "c08:tick-missed t=%d %d operations were accepted before this FlushInterval tick of a running, unpaused Batcher and none is released on it" t (buffered_before t)) :: !hits
        end;
        incr k
      done
    end
  end;
  List.rev !hits

let c11 h = accounting h
let c03 h =
  accounting ~check_inflight:false h
  @ List.filter_map (fun s -> if String.length s > 14 && String.sub s 0 14 = "c19:audit-fail" then Some ("c03:reset-by-audit " ^ s) else None) (c19 h)
let c10 h =
  let hyp = Array.for_all (fun (_, _, wm) -> wm <= eff h.maxop (60_000 * ms)) h.watchers in
  accounting ~check_needs:false h
  @ (if hyp && h.gen = 2 && h.maxconc > 0 then
       List.filter_map (fun ln -> match ln.src, ln.w with
           | "L", ["auditfail"; _; "1"] -> Some (Printf.sprintf "c10:slots-drained t=%d an audit drained batch slots that were in use (no watcher outlasts the Batcher's MaxOperationTime)" ln.t)
           | _ -> None) h.lines
     else [])

let monitor (pid : string) (h : hist) : string list =
  match pid with
  | "C01" -> c01 h @ c08 h | "C02" -> c02 h | "C03" -> c03 h | "C05" -> c05 h @ c01 h
  | "C08" -> c08 h @ c08_ticks h @ c08_flush h @ c01 h @ List.filter (fun s -> String.length s > 22 && String.sub s 0 22 = "c15:blocked-with-space") (c15 h)
  | "C10" -> c10 h @ c08 h | "C11" -> c11 h | "C12" -> c12 h | "C13" ->
      (* "processing continues" after the resume: the three tickers keep their grid (cycles, capacity requests, audits) *)
      let pre p s = String.length s >= String.length p && String.sub s 0 (String.length p) = p in
      c13 h @ c01 h @ c08_ticks h
      @ List.filter (fun s -> pre "c19:tick" s) (c19 h) @ List.filter (fun s -> pre "c12:tick" s) (c12 h) | "C14" -> c14 h
  | "C15" -> c15 h
  | "C16" -> c16 h @ List.filter (fun s -> String.length s > 26 && String.sub s 0 26 = "c15:blocked-after-shutdown") (c15 h)
  | "C19" -> c19 h
  | "C20" ->
      (* the Batcher's public API under concurrent use: no caller stays blocked for ever, nothing deadlocks, no API
         call panics (v1's Enqueue on the closed channel is finding D2 of C15/C16 and not repeated here) *)
      let pre p s = String.length s >= String.length p && String.sub s 0 (String.length p) = p in
      List.filter_map (fun s ->
          if pre "c15:blocked-" s then Some ("c20:caller-stuck " ^ s)
          else if pre "c16:hang" s then Some ("c20:deadlock " ^ s)
          else if pre "c16:api-panic" s then Some ("c20:panic " ^ s)
          else None) (c15 h @ c16 h)
  | _ -> []

let stats (path : string) (h : hist) : string =
  let kinds = Hashtbl.create 32 in
  let buf = Buffer.create 4096 in
  let nontrivial = ref false in
  List.iter (fun ln ->
      (match ln.w with
       | k :: _ when ln.src <> "D" -> tbl_add kinds k 1
       | "act" :: k :: _ -> tbl_add kinds ("act_" ^ k) 1
       | _ -> ());
      (match ln.w with
       | "batch" :: _ -> nontrivial := true
       | ["enqret"; _; r] when r <> "0" -> nontrivial := true
       | _ -> ());
      Buffer.add_string buf (String.concat " " (ln.src :: ln.w)); Buffer.add_char buf '\n') h.lines;
  let sg = Digest.to_hex (Digest.string (Buffer.contents buf)) in
  let ks = Hashtbl.fold (fun k v acc -> Printf.sprintf "%s=%d" (String.map (fun c -> if c = '-' then '_' else c) k) v :: acc) kinds [] in
  Printf.sprintf "sig=%s trivial=%d %s" sg (if !nontrivial then 0 else 1) (String.concat " " (List.sort compare ks))
