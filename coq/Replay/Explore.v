(* Replay/Explore.v — trace inclusion with hidden steps, for the Batcher model.

   A recorded history is a list of segments.  A segment is everything the harness
   logged at one virtual instant up to a settled point: at most one call made by
   the driver goroutine, the observations (those of the processing-loop goroutine in
   their order, all others as a multiset) and, when the driver sampled them, the
   three getters.  [replay] decides whether the model can produce the history: it
   keeps the set of model states compatible with the history so far and, for each
   segment, explores every interleaving of the enabled internal steps (and the
   driver's call) whose observations are exactly the recorded ones.

   Only [step] of Model/Batcher.v is used to move from state to state, so an
   accepted history is a behaviour of the model (Proofs/ExploreSound.v). *)
From Coq Require Import List ZArith Bool Lia.
From GB Require Import Model.Allowance Model.Batcher.
Import ListNotations.
Open Scope Z_scope.

(* ---------- equality of observations ---------- *)

Definition eres_eqb (a b : eres) : bool :=
  match a, b with
  | ROk, ROk | RNoOp, RNoOp | RNoWatcher, RNoWatcher | RTooExpensive, RTooExpensive
  | RTooManyAttempts, RTooManyAttempts | RBufferFull, RBufferFull | RShutdown, RShutdown
  | RPanic, RPanic => true
  | _, _ => false
  end.

Fixpoint natlist_eqb (a b : list nat) : bool :=
  match a, b with
  | [], [] => true
  | x :: r, y :: q => Nat.eqb x y && natlist_eqb r q
  | _, _ => false
  end.

Definition obs_eqb (a b : obs) : bool :=
  match a, b with
  | OEnqRet i r, OEnqRet j q => Nat.eqb i j && eres_eqb r q
  | OStartRet x, OStartRet y => Bool.eqb x y
  | OStopRet, OStopRet => true
  | OSetterPanic, OSetterPanic => true
  | OEvPause x, OEvPause y => x =? y
  | OEvResume, OEvResume => true
  | OEvShutdown, OEvShutdown => true
  | OEvAuditSkip, OEvAuditSkip => true
  | OEvAuditPass, OEvAuditPass => true
  | OEvAuditFail a1 a2, OEvAuditFail b1 b2 => Bool.eqb a1 b1 && Bool.eqb a2 b2
  | OEvRequest x, OEvRequest y => x =? y
  | OGiveMe x, OGiveMe y => x =? y
  | OCapRead, OCapRead => true
  | OEvFlushStart, OEvFlushStart => true
  | OEvFlushDone, OEvFlushDone => true
  | OEvBatch w l, OEvBatch v m => Nat.eqb w v && natlist_eqb l m
  | OCbStart w l a1, OCbStart v m a2 => Nat.eqb w v && natlist_eqb l m && natlist_eqb a1 a2
  | OCbRet w l, OCbRet v m => Nat.eqb w v && natlist_eqb l m
  | _, _ => false
  end.

(* remove one occurrence from a multiset *)
Fixpoint take_obs (o : obs) (l : list obs) : option (list obs) :=
  match l with
  | [] => None
  | x :: r => if obs_eqb o x then Some r
              else match take_obs o r with Some r' => Some (x :: r') | None => None end
  end.

(* ---------- histories ---------- *)

Record sample := mkSample { sm_needs : Z; sm_buf : nat; sm_inflight : nat; sm_pending : nat }.

(* Enqueue calls that have not returned *)
Definition pending_calls (s : state) : nat :=
  (length (counted s) + length (waiting s) + length (woken s))%nat.

Record segment := mkSeg {
  sg_time : Z;
  sg_act : option label;      (* the driver's call in this segment *)
  sg_loop : list obs;         (* observations of the loop goroutine, in order *)
  sg_other : list obs;        (* all other observations *)
  sg_sample : option sample
}.

Record node := mkNode {
  n_state : state;
  n_act : option label;
  n_loop : list obs;
  n_other : list obs
}.

(* consume the observations of one step; None = the history does not have them *)
Fixpoint consume (os : list obs) (lp ot : list obs) : option (list obs * list obs) :=
  match os with
  | [] => Some (lp, ot)
  | o :: r =>
      if loop_obs o then
        match lp with
        | x :: lp' => if obs_eqb o x then consume r lp' ot else None
        | [] => None
        end
      else
        match take_obs o ot with
        | Some ot' => consume r lp ot'
        | None => None
        end
  end.

Section Explore.
  Variable c : cfg.
  Variable dedup : list node -> list node.

  Definition try_label (n : node) (l : label) (clear_act : bool) : option node :=
    match step_notime c (n_state n) l with
    | None => None
    | Some (s', os) =>
        match consume os (n_loop n) (n_other n) with
        | None => None
        | Some (lp, ot) => Some (mkNode s' (if clear_act then None else n_act n) lp ot)
        end
    end.

  Definition enabled_b (s : state) (l : label) : bool :=
    match step_notime c s l with Some _ => true | None => false end.

  Definition loop_labels : list label :=
    [ILoopShutdown; ILoopPause; ILoopResume; ILoopUnbusy; ILoopAuditCheck; ILoopAuditConfirm; ILoopCap;
     ILoopFlushTick; ICycleBegin; ICycleVisit; ICycleEnd].

  (* can the loop goroutine, or something that feeds it, still act at this instant? *)
  Definition loop_busy (n : node) : bool :=
    let s := n_state n in
    existsb (enabled_b s) loop_labels
    || existsb (fun p => enabled_b s (ICycleRaise (fst p))) (cy_open s)
    || existsb (enabled_b s) [ITick TkFlush; ITick TkCap; ITick TkAudit]
    || match n_act n with Some _ => true | None => false end.

  (* does the attempt counter of [obj] matter to anything other than batch [bid] at this
     instant?  MakeAttempt is read by Enqueue's validation and by callbacks, and written by
     the goroutine of every batch holding the object; batches are formed from the buffer *)
  Definition has_obj (obj : nat) (l : list op) : bool := existsb (fun o => Nat.eqb (o_obj o) obj) l.

  Definition obj_elsewhere (n : node) (bid obj : nat) : bool :=
    let s := n_state n in
    has_obj obj (buffer s) || has_obj obj (map fst (counted s)) || has_obj obj (waiting s)
    || has_obj obj (woken s) || existsb (fun p => has_obj obj (snd p)) (cy_open s)
    || match n_act n with Some (AEnqueue e) => Nat.eqb (e_obj e) obj | _ => false end
    || existsb (fun b2 => negb (Nat.eqb (b_id b2) bid) && negb (b_entered b2) && has_obj obj (b_ops b2))
               (batches s).

  (* steps that commute with every other step of the instant are taken at once:
     partial-order reduction, see DESIGN.md 2.6 *)
  Definition eager_ok (n : node) (l : label) : bool :=
    match l with
    | IBatchStart b =>
        match find_batch b (batches (n_state n)) with
        | Some bt => match nth_error (b_ops bt) (b_bumped bt) with
                     | Some o => negb (obj_elsewhere n b (o_obj o))
                     | None => true
                     end
        | None => true
        end
    | ICbEnter b =>
        match find_batch b (batches (n_state n)) with
        | Some bt => negb (existsb (fun o => obj_elsewhere n b (o_obj o)) (b_ops bt))
        | None => true
        end
    | IEnqRetry _ | IEnqInsert _ => shut (n_state n)   (* after shutdown a caller only gets its error *)
    | ICbReturn _ => true
    | ITick k => negb (t_pending (get_ticker (n_state n) k))
    | IBatchDone _ => negb (loop_busy n)
    | _ => false
    end.

  Fixpoint first_eager (n : node) (ls : list label) : option node :=
    match ls with
    | [] => None
    | l :: r =>
        if eager_ok n l then
          match step_notime c (n_state n) l with
          | Some _ => match try_label n l false with
                      | Some n' => Some n'
                      | None => first_eager n r   (* enabled but not in the history: other orders decide *)
                      end
          | None => first_eager n r
          end
        else first_eager n r
    end.

  Fixpoint filter_map {A B} (f : A -> option B) (l : list A) : list B :=
    match l with
    | [] => []
    | x :: r => match f x with Some y => y :: filter_map f r | None => filter_map f r end
    end.

  (* While the loop walks the buffer, a MakeAttempt / callback entry that has to be
     ordered against other uses of the same operation object can be postponed to the
     end of the cycle without losing behaviours: the loop never reads attempt counters,
     and the only way a callback feeds back into the cycle is by returning at once and
     freeing a batch slot (V2 with a slot limit, zero-duration callback). *)
  Definition in_cycle (s : state) : bool :=
    match loop s with LCycle | LCycleEnd => true | _ => false end.

  Definition postponed (n : node) (l : label) : bool :=
    let s := n_state n in
    match l with
    | IBatchStart b | ICbEnter b =>
        in_cycle s &&
        match find_batch b (batches s) with
        | Some bt => (c_maxconc c =? 0)%nat
                     || match b_ops bt with o :: _ => 0 <? o_dur o | [] => true end
        | None => false
        end
    | _ => false
    end.

  Definition succs (n : node) : list node :=
    let cands := candidates c (n_state n) in
    match first_eager n cands with
    | Some n' => [n']
    | None =>
        (match n_act n with
         | Some a => match try_label n a true with Some n' => [n'] | None => [] end
         | None => []
         end)
        ++ filter_map (fun l => if postponed n l then None else try_label n l false) cands
    end.

  Definition sample_ok (s : state) (sm : option sample) : bool :=
    match sm with
    | None => true
    | Some x => (target s =? sm_needs x) && Nat.eqb (length (buffer s)) (sm_buf x)
                && Nat.eqb (tokens s) (sm_inflight x) && Nat.eqb (pending_calls s) (sm_pending x)
    end.

  Definition settled (n : node) : bool :=
    match n_act n, n_loop n, n_other n with
    | None, [], [] => quiescent c (n_state n)
    | _, _, _ => false
    end.

  Definition progress (n : node) : nat :=
    (length (n_loop n) + length (n_other n) + match n_act n with Some _ => 1 | None => 0 end)%nat.

  Definition better (a b : node) : node := if (progress b <? progress a)%nat then b else a.

  (* breadth-first by levels; acc = settled nodes found so far; best = deepest dead end *)
  Fixpoint bfs (fuel : nat) (frontier : list node) (acc : list node) (best : node)
    : option (list node * node) :=
    match frontier with
    | [] => Some (acc, best)
    | _ =>
        match fuel with
        | O => None
        | S f =>
            let done := filter settled frontier in
            let best' := fold_left better frontier best in
            let next := dedup (flat_map succs frontier) in
            bfs f next (done ++ acc) best'
        end
    end.

  Inductive seg_result :=
  | SegOk (states : list state)
  | SegReject (best : node) (sample_mismatch : list state)
  | SegFuel.

  (* explore one instant from one state *)
  Definition explore_from (fuel : nat) (s : state) (act : option label) (lp ot : list obs)
    : option (list node * node) :=
    let n0 := mkNode s act lp ot in
    bfs fuel [n0] [] n0.

  Definition dedup_states (l : list state) : list state :=
    map n_state (dedup (map (fun s => mkNode s None [] []) l)).

  (* bring a state forward to time t through silent instants: nothing may be observed *)
  Fixpoint forward (fuel : nat) (t : Z) (ss : list state) (out : list state) (best : option node)
    : option (list state * option node) :=
    match ss with
    | [] => Some (out, best)
    | s :: rest =>
        match fuel with
        | O => None
        | S f =>
            if now s =? t then forward f t rest (s :: out) best
            else
              let target_t := match next_due s with
                              | Some d => Z.min d t
                              | None => t
                              end in
              match do_advance c s target_t with
              | None => forward f t rest out best   (* cannot advance: not quiescent; dead *)
              | Some (s1, _) =>
                  if target_t =? t then forward f t rest (s1 :: out) best
                  else
                    match explore_from f s1 None [] [] with
                    | None => None
                    | Some (nodes, b) =>
                        forward f t (map n_state nodes ++ rest) out
                                (match nodes with [] => Some b | _ => best end)
                    end
              end
        end
    end.

  Definition replay_segment (fuel : nat) (ss : list state) (g : segment) : seg_result :=
    match forward fuel (sg_time g) ss [] None with
    | None => SegFuel
    | Some (ss1, fbest) =>
        let ss1 := dedup_states ss1 in
        let go := fix go (l : list state) (acc : list node) (best : option node) (fuel_out : bool) :=
          match l with
          | [] => (acc, best, fuel_out)
          | s :: r =>
              match explore_from fuel s (sg_act g) (sg_loop g) (sg_other g) with
              | None => go r acc best true
              | Some (nodes, b) =>
                  go r (nodes ++ acc)
                     (match best with
                      | None => Some b
                      | Some b0 => Some (better b0 b)
                      end) fuel_out
              end
          end in
        let '(nodes, best, fo) := go ss1 [] None false in
        let all := dedup_states (map n_state nodes) in
        let good := filter (fun s => sample_ok s (sg_sample g)) all in
        match good with
        | _ :: _ => SegOk good
        | [] =>
            if fo then SegFuel
            else
              match best, fbest with
              | Some b, _ => SegReject b all
              | None, Some b => SegReject b all
              | None, None => SegReject (mkNode (init c) None [] []) all
              end
        end
    end.

  Inductive replay_result :=
  | Accepted (final : list state) (max_states : nat)
  | Rejected (seg_index : nat) (g : segment) (best : node) (sample_mismatch : list state)
  | OutOfFuel (seg_index : nat).

  Fixpoint replay_from (fuel : nat) (k : nat) (ss : list state) (h : list segment) (mx : nat)
    : replay_result :=
    match h with
    | [] => Accepted ss mx
    | g :: r =>
        match replay_segment fuel ss g with
        | SegOk ss' => replay_from fuel (S k) ss' r (Nat.max mx (length ss'))
        | SegReject b sm => Rejected k g b sm
        | SegFuel => OutOfFuel k
        end
    end.

  Definition replay (fuel : nat) (h : list segment) : replay_result :=
    replay_from fuel 0 [init c] h 1.

End Explore.
