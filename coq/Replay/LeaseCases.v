(* Replay/LeaseCases.v — evaluating recorded lease-manager cases inside Coq (vm_compute): what the real
   managers did (events, result, number of storage calls) against Model/Lease.v, without extraction. *)
From Coq Require Import List ZArith Bool Arith.
From GB Require Import Model.Allowance Model.Batcher Model.Lease.
Import ListNotations.

Definition levent_eqb (a b : levent) : bool :=
  match a, b with
  | LCreatedContainer, LCreatedContainer | LVerifiedContainer, LVerifiedContainer | LError, LError => true
  | LCreatedBlob i, LCreatedBlob j | LVerifiedBlob i, LVerifiedBlob j | LFailed i, LFailed j => Nat.eqb i j
  | _, _ => false
  end.

Fixpoint levents_eqb (l1 l2 : list levent) : bool :=
  match l1, l2 with
  | [], [] => true
  | a :: r1, b :: r2 => levent_eqb a b && levents_eqb r1 r2
  | _, _ => false
  end.

Inductive lcase :=
| CProvision (o : ecode)
| CLease (index : nat) (o : ecode)
| CCreate (g : gen) (n : nat) (outs : list ecode).

Definition is_v2 (g : gen) : bool := match g with V2 => true | V1 => false end.

(* observed: events, return value (1/0 for provision and create, the lease time in ns for lease), storage calls *)
Definition lcase_ok (c : lcase * list levent * Z * nat) : bool :=
  let '(k, evs, ret, ncalls) := c in
  match k with
  | CProvision o =>
      let '(ok, ev) := lm_provision o in
      levents_eqb ev evs && Z.eqb ret (if ok then 1 else 0)%Z && Nat.eqb ncalls 1
  | CLease i o =>
      let '(lt, ev) := lm_lease i o in
      levents_eqb ev evs && Z.eqb ret lt && Nat.eqb ncalls 1
  | CCreate g n outs =>
      let '(ok, att, ev) := lm_create g (fun k => nth k outs EOk) n in
      levents_eqb ev evs && Z.eqb ret (if is_v2 g || ok then 1 else 0)%Z && Nat.eqb ncalls (length att)
  end.
