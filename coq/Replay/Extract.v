(* Extraction of the executable model and the replay engine to OCaml.
   ExtrOcamlBasic only: bool, option, unit, prod, list, sumbool map to OCaml's own;
   nat, positive, Z stay Coq's inductive types.  No Extract Constant. *)
From Coq Require Import Extraction ExtrOcamlBasic.
From GB Require Import Model.Allowance Model.Batcher Model.Shared Model.Lease Model.BufferPtr Replay.Explore.
Extraction Language OCaml.
Extraction "batcher_model.ml" replay init candidates step quiescent next_due pending_calls
  allowance_float allowance_ceil float_ceil_div ceil_div validate loop_obs
  sstep sinit capacity max_capacity held partition_count wanted
  lm_provision lm_create lm_lease
  prun pinit arun ainit
  prov_step prov_capacity prov_max_capacity.
