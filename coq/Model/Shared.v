(* Model/Shared.v — executable model of one shared-resource rate limiter instance
   (v1 AzureSharedResource, v2 sharedResource) with its acquisition loop, expiry timers
   and configuration calls; DESIGN.md Appendix B.  No proofs in this file.

   Every label corresponds to something the harness can see (a call made by the driver, a
   call on the fake lease manager, an event), so a recorded history determines its label
   sequence and the replay simply runs [sstep] along it. *)
From Coq Require Import List ZArith Bool Lia.
From RecordUpdate Require Import RecordUpdate.
From GB Require Import Model.Allowance Model.Batcher.
Import ListNotations.
Open Scope Z_scope.

Definition max_partitions : Z := 500.
Definition sec : Z := 1000000000.
Definition lease_seconds : Z := 15.

Record scfg := mkSCfg {
  sc_gen : gen;
  sc_factor : Z;        (* as configured; 0 means the default 1 *)
  sc_maxint : Z;        (* MaxInterval in ms as configured; 0 means the default 500 *)
  sc_has_mgr : bool     (* a lease manager is attached (v2: WithSharedCapacity was called) *)
}.

Definition eff_factor (c : scfg) : Z := if sc_factor c =? 0 then 1 else sc_factor c.
Definition eff_maxint (c : scfg) : Z := if sc_maxint c <=? 0 then 500 else sc_maxint c.

Inductive sphase := SUninit | SProvisioned | SStarted | SStopped.

Inductive sloop :=
| SOff
| STop (since : Z)               (* between iterations (sleeping a random interval, re-testing) *)
| SCalling (p : nat) (issued : Z) (* inside LeasePartition *)
| SCreating (n : Z)              (* v2: inside CreatePartitions(n) of a re-provisioning; no lock is held (repair D8) *)
| SExited.

Record sstate := mkSState {
  s_now : Z;
  s_phase : sphase;
  s_factor : Z;                   (* factor after Start/Provision applied the default *)
  s_reserved : Z;
  s_shared : Z;
  s_parts : list (option Z);      (* per partition: None = not counted, Some t = counted until t *)
  s_capacity : Z;                 (* factor x counted partitions as last computed by calc() *)
  s_target : Z;                   (* partitions wanted *)
  s_prov_req : bool;              (* v2: a re-provisioning request is pending *)
  s_loop : sloop;
  s_stop_req : bool;
  s_shutdowns : nat;
  s_timers : list (nat * Z);      (* running expiry timers: partition, instant *)
  s_recalcs : nat;                (* v1: asynchronous recalculations not yet published *)
  s_issued : list (nat * Z * Z * Z)   (* ghost: every lease request: partition, issue time, counted, target *)
}.

#[export] Instance eta_sstate : Settable _ :=
  settable! mkSState <s_now; s_phase; s_factor; s_reserved; s_shared; s_parts; s_capacity; s_target;
                      s_prov_req; s_loop; s_stop_req; s_shutdowns; s_timers; s_recalcs; s_issued>.

Definition sinit (c : scfg) (reserved shared : Z) : sstate :=
  mkSState 0 SUninit (sc_factor c) reserved shared [] 0 0 false SOff false 0 [] 0 [].

(* ---------- pure functions of the configuration ---------- *)

(* number of partitions for a shared capacity: ceil(shared / factor) *)
Definition partition_count (shared factor : Z) : Z := ceil_div shared factor.

Definition max_capacity (c : scfg) (s : sstate) : Z :=
  match sc_gen c with
  | V1 => s_shared s + s_reserved s
  | V2 => Z.min (s_shared s) (s_factor s * max_partitions) + s_reserved s
  end.

Definition held (s : sstate) : Z :=
  Z.of_nat (length (filter (fun x => match x with Some _ => true | None => false end) (s_parts s))).

Definition calc (s : sstate) : sstate := s <| s_capacity := held s * s_factor s |>.

Definition capacity (s : sstate) : Z := s_capacity s + s_reserved s.

(* GiveMe: partitions wanted = ceil(max 0 (asked - reserved) / factor) *)
Definition wanted (s : sstate) (asked : Z) : Z :=
  ceil_div (Z.max 0 (asked - s_reserved s)) (if s_factor s =? 0 then 1 else s_factor s).

Fixpoint set_nth {A} (n : nat) (v : A) (l : list A) : list A :=
  match n, l with
  | _, [] => []
  | O, _ :: r => v :: r
  | S n', x :: r => x :: set_nth n' v r
  end.

Fixpoint resize {A} (n : nat) (d : A) (l : list A) : list A :=
  match n with
  | O => []
  | S n' => match l with
            | [] => d :: resize n' d []
            | x :: r => x :: resize n' d r
            end
  end.

(* ---------- observations ---------- *)

Inductive sobs :=
| SOProvisionRet (ok : bool) (err : nat)   (* v1 Provision: 0 ok, 1 improper order, 2 no manager, 3 no shared capacity, 4 out of range, 5 manager error *)
| SOStartRet (err : nat)                   (* 0 ok, 1 improper order, 5 manager error *)
| SOSetSharedRet (ok : bool)
| SOLmProvision                            (* the lease manager's Provision is called *)
| SOLmCreate (n : Z)                       (* CreatePartitions(n) *)
| SOLmLease (p : nat)                      (* LeasePartition(index p) is called *)
| SOEvCapacity (v : Z)
| SOEvTarget (v : Z)
| SOEvAllocated (p : nat)
| SOEvReleased (p : nat)
| SOEvShutdown
| SOEvError (n : Z)
| SOEvProvisionStart (n : Z)
| SOEvProvisionDone (n : Z).

Inductive slabel :=
| SAProvision (mgr_ok create_ok : bool)    (* v1 Provision(); results of the manager's provision / createPartitions *)
| SAStart (mgr_ok : bool)                  (* Start(); v2: result of the manager's Provision *)
| SAStop                                   (* v1 Stop() / v2 cancel *)
| SAGiveMe (v : Z)
| SASetReserved (v : Z)
| SASetShared (v : Z)
| SILoopProvision                          (* v2: the loop serves a provisioning request: resize, then call CreatePartitions *)
| SICreateRet                              (* v2: CreatePartitions returns: provisioning done, capacity recomputed *)
| SILease (p : nat)                        (* the loop asks for partition p *)
| SILeaseRet (lt : Z)                      (* LeasePartition returns a lease time (0 = none) *)
| SIExpire (p : nat)                       (* the expiry timer of partition p fires *)
| SIRecalc                                 (* v1: an asynchronous recalculation publishes the capacity *)
| SILoopShutdown
| STime (t : Z).

(* ---------- steps ---------- *)

Definition do_provision_v1 (c : scfg) (s : sstate) (mgr_ok create_ok : bool) : option (sstate * list sobs) :=
  match sc_gen c, s_phase s with
  | V1, SUninit =>
      if negb (sc_has_mgr c) then Some (s, [SOProvisionRet false 2])
      else
        let f := if s_factor s =? 0 then 1 else s_factor s in
        let s1 := s <| s_factor := f |> in
        if s_shared s <? 1 then Some (s1, [SOProvisionRet false 3])
        else if negb mgr_ok then Some (s1, [SOLmProvision; SOProvisionRet false 5])
        else
          let n := partition_count (s_shared s) f in
          if max_partitions <? n then Some (s1, [SOLmProvision; SOProvisionRet false 4])
          else
            Some (s1 <| s_parts := repeat None (Z.to_nat n) |> <| s_phase := SProvisioned |>,
                  [SOLmProvision; SOLmCreate n; SOProvisionRet create_ok (if create_ok then 0 else 5)%nat])
  | V1, _ => Some (s, [SOProvisionRet false 1])
  | V2, _ => None
  end.

Definition do_sstart (c : scfg) (s : sstate) (mgr_ok : bool) : option (sstate * list sobs) :=
  match sc_gen c with
  | V1 =>
      match s_phase s with
      | SProvisioned =>
          (* announces the starting capacity asynchronously, then runs the loop *)
          Some (s <| s_phase := SStarted |> <| s_loop := STop (s_now s) |> <| s_recalcs := S (s_recalcs s) |>,
                [SOStartRet 0])
      | _ => Some (s, [SOStartRet 1])
      end
  | V2 =>
      match s_phase s with
      | SUninit =>
          let f := if s_factor s =? 0 then 1 else s_factor s in
          let s1 := s <| s_factor := f |> in
          if sc_has_mgr c then
            if mgr_ok then
              Some (s1 <| s_prov_req := true |> <| s_loop := STop (s_now s) |> <| s_phase := SStarted |>,
                    [SOLmProvision; SOStartRet 0])
            else Some (s1, [SOLmProvision; SOStartRet 5])
          else
            let s2 := calc s1 in
            Some (s2 <| s_phase := SStarted |>, [SOEvCapacity (capacity s2); SOStartRet 0])
      | _ => Some (s, [SOStartRet 1])
      end
  end.

Definition loop_running (s : sstate) : bool :=
  match s_loop s with STop _ | SCalling _ _ | SCreating _ => true | _ => false end.

(* ---------- the pace of the acquisition loop ----------
   Between two iterations the loop sleeps rand.Intn(MaxInterval) milliseconds: at most MaxInterval - 1.  [STop since]
   says that the loop went to sleep at [since] at the latest.  When it wakes it asks for a partition if it counts
   fewer than wanted and one it does not count exists ([pollable]); back at the top it serves a stop request or
   (v2) a re-provisioning request.  While one of these is due ([must_act]) time cannot pass [since + pace_bound]
   without the loop acting; while none is, the loop may wake and go back to sleep at any instant. *)
Definition pace_bound (c : scfg) : Z := (eff_maxint c - 1) * 1000000.

Definition pollable (s : sstate) : bool :=
  (held s <? s_target s) && existsb (fun e => match e with None => true | Some _ => false end) (s_parts s).

Definition must_act (s : sstate) : bool := pollable s || s_stop_req s || s_prov_req s.

Definition pace_ok (c : scfg) (s : sstate) (t : Z) : bool :=
  match s_loop s with
  | STop since => negb (must_act s) || (t <=? since + pace_bound c)
  | _ => true
  end.

(* the loop's state after time has passed to t: with nothing due it may have woken and gone back to sleep just now *)
Definition rest_loop (s : sstate) (t : Z) : sloop :=
  match s_loop s with
  | STop since => if must_act s then STop since else STop t
  | l => l
  end.

(* an obligation that vanishes without the loop having acted (the demand was withdrawn): the loop may wake at this very
   instant, find nothing to do and go back to sleep.  [s] is the state before the change, [s1] after it. *)
Definition relax_loop (s s1 : sstate) : sloop :=
  match s_loop s with
  | STop since => if must_act s1 then STop since else STop (s_now s)
  | l => l
  end.

Definition do_sstop (c : scfg) (s : sstate) : option (sstate * list sobs) :=
  match sc_gen c with
  | V2 => Some (s <| s_stop_req := true |>, [])
  | V1 =>
      match s_phase s with
      | SStopped => Some (s, [])
      | _ => if loop_running s then Some (s <| s_stop_req := true |>, [])
             else Some (s <| s_phase := SStopped |>, [])
      end
  end.

Definition do_giveme (s : sstate) (v : Z) : option (sstate * list sobs) :=
  let s1 := s <| s_target := wanted s v |> in
  Some (s1 <| s_loop := relax_loop s s1 |>, [SOEvTarget (Z.max 0 (v - s_reserved s))]).

Definition do_set_reserved (c : scfg) (s : sstate) (v : Z) : option (sstate * list sobs) :=
  match sc_gen c with
  | V2 => let s1 := calc (s <| s_reserved := v |>) in Some (s1, [SOEvCapacity (capacity s1)])
  | V1 => None
  end.

Definition do_set_shared (c : scfg) (s : sstate) (v : Z) : option (sstate * list sobs) :=
  match sc_gen c with
  | V2 => if sc_has_mgr c then Some (s <| s_shared := v |> <| s_prov_req := true |>, [SOSetSharedRet true])
          else Some (s, [SOSetSharedRet false])
  | V1 => None
  end.

Definition at_top (s : sstate) : bool := match s_loop s with STop _ => true | _ => false end.

(* v2: the loop re-provisions: resize by copy (under the partition lock), cap at 500 with an error
   event, then CreatePartitions is called with no lock held: leases may expire meanwhile.  The
   published capacity is only recomputed when CreatePartitions has returned (or by an expiry in
   between): until then it may still include partitions that a shrink has dropped. *)
Definition do_loop_provision (c : scfg) (s : sstate) : option (sstate * list sobs) :=
  match sc_gen c with
  | V2 =>
      if at_top s && s_prov_req s then
        let n := partition_count (s_shared s) (s_factor s) in
        let n' := Z.min n max_partitions in
        let s1 := s <| s_prov_req := false |> <| s_parts := resize (Z.to_nat n') None (s_parts s) |> in
        Some (s1 <| s_loop := SCreating n' |>,
              (if max_partitions <? n then [SOEvError n] else [])
              ++ [SOEvProvisionStart n'; SOLmCreate n'])
      else None
  | V1 => None
  end.

(* CreatePartitions returns: the done event, then the loop recomputes the capacity and goes on *)
Definition do_create_ret (c : scfg) (s : sstate) : option (sstate * list sobs) :=
  match s_loop s with
  | SCreating n =>
      let s1 := calc s in
      Some (s1 <| s_loop := STop (s_now s) |>, [SOEvProvisionDone n; SOEvCapacity (capacity s1)])
  | _ => None
  end.

(* the loop wakes from its random sleep, counts what it holds, picks a partition it does not
   count, and asks for it if it holds fewer than wanted *)
Definition do_lease (c : scfg) (s : sstate) (p : nat) : option (sstate * list sobs) :=
  match s_loop s with
  | STop since =>
      if (held s <? s_target s)
         && match nth_error (s_parts s) p with Some None => true | _ => false end
      then Some (s <| s_loop := SCalling p (s_now s) |>
                   <| s_issued := (p, s_now s, held s, s_target s) :: s_issued s |>, [SOLmLease p])
      else None
  | _ => None
  end.

(* what remains of a lease when the call returns: measured from the moment the request was
   issued (after the repair of D6); nothing remains => the partition is not counted *)
Definition remaining (lt issued now : Z) : Z := lt - (now - issued).

Definition do_lease_ret (c : scfg) (s : sstate) (lt : Z) : option (sstate * list sobs) :=
  match s_loop s with
  | SCalling p issued =>
      let s0 := s <| s_loop := STop (s_now s) |> in
      if lt <=? 0 then Some (s0, [])
      else
        let rem := remaining lt issued (s_now s) in
        if rem <=? 0 then Some (s0, [])
        else
          let s1 := s0 <| s_parts := set_nth p (Some (s_now s + rem)) (s_parts s) |>
                       <| s_timers := (p, s_now s + rem) :: s_timers s |> in
          match sc_gen c with
          | V2 => let s2 := calc s1 in Some (s2, [SOEvAllocated p; SOEvCapacity (capacity s2)])
          | V1 => Some (s1 <| s_recalcs := S (s_recalcs s) |>, [SOEvAllocated p])
          end
  | _ => None
  end.

Fixpoint remove_timer (p : nat) (t : Z) (l : list (nat * Z)) : option (list (nat * Z)) :=
  match l with
  | [] => None
  | (q, u) :: r => if Nat.eqb p q && (t =? u) then Some r
                   else match remove_timer p t r with Some r' => Some ((q, u) :: r') | None => None end
  end.

(* an expiry timer fires: the partition is no longer counted, the released event is raised, the
   capacity recomputed.  v2 checks the index, which a shrink may have removed, and (after the repair
   of D9) that the partition still holds the lease this timer was started for: a partition that
   was dropped by a resize and acquired again carries a later expiry and is left alone *)
Definition clear_part (c : scfg) (s : sstate) (p : nat) : list (option Z) :=
  match sc_gen c with
  | V1 => set_nth p None (s_parts s)
  | V2 => match nth_error (s_parts s) p with
          | Some (Some e) => if e =? s_now s then set_nth p None (s_parts s) else s_parts s
          | _ => s_parts s
          end
  end.

Definition do_expire (c : scfg) (s : sstate) (p : nat) : option (sstate * list sobs) :=
  match remove_timer p (s_now s) (s_timers s) with
  | Some timers =>
      let s1 := s <| s_timers := timers |> <| s_parts := clear_part c s p |> in
      match sc_gen c with
      | V2 => if s_stop_req s then None   (* the timer goroutine ended with the context *)
              else let s2 := calc s1 in Some (s2, [SOEvReleased p; SOEvCapacity (capacity s2)])
      | V1 => Some (s1 <| s_recalcs := S (s_recalcs s) |>, [SOEvReleased p])
      end
  | None => None
  end.

(* v1: recalc() runs calc in its own goroutine and publishes the result *)
Definition do_recalc (c : scfg) (s : sstate) : option (sstate * list sobs) :=
  match sc_gen c with
  | V1 => match s_recalcs s with
          | S n => let s1 := calc s in Some (s1 <| s_recalcs := n |>, [SOEvCapacity (capacity s1)])
          | O => None
          end
  | V2 => None
  end.

Definition do_sloop_shutdown (c : scfg) (s : sstate) : option (sstate * list sobs) :=
  if s_stop_req s && match s_loop s with STop _ => true | SOff => (match sc_gen c with V2 => match s_phase s with SStarted => true | _ => false end | V1 => false end) | _ => false end
  then Some (s <| s_loop := SExited |> <| s_phase := SStopped |> <| s_shutdowns := S (s_shutdowns s) |>, [SOEvShutdown])
  else None.

(* time passes; it cannot pass the expiry of a counted partition (v2: unless cancelled) *)
Definition expiries_ok (c : scfg) (s : sstate) (t : Z) : bool :=
  forallb (fun x => (t <=? snd x) || (match sc_gen c with V2 => s_stop_req s | V1 => false end)) (s_timers s).

Definition do_stime (c : scfg) (s : sstate) (t : Z) : option (sstate * list sobs) :=
  if (s_now s <=? t) && expiries_ok c s t && pace_ok c s t
  then Some (s <| s_now := t |> <| s_loop := rest_loop s t |>, []) else None.

Definition sstep (c : scfg) (s : sstate) (l : slabel) : option (sstate * list sobs) :=
  match l with
  | SAProvision a b => do_provision_v1 c s a b
  | SAStart a => do_sstart c s a
  | SAStop => do_sstop c s
  | SAGiveMe v => do_giveme s v
  | SASetReserved v => do_set_reserved c s v
  | SASetShared v => do_set_shared c s v
  | SILoopProvision => do_loop_provision c s
  | SICreateRet => do_create_ret c s
  | SILease p => do_lease c s p
  | SILeaseRet lt => do_lease_ret c s lt
  | SIExpire p => do_expire c s p
  | SIRecalc => do_recalc c s
  | SILoopShutdown => do_sloop_shutdown c s
  | STime t => do_stime c s t
  end.

Fixpoint srun (c : scfg) (s : sstate) (ls : list slabel) : option (sstate * list sobs) :=
  match ls with
  | [] => Some (s, [])
  | l :: r =>
      match sstep c s l with
      | None => None
      | Some (s1, o1) =>
          match srun c s1 r with
          | None => None
          | Some (s2, o2) => Some (s2, o1 ++ o2)
          end
      end
  end.
