(* Model/Lease.v — the Azure Blob lease manager (azure-blob-lease-manager.go, both
   generations) as pure functions from the outcomes of the storage calls to what the manager
   returns and which events it raises.  No proofs in this file. *)
From Coq Require Import List ZArith Bool.
From GB Require Import Model.Batcher.
Import ListNotations.
Open Scope Z_scope.

(* outcome of one storage call, as classified by azblob.StorageError.ServiceCode() *)
Inductive ecode :=
| EOk
| EContainerAlreadyExists
| EBlobAlreadyExists
| ELeaseIdMissing
| ELeaseAlreadyPresent
| EOtherStorage (n : nat)     (* any other service code of the SDK, by its index *)
| ENonStorage.                (* transport error, cancellation, ... : not a StorageError *)

Inductive levent :=
| LCreatedContainer | LVerifiedContainer
| LCreatedBlob (i : nat) | LVerifiedBlob (i : nat)
| LFailed (index : nat)       (* lease already present *)
| LError.

Definition lease_ns : Z := 15 * 1000000000.

(* provision(): container create *)
Definition lm_provision (r : ecode) : bool * list levent :=   (* success?, events *)
  match r with
  | EOk => (true, [LCreatedContainer])
  | EContainerAlreadyExists => (true, [LVerifiedContainer])
  | _ => (false, [])
  end.

(* what one blob upload (with If-None-Match: * ) means *)
Inductive upload_class := UCreated | UVerified | UFailed.
Definition classify_upload (r : ecode) : upload_class :=
  match r with
  | EOk => UCreated
  | EBlobAlreadyExists | ELeaseIdMissing => UVerified
  | _ => UFailed
  end.

(* createPartitions(count): uploads for blobs i, i+1, ...; [results k] is the outcome of the upload
   of blob k.  Returns: success? (V1 returns the first other error and stops; V2 returns
   nothing and goes on), the blobs whose upload was attempted, the events *)
Fixpoint lm_create_from (g : gen) (results : nat -> ecode) (i n : nat) : bool * list nat * list levent :=
  match n with
  | O => (true, [], [])
  | S n' =>
      match classify_upload (results i) with
      | UCreated => let '(ok, att, ev) := lm_create_from g results (S i) n' in (ok, i :: att, LCreatedBlob i :: ev)
      | UVerified => let '(ok, att, ev) := lm_create_from g results (S i) n' in (ok, i :: att, LVerifiedBlob i :: ev)
      | UFailed =>
          match g with
          | V1 => (false, [i], [])
          | V2 => let '(ok, att, ev) := lm_create_from g results (S i) n' in (ok, i :: att, LError :: ev)
          end
      end
  end.

Definition lm_create (g : gen) (results : nat -> ecode) (n : nat) := lm_create_from g results 0 n.

(* leasePartition(id, index): AcquireLease(id, 15 s) on blob [index] *)
Definition lm_lease (index : nat) (r : ecode) : Z * list levent :=
  match r with
  | EOk => (lease_ns, [])
  | ELeaseAlreadyPresent => (0, [LFailed index])
  | _ => (0, [LError])
  end.

(* ---------- v1 ProvisionedResource (provisioned-resource.go): a fixed capacity, no partitions ----------
   Capacity() and MaxCapacity() are the configured value at every moment; Start raises one capacity event with
   that value, Stop one shutdown event, Provision and GiveMe do nothing. *)
Inductive prov_op := POProvision | POStart | POStop | POGiveMe.
Inductive prov_ev := PECapacity (v : Z) | PEShutdown.

Definition prov_step (m : Z) (o : prov_op) : list prov_ev :=
  match o with
  | POStart => [PECapacity m]
  | POStop => [PEShutdown]
  | POProvision | POGiveMe => []
  end.

Definition prov_capacity (m : Z) : Z := m.
Definition prov_max_capacity (m : Z) : Z := m.
