(* Model/Allowance.v — the arithmetic of the code, executable, no proofs.

   v1 (batcher.go:419-423) and, before the repair of D5, v2:
       capacity += uint32(float64(Capacity()) / 1000.0 * float64(FlushInterval.Milliseconds()))
   is IEEE-754 binary64 arithmetic followed by a truncating conversion.  It is
   modelled bit-exactly with Coq.Floats.SpecFloat (pure Gallina, axiom free).

   v2 after the repair of D5 (v2/batcher.go): integer ceiling of Capacity*ms/1000,
   clamped to MaxUint32.

   The two   math.Ceil(float64(a)/float64(b))   sites of the shared resource are
   modelled as integer ceilings (ceil_div); float_ceil_div is the binary64
   computation the code performs, used by the correspondence check and by
   Proofs/AllowanceFacts.v to compare the two. *)
From Coq Require Import ZArith List Bool.
From Coq Require Import Floats.SpecFloat.
Import ListNotations.
Open Scope Z_scope.

Definition prec := 53.
Definition emax := 1024.

Definition u32 : Z := 4294967296.

(* float64(n) for an integer 0 <= n *)
Definition sf_of_Z (n : Z) : spec_float :=
  match n with
  | Z0 => S754_zero false
  | Zpos p => binary_normalize prec emax (Zpos p) 0 false
  | Zneg p => binary_normalize prec emax (Zneg p) 0 false
  end.

Definition sf_div := SFdiv prec emax.
Definition sf_mul := SFmul prec emax.

(* truncation toward zero of a finite float, as Go's uint32(f) does for f in range *)
Definition sf_trunc (f : spec_float) : Z :=
  match f with
  | S754_finite s m e =>
      let v := match e with
               | Z0 => Zpos m
               | Zpos p => Zpos m * 2 ^ (Zpos p)
               | Zneg p => Zpos m / 2 ^ (Zpos p)
               end in
      if s then - v else v
  | _ => 0
  end.

(* is the finite float an integer? used for Ceil *)
Definition sf_ceil (f : spec_float) : Z :=
  match f with
  | S754_finite s m e =>
      match e with
      | Z0 => if s then - Zpos m else Zpos m
      | Zpos p => (if s then -1 else 1) * (Zpos m * 2 ^ (Zpos p))
      | Zneg p =>
          let q := Zpos m / 2 ^ (Zpos p) in
          let r := Zpos m mod 2 ^ (Zpos p) in
          if s then - q else (if r =? 0 then q else q + 1)
      end
  | _ => 0
  end.

(* v1: uint32(float64(c)/1000.0*float64(ms)); for results >= 2^32 the Go
   conversion is implementation-defined; the model wraps (amd64 behaviour of the
   cvttsd2sq-based conversion) and the theorems carry the hypothesis c*ms/1000 < 2^32 *)
Definition allowance_float (c ms : Z) : Z :=
  (sf_trunc (sf_mul (sf_div (sf_of_Z c) (sf_of_Z 1000)) (sf_of_Z ms))) mod u32.

(* v2 after the repair of D5 *)
Definition allowance_ceil (c ms : Z) : Z :=
  Z.min (u32 - 1) ((c * ms + 999) / 1000).

(* integer ceiling of a/b for b > 0 *)
Definition ceil_div (a b : Z) : Z := (a + b - 1) / b.

(* what the code computes: uint32(math.Ceil(float64(a)/float64(b))) *)
Definition float_ceil_div (a b : Z) : Z :=
  sf_ceil (sf_div (sf_of_Z a) (sf_of_Z b)).
