(* Model/Batcher.v — executable labelled transition system of the Batcher of both
   API generations (root module = V1, v2/ = V2).  No proofs in this file.

   One label = one critical section / channel operation of the Go code; see
   DESIGN.md Appendix A for the table with source line numbers.  [step] is a total
   function returning [None] when the label is not enabled and otherwise the next
   state together with the observations the real code makes visible at that step
   (API results, events on the listener, calls on the limiter, callback entry/exit). *)
From Coq Require Import List ZArith Bool Lia.
From RecordUpdate Require Import RecordUpdate.
From GB Require Import Model.Allowance.
Import ListNotations.
Open Scope Z_scope.

Inductive gen := V1 | V2.

Definition gen_eqb (a b : gen) : bool :=
  match a, b with V1, V1 => true | V2, V2 => true | _, _ => false end.

(* ---------- configuration ---------- *)

Record wcfg := mkW {
  w_maxbatch : nat;      (* 0 = unlimited *)
  w_maxattempts : nat;   (* 0 = unlimited *)
  w_maxop : Z            (* ns; <= 0 = not set *)
}.

Definition default_w := mkW 0 0 0.

Record cfg := mkCfg {
  c_gen : gen;
  c_bufcap : nat;        (* buffer size, >= 1 *)
  c_errfull : bool;      (* WithErrorOnFullBuffer *)
  c_limiter : bool;      (* a rate limiter is attached *)
  c_flush : Z;           (* the five settings as configured, in ns; <= 0 means default *)
  c_capint : Z;
  c_audit : Z;
  c_maxop : Z;
  c_pause : Z;
  c_maxconc : nat;       (* V2 MaxConcurrentBatches; 0 = no limit *)
  c_watchers : list wcfg;
  c_busy_fd : Z;         (* a listener keeps the loop busy for this long inside the flush-done event (v2), ns; <= 0: not *)
  c_busy_audit : Z;      (* ... inside the audit-skip / audit-pass / audit-fail event *)
  c_busy_cap : Z;        (* the rate limiter's GiveMe takes this long to return *)
  c_react_pause : nat    (* this many resume events are answered by a listener that calls Pause() from a goroutine of its own and waits for it *)
}.

Definition ms : Z := 1000000.
Definition default_flush : Z := 100 * ms.
Definition default_capint : Z := 100 * ms.
Definition default_audit : Z := 10000 * ms.
Definition default_maxop : Z := 60000 * ms.
Definition default_pause : Z := 500 * ms.

Definition dflt (v d : Z) : Z := if v <=? 0 then d else v.
Definition eff_flush (c : cfg) := dflt (c_flush c) default_flush.
Definition eff_capint (c : cfg) := dflt (c_capint c) default_capint.
Definition eff_audit (c : cfg) := dflt (c_audit c) default_audit.
Definition eff_maxop (c : cfg) := dflt (c_maxop c) default_maxop.
Definition eff_pause (c : cfg) := dflt (c_pause c) default_pause.

Definition watcher (c : cfg) (w : nat) : wcfg := nth w (c_watchers c) default_w.

(* time.Duration.Milliseconds() truncates toward zero; the interval is positive *)
Definition flush_ms (c : cfg) : Z := eff_flush c / ms.

(* the time after which a batch of watcher w is written off *)
Definition timeout_of (c : cfg) (w : nat) : Z :=
  if 0 <? w_maxop (watcher c w) then w_maxop (watcher c w) else eff_maxop c.

(* cycle allowance from the Capacity() value read at the start of the cycle *)
Definition allowance (c : cfg) (capacity : Z) : Z :=
  match c_gen c with
  | V1 => allowance_float capacity (flush_ms c)
  | V2 => allowance_ceil capacity (flush_ms c)
  end.

(* ---------- operations ---------- *)

Record op := mkOp {
  o_id : nat;          (* enqueue instance: the number of the Enqueue call *)
  o_obj : nat;         (* identity of the operation object (attempt counter, payload) *)
  o_w : nat;           (* watcher index *)
  o_cost : Z;          (* Cost() as seen by Enqueue and by the flush cycle *)
  o_cost_done : Z;     (* Cost() as seen when the batch is finished *)
  o_batchable : bool;
  o_dur : Z            (* duration of the callback of a batch this operation heads *)
}.

(* what the caller passes to Enqueue *)
Record espec := mkE {
  e_nil : bool;            (* op == nil *)
  e_watcher : option nat;  (* None: op.Watcher() == nil *)
  e_obj : nat;
  e_cost : Z;
  e_cost_done : Z;
  e_batchable : bool;
  e_dur : Z;
  e_hold : bool            (* park the caller at the hook point enqueue:counted *)
}.

Inductive eres := ROk | RNoOp | RNoWatcher | RTooExpensive | RTooManyAttempts
                | RBufferFull | RShutdown | RPanic.

(* ---------- observations ---------- *)

Inductive obs :=
| OEnqRet (call : nat) (r : eres)
| OStartRet (ok : bool)
| OStopRet
| OSetterPanic
| OEvPause (millis : Z)
| OEvResume
| OEvShutdown
| OEvAuditSkip
| OEvAuditPass
| OEvAuditFail (target_bad inflight_bad : bool)
| OEvRequest (v : Z)
| OGiveMe (v : Z)
| OCapRead
| OEvFlushStart
| OEvFlushDone
| OEvBatch (w : nat) (objs : list nat)
| OCbStart (w : nat) (objs : list nat) (attempts : list nat)
| OCbRet (w : nat) (objs : list nat).

(* observations made on the processing-loop goroutine: their order in the log is real *)
Definition loop_obs (o : obs) : bool :=
  match o with
  | OEvPause _ | OEvResume | OEvShutdown | OEvAuditSkip | OEvAuditPass | OEvAuditFail _ _
  | OEvRequest _ | OGiveMe _ | OCapRead | OEvFlushStart | OEvFlushDone | OEvBatch _ _ => true
  | _ => false
  end.

(* ---------- state ---------- *)

Inductive phase := PUninit | PStarted | PPaused | PStopped.

Inductive loopst :=
| LNotStarted
| LIdle                  (* at the select *)
| LSleeping (until : Z)  (* in time.Sleep(PauseTime) *)
| LBusy (until : Z)      (* inside a listener that takes its time (user code called from Emit) *)
| LAuditPending          (* audit saw "buffer empty and idle long enough", not yet confirmed *)
| LCycle                 (* walking the buffer *)
| LCycleEnd              (* raising the remaining partial batches *)
| LExited.

Record ticker := mkT { t_next : Z; t_pending : bool }.

Record batch := mkB {
  b_id : nat;
  b_w : nat;
  b_ops : list op;
  b_raised : Z;
  b_deadline : Z;
  b_bumped : nat;       (* number of operations whose MakeAttempt has been done *)
  b_entered : bool;     (* callback entered *)
  b_ret_at : Z;         (* when the callback returns (meaningful once entered) *)
  b_returned : bool;
  b_done : bool         (* cost taken off the demand figure, slot released *)
}.

Record state := mkState {
  now : Z;
  phase_ : phase;
  loop : loopst;
  stop_req : bool;          (* V2: ctx cancelled; V1: stop channel closed *)
  stoppers : nat;           (* V1: Stop() calls waiting for the loop to exit *)
  pause_tok : bool;
  flush_tok : bool;
  tk_flush : ticker;
  tk_cap : ticker;
  tk_audit : ticker;
  tickers_on : bool;
  counted : list (op * bool);  (* validated and counted, not yet inserted; bool = parked at the hook *)
  waiting : list op;        (* blocked on a full buffer, FIFO *)
  woken : list op;          (* V2: signalled, about to re-test *)
  buffer : list op;
  shut : bool;              (* V2 isShutdown / V1 channel closed *)
  target : Z;
  tokens : nat;             (* V2 len(inflight) *)
  leaked : nat;             (* V2: batch goroutines blocked on <-inflight after an audit drained the channel *)
  reacts_left : nat;        (* resume events still to be answered by a Pause() from a listener's goroutine *)
  batches : list batch;     (* raised and not yet (done and returned) *)
  cy_cur : option nat;      (* V2 cursor as an index into buffer *)
  cy_allow : Z;
  cy_consumed : Z;
  cy_open : list (nat * list op);  (* batches under construction, by watcher *)
  last_flush : option Z;    (* lastFlushWithRecords; None = zero time *)
  attempts : list (nat * nat);     (* obj -> attempt counter *)
  next_call : nat;
  next_bid : nat;
  capacity_now : Z;         (* what the limiter answers to Capacity() *)
  maxcap_now : Z;           (* what the limiter answers to MaxCapacity() *)
  (* ghost history, used by the theorems only *)
  g_inserted : list op;     (* every instance ever put in the buffer, newest first *)
  g_raised : list (nat * list op);  (* every batch ever raised: watcher, operations; newest first *)
  g_started : list nat;     (* ids of batches whose callback was entered, newest first *)
  g_shutdowns : nat;        (* shutdown events raised *)
  g_discarded : list op;    (* V2: buffered operations dropped by the shutdown *)
  g_failed : list nat;      (* numbers of the Enqueue calls that returned an error or panicked *)
  g_taken : list op;        (* operations removed from the buffer in the current cycle, newest first *)
  g_cycles : nat;           (* flush cycles begun *)
  g_flush_ticks : nat;      (* flush ticks turned into a flush token by the loop *)
  g_flush_calls : nat;      (* Flush() calls *)
  g_flush_fired : nat       (* flush-ticker instants that have passed (delivered or dropped) *)
}.

#[export] Instance eta_ticker : Settable _ := settable! mkT <t_next; t_pending>.
#[export] Instance eta_batch : Settable _ :=
  settable! mkB <b_id; b_w; b_ops; b_raised; b_deadline; b_bumped; b_entered; b_ret_at; b_returned; b_done>.
#[export] Instance eta_state : Settable _ :=
  settable! mkState <now; phase_; loop; stop_req; stoppers; pause_tok; flush_tok; tk_flush; tk_cap;
                     tk_audit; tickers_on; counted; waiting; woken; buffer; shut; target; tokens; leaked; reacts_left;
                     batches; cy_cur; cy_allow; cy_consumed; cy_open; last_flush; attempts;
                     next_call; next_bid; capacity_now; maxcap_now;
                     g_inserted; g_raised; g_started; g_shutdowns; g_discarded; g_failed; g_taken;
                     g_cycles; g_flush_ticks; g_flush_calls; g_flush_fired>.

Definition init (c : cfg) : state :=
  {| now := 0; phase_ := PUninit; loop := LNotStarted; stop_req := false; stoppers := 0;
     pause_tok := false; flush_tok := false;
     tk_flush := mkT 0 false; tk_cap := mkT 0 false; tk_audit := mkT 0 false; tickers_on := false;
     counted := []; waiting := []; woken := []; buffer := []; shut := false; target := 0;
     tokens := 0; leaked := 0; reacts_left := 0; batches := []; cy_cur := None; cy_allow := 0; cy_consumed := 0; cy_open := [];
     last_flush := None; attempts := []; next_call := 0; next_bid := 0;
     capacity_now := 0; maxcap_now := 0;
     g_inserted := []; g_raised := []; g_started := []; g_shutdowns := 0; g_discarded := []; g_failed := []; g_taken := [];
     g_cycles := 0; g_flush_ticks := 0; g_flush_calls := 0; g_flush_fired := 0 |}.

(* ---------- small helpers ---------- *)

Fixpoint get_attempt (a : list (nat * nat)) (obj : nat) : nat :=
  match a with
  | [] => 0%nat
  | (k, v) :: r => if Nat.eqb k obj then v else get_attempt r obj
  end.

Fixpoint bump_attempt (a : list (nat * nat)) (obj : nat) : list (nat * nat) :=
  match a with
  | [] => [(obj, 1%nat)]
  | (k, v) :: r => if Nat.eqb k obj then (k, S v) :: r else (k, v) :: bump_attempt r obj
  end.

Definition bump_all (a : list (nat * nat)) (ops : list op) : list (nat * nat) :=
  fold_left (fun acc o => bump_attempt acc (o_obj o)) ops a.

Definition sum_cost (l : list op) : Z := fold_right (fun o acc => o_cost o + acc) 0 l.
Definition sum_cost_done (l : list op) : Z := fold_right (fun o acc => o_cost_done o + acc) 0 l.

(* incTarget(+v): uint32 addition wraps *)
Definition target_add (t v : Z) : Z := (t + v) mod u32.
(* incTarget(-v): saturating *)
Definition target_sub (t v : Z) : Z := if v <=? t then t - v else 0.

Fixpoint get_open (o : list (nat * list op)) (w : nat) : list op :=
  match o with
  | [] => []
  | (k, l) :: r => if Nat.eqb k w then l else get_open r w
  end.

Fixpoint set_open (o : list (nat * list op)) (w : nat) (l : list op) : list (nat * list op) :=
  match o with
  | [] => [(w, l)]
  | (k, l0) :: r => if Nat.eqb k w then (k, l) :: r else (k, l0) :: set_open r w l
  end.

Fixpoint remove_nth {A} (n : nat) (l : list A) : list A :=
  match n, l with
  | _, [] => []
  | O, _ :: r => r
  | S n', x :: r => x :: remove_nth n' r
  end.

Definition objs_of (l : list op) : list nat := map o_obj l.

Fixpoint remove_call (id : nat) (l : list (op * bool)) : list (op * bool) :=
  match l with
  | [] => []
  | (o, h) :: r => if Nat.eqb (o_id o) id then r else (o, h) :: remove_call id r
  end.

Fixpoint find_call (id : nat) (l : list (op * bool)) : option (op * bool) :=
  match l with
  | [] => None
  | (o, h) :: r => if Nat.eqb (o_id o) id then Some (o, h) else find_call id r
  end.

Fixpoint remove_op (id : nat) (l : list op) : list op :=
  match l with
  | [] => []
  | o :: r => if Nat.eqb (o_id o) id then r else o :: remove_op id r
  end.

Fixpoint find_op (id : nat) (l : list op) : option op :=
  match l with
  | [] => None
  | o :: r => if Nat.eqb (o_id o) id then Some o else find_op id r
  end.

Fixpoint find_batch (id : nat) (l : list batch) : option batch :=
  match l with
  | [] => None
  | b :: r => if Nat.eqb (b_id b) id then Some b else find_batch id r
  end.

Fixpoint update_batch (b' : batch) (l : list batch) : list batch :=
  match l with
  | [] => []
  | b :: r => if Nat.eqb (b_id b) (b_id b') then b' :: r else b :: update_batch b' r
  end.

Fixpoint drop_batch (id : nat) (l : list batch) : list batch :=
  match l with
  | [] => []
  | b :: r => if Nat.eqb (b_id b) id then r else b :: drop_batch id r
  end.

(* keep a batch record until it is both done and returned *)
Definition settle_batch (b : batch) (l : list batch) : list batch :=
  if b_done b && b_returned b then drop_batch (b_id b) l else update_batch b l.

(* ---------- labels ---------- *)

Inductive tick := TkFlush | TkCap | TkAudit.

Inductive label :=
(* calls made by API users *)
| AStart
| APause
| AFlush
| AStop                      (* V1 Stop() / V2 cancellation of the context *)
| AEnqueue (e : espec)
| ARelease (call : nat)      (* let a caller parked at the hook continue *)
| ASetter                    (* V2: one of the guarded With* setters *)
| ASetCap (v : Z)            (* environment: the limiter's Capacity() from now on *)
| ASetMaxCap (v : Z)
(* internal steps *)
| IEnqInsert (call : nat)    (* a counted caller reaches the buffer *)
| IEnqRetry (call : nat)     (* V2: a signalled waiter re-tests *)
| IStopRet                   (* V1: a Stop() call returns *)
| ITick (k : tick)
| ILoopShutdown
| ILoopPause
| ILoopResume
| ILoopUnbusy
| ILoopAuditCheck
| ILoopAuditConfirm
| ILoopCap
| ILoopFlushTick
| ICycleBegin
| ICycleVisit
| ICycleRaise (w : nat)
| ICycleEnd
| IBatchStart (b : nat)
| ICbEnter (b : nat)
| ICbReturn (b : nat)
| IBatchDone (b : nat)
(* time *)
| TAdvance (t : Z).

(* ---------- Enqueue ---------- *)

Inductive verdict := VAccept (w : nat) | VReject (r : eres).

(* the ordered tests of Enqueue (batcher.go:164-184, v2/batcher.go:233-253) *)
Definition validate (c : cfg) (s : state) (e : espec) : verdict :=
  if e_nil e then VReject RNoOp
  else match e_watcher e with
       | None => VReject RNoWatcher
       | Some w =>
           if c_limiter c && (maxcap_now s <? e_cost e) then VReject RTooExpensive
           else
             let ma := w_maxattempts (watcher c w) in
             if (0 <? ma)%nat && (ma <=? get_attempt (attempts s) (e_obj e))%nat
             then VReject RTooManyAttempts
             else VAccept w
       end.

Definition do_enqueue (c : cfg) (s : state) (e : espec) : option (state * list obs) :=
  let id := next_call s in
  let s1 := s <| next_call := S id |> in
  match validate c s e with
  | VReject r => Some (s1 <| g_failed := id :: g_failed s |>, [OEnqRet id r])
  | VAccept w =>
      let o := mkOp id (e_obj e) w (e_cost e) (e_cost_done e) (e_batchable e) (e_dur e) in
      Some (s1 <| target := target_add (target s) (e_cost e) |>
               <| counted := counted s ++ [(o, e_hold e)] |>, [])
  end.

Definition do_release (s : state) (id : nat) : option (state * list obs) :=
  match find_call id (counted s) with
  | Some (o, true) =>
      Some (s <| counted := map (fun p => if Nat.eqb (o_id (fst p)) id then (fst p, false) else p)
                                (counted s) |>, [])
  | _ => Some (s, [])   (* nobody is parked under that number: nothing happens *)
  end.

Definition insert_op (s : state) (o : op) : state :=
  s <| buffer := buffer s ++ [o] |> <| g_inserted := o :: g_inserted s |>.

(* the buffer insert of a caller that has been counted *)
Definition do_enq_insert (c : cfg) (s : state) (id : nat) : option (state * list obs) :=
  match find_call id (counted s) with
  | Some (o, false) =>
      let s1 := s <| counted := remove_call id (counted s) |> in
      if shut s then
        match c_gen c with
        | V1 => Some (s1 <| g_failed := id :: g_failed s |>, [OEnqRet id RPanic])     (* send on closed channel *)
        | V2 => Some (s1 <| target := target_sub (target s) (o_cost o) |> <| g_failed := id :: g_failed s |>,
                      [OEnqRet id RShutdown])
        end
      else if (length (buffer s) <? c_bufcap c)%nat then
        Some (insert_op s1 o, [OEnqRet id ROk])
      else if c_errfull c then
        Some (s1 <| target := target_sub (target s) (o_cost o) |> <| g_failed := id :: g_failed s |>,
              [OEnqRet id RBufferFull])
      else
        Some (s1 <| waiting := waiting s ++ [o] |>, [])
  | _ => None
  end.

(* V2: a waiter woken by notFull.Signal()/Broadcast() re-tests shutdown and fullness *)
Definition do_enq_retry (c : cfg) (s : state) (id : nat) : option (state * list obs) :=
  match c_gen c, find_op id (woken s) with
  | V2, Some o =>
      let s1 := s <| woken := remove_op id (woken s) |> in
      if shut s then
        Some (s1 <| target := target_sub (target s) (o_cost o) |> <| g_failed := id :: g_failed s |>,
              [OEnqRet id RShutdown])
      else if (length (buffer s) <? c_bufcap c)%nat then
        Some (insert_op s1 o, [OEnqRet id ROk])
      else
        Some (s1 <| waiting := waiting s ++ [o] |>, [])
  | _, _ => None
  end.

(* ---------- API calls ---------- *)

Definition do_start (c : cfg) (s : state) : option (state * list obs) :=
  match phase_ s with
  | PUninit =>
      Some (s <| phase_ := PStarted |> <| loop := LIdle |> <| tickers_on := true |>
              <| tk_flush := mkT (now s + eff_flush c) false |>
              <| tk_cap := mkT (now s + eff_capint c) false |>
              <| tk_audit := mkT (now s + eff_audit c) false |>
              <| reacts_left := c_react_pause c |>, [OStartRet true])
  | _ => Some (s, [OStartRet false])
  end.

Definition do_pause (s : state) : option (state * list obs) :=
  match phase_ s with
  | PStarted => Some (s <| pause_tok := true |> <| phase_ := PPaused |>, [])
  | _ => Some (s, [])
  end.

Definition do_flush (s : state) : option (state * list obs) :=
  Some (s <| flush_tok := true |> <| g_flush_calls := S (g_flush_calls s) |>, []).

(* V2: cancel the context.  V1: Stop() — marks the phase, closes the stop channel (if
   Start ever made one) and then waits for the loop without holding the phase mutex *)
Definition loop_started (s : state) : bool :=
  match loop s with LNotStarted => false | _ => true end.

Definition do_stop (c : cfg) (s : state) : option (state * list obs) :=
  match c_gen c with
  | V2 => Some (s <| stop_req := true |>, [])
  | V1 =>
      match phase_ s with
      | PStopped => Some (s, [OStopRet])
      | _ => Some (s <| phase_ := PStopped |>
                     <| stop_req := if loop_started s then true else stop_req s |>
                     <| stoppers := S (stoppers s) |>, [])
      end
  end.

Definition do_stop_ret (c : cfg) (s : state) : option (state * list obs) :=
  match c_gen c, stoppers s, loop s with
  | V1, S n, LNotStarted => Some (s <| stoppers := n |>, [OStopRet])
  | V1, S n, LExited => Some (s <| stoppers := n |>, [OStopRet])
  | _, _, _ => None
  end.

Definition do_setter (c : cfg) (s : state) : option (state * list obs) :=
  match c_gen c, phase_ s with
  | V2, PUninit => None              (* before Start the setters simply configure: not modelled as a step *)
  | V2, _ => Some (s, [OSetterPanic])
  | V1, _ => None
  end.

(* ---------- tickers ---------- *)

Definition get_ticker (s : state) (k : tick) : ticker :=
  match k with TkFlush => tk_flush s | TkCap => tk_cap s | TkAudit => tk_audit s end.

Definition set_ticker (s : state) (k : tick) (t : ticker) : state :=
  match k with
  | TkFlush => s <| tk_flush := t |>
  | TkCap => s <| tk_cap := t |>
  | TkAudit => s <| tk_audit := t |>
  end.

Definition interval_of (c : cfg) (k : tick) : Z :=
  match k with TkFlush => eff_flush c | TkCap => eff_capint c | TkAudit => eff_audit c end.

(* the runtime delivers a tick into the 1-slot channel, or drops it when the slot is taken *)
Definition do_tick (c : cfg) (s : state) (k : tick) : option (state * list obs) :=
  let t := get_ticker s k in
  if tickers_on s && (t_next t =? now s) then
    let s1 := match k with TkFlush => s <| g_flush_fired := S (g_flush_fired s) |> | _ => s end in
    Some (set_ticker s1 k (mkT (t_next t + interval_of c k) true), [])
  else None.

(* ---------- the processing loop ---------- *)

Definition loop_idle (s : state) : bool :=
  match loop s with LIdle => true | _ => false end.

(* where the loop is after raising an event whose listener keeps it busy for d *)
Definition after_event (s : state) (d : Z) : loopst := if 0 <? d then LBusy (now s + d) else LIdle.

Definition do_loop_unbusy (s : state) : option (state * list obs) :=
  match loop s with
  | LBusy t => if t =? now s then Some (s <| loop := LIdle |>, []) else None
  | _ => None
  end.

Definition do_loop_shutdown (c : cfg) (s : state) : option (state * list obs) :=
  if loop_idle s && stop_req s then
    let s1 := s <| loop := LExited |> <| tickers_on := false |> <| shut := true |>
                <| g_shutdowns := S (g_shutdowns s) |> in
    match c_gen c with
    | V2 =>
        (* buffer.shutdown(): list emptied, flag set, every waiter woken (Broadcast) *)
        Some (s1 <| buffer := [] |> <| cy_cur := None |> <| phase_ := PStopped |>
                 <| woken := woken s ++ waiting s |> <| waiting := [] |>
                 <| g_discarded := buffer s ++ g_discarded s |>, [OEvShutdown])
    | V1 =>
        (* close(r.buffer): blocked senders panic; the content stays in the closed channel *)
        Some (s1 <| waiting := [] |> <| g_failed := map o_id (waiting s) ++ g_failed s |>,
              map (fun o => OEnqRet (o_id o) RPanic) (waiting s) ++ [OEvShutdown])
    end
  else None.

Definition do_loop_pause (c : cfg) (s : state) : option (state * list obs) :=
  if loop_idle s && pause_tok s then
    Some (s <| pause_tok := false |> <| loop := LSleeping (now s + eff_pause c) |>,
          [OEvPause (eff_pause c / ms)])
  else None.

Definition do_loop_resume (s : state) : option (state * list obs) :=
  match loop s with
  | LSleeping t =>
      if t =? now s then
        let ph := match phase_ s with PPaused => PStarted | p => p end in
        match reacts_left s with
        | O => Some (s <| loop := LIdle |> <| phase_ := ph |>, [OEvResume])
        | S n =>
            (* a listener of the resume event has Pause() called from a goroutine of its own and waits for it:
               the phase is already back to started, so the call is accepted like any other *)
            match ph with
            | PStarted => Some (s <| loop := LIdle |> <| phase_ := PPaused |> <| pause_tok := true |> <| reacts_left := n |>, [OEvResume])
            | _ => Some (s <| loop := LIdle |> <| phase_ := ph |> <| reacts_left := n |>, [OEvResume])
            end
        end
      else None
  | _ => None
  end.

Definition idle_long_enough (c : cfg) (s : state) : bool :=
  match last_flush s with
  | None => true
  | Some t => eff_maxop c <? now s - t
  end.

Definition do_audit_check (c : cfg) (s : state) : option (state * list obs) :=
  if loop_idle s && t_pending (tk_audit s) then
    let s1 := s <| tk_audit := mkT (t_next (tk_audit s)) false |> in
    if (length (buffer s) =? 0)%nat && idle_long_enough c s then
      Some (s1 <| loop := LAuditPending |>, [])
    else Some (s1 <| loop := after_event s (c_busy_audit c) |>, [OEvAuditSkip])
  else None.

Definition do_audit_confirm (c : cfg) (s : state) : option (state * list obs) :=
  match loop s with
  | LAuditPending =>
      let tbad := 0 <? target s in
      let ibad := match c_gen c with V2 => (0 <? tokens s)%nat | V1 => false end in
      let s1 := s <| loop := after_event s (c_busy_audit c) |> <| target := 0 |>
                  <| tokens := match c_gen c with V2 => 0%nat | V1 => tokens s end |> in
      Some (s1, [if tbad || ibad then OEvAuditFail tbad ibad else OEvAuditPass])
  | _ => None
  end.

Definition do_loop_cap (c : cfg) (s : state) : option (state * list obs) :=
  if loop_idle s && t_pending (tk_cap s) then
    let s1 := s <| tk_cap := mkT (t_next (tk_cap s)) false |> in
    if c_limiter c then Some (s1 <| loop := after_event s (c_busy_cap c) |>, [OEvRequest (target s); OGiveMe (target s)])
    else Some (s1, [])
  else None.

Definition do_loop_flushtick (s : state) : option (state * list obs) :=
  if loop_idle s && t_pending (tk_flush s) then
    Some (s <| tk_flush := mkT (t_next (tk_flush s)) false |> <| flush_tok := true |>
            <| g_flush_ticks := S (g_flush_ticks s) |>, [])
  else None.

Definition head_cursor (s : state) : option nat :=
  match buffer s with [] => None | _ => Some 0%nat end.

Definition do_cycle_begin (c : cfg) (s : state) : option (state * list obs) :=
  if loop_idle s && flush_tok s then
    let s1 := s <| flush_tok := false |> <| loop := LCycle |> <| cy_consumed := 0 |>
                <| cy_open := [] |> <| cy_cur := head_cursor s |> <| g_taken := [] |>
                <| g_cycles := S (g_cycles s) |>
                <| cy_allow := if c_limiter c then allowance c (capacity_now s) else 0 |> in
    Some (s1, (match c_gen c with V2 => [OEvFlushStart] | V1 => [] end)
              ++ (if c_limiter c then [OCapRead] else []))
  else None.

(* processBatch / flush(): a non-empty batch leaves the loop *)
Definition raise (c : cfg) (s : state) (w : nat) (ops : list op) : state * list obs :=
  let b := mkB (next_bid s) w ops (now s) (now s + timeout_of c w) 0 false 0 false false in
  (s <| next_bid := S (next_bid s) |> <| batches := batches s ++ [b] |>
     <| last_flush := Some (now s) |> <| g_raised := (w, ops) :: g_raised s |>,
   [OEvBatch w (objs_of ops)]).

(* tryReserveBatchSlot: a non-blocking send on the inflight channel.  If a batch
   goroutine is blocked receiving from it (its token was drained by an audit), the
   send is handed to that goroutine directly and the channel stays empty *)
Definition try_reserve (c : cfg) (s : state) : option state :=
  if (c_maxconc c =? 0)%nat then Some s
  else match leaked s with
       | S n => Some (s <| leaked := n |>)
       | O => if (tokens s <? c_maxconc c)%nat then Some (s <| tokens := S (tokens s) |>) else None
       end.

Definition next_cursor (s : state) (i : nat) : option nat :=
  if (i <? length (buffer s))%nat then Some i else None.

(* put a removed operation into its batch (both generations) *)
Definition take_op (c : cfg) (s : state) (o : op) : state * list obs :=
  let s1 := s <| cy_consumed := (cy_consumed s + o_cost o) mod u32 |> <| g_taken := o :: g_taken s |> in
  if o_batchable o then
    let b := get_open (cy_open s1) (o_w o) ++ [o] in
    let mx := w_maxbatch (watcher c (o_w o)) in
    if (0 <? mx)%nat && (mx <=? length b)%nat then
      raise c (s1 <| cy_open := set_open (cy_open s1) (o_w o) [] |>) (o_w o) b
    else (s1 <| cy_open := set_open (cy_open s1) (o_w o) b |>, [])
  else raise c s1 (o_w o) [o].

(* notFull.Signal(): the longest-waiting blocked caller is woken *)
Definition signal_one (s : state) : state :=
  match waiting s with
  | [] => s
  | x :: r => s <| waiting := r |> <| woken := woken s ++ [x] |>
  end.

(* buffer.remove() at the cursor *)
Definition remove_at (s : state) (i : nat) : state :=
  let s2 := s <| buffer := remove_nth i (buffer s) |> in
  signal_one (s2 <| cy_cur := next_cursor s2 i |>).

Definition visit_v2 (c : cfg) (s : state) : option (state * list obs) :=
  match cy_cur s with
  | None => Some (s <| loop := LCycleEnd |>, [])
  | Some i =>
      match nth_error (buffer s) i with
      | None => Some (s <| loop := LCycleEnd |>, [])   (* unreachable: the cursor is valid *)
      | Some o =>
          if c_limiter c && (cy_allow s <=? cy_consumed s) then Some (s <| loop := LCycleEnd |>, [])
          else
            let needs_slot :=
              if o_batchable o then
                match get_open (cy_open s) (o_w o) with [] => true | _ => false end
              else true in
            let reserved := if needs_slot then try_reserve c s else Some s in
            match reserved with
            | None =>
                (* skip(): leave it, move the cursor on *)
                Some (s <| cy_cur := next_cursor s (S i) |>, [])
            | Some s1 =>
                (* remove(): unlink, signal one waiter, cursor stays on the successor *)
                Some (take_op c (remove_at s1 i) o)
            end
      end
  end.

Definition visit_v1 (c : cfg) (s : state) : option (state * list obs) :=
  if c_limiter c && (cy_allow s <? cy_consumed s) then Some (s <| loop := LCycleEnd |>, [])
  else
    match buffer s with
    | [] => Some (s <| loop := LCycleEnd |>, [])
    | o :: rest =>
        (* receive from the channel; a blocked sender's value moves in and that sender returns *)
        let '(s1, ret) :=
          match waiting s with
          | [] => (s <| buffer := rest |>, [])
          | x :: r => (s <| buffer := rest ++ [x] |> <| waiting := r |>
                         <| g_inserted := x :: g_inserted s |>, [OEnqRet (o_id x) ROk])
          end in
        let '(s2, ev) := take_op c s1 o in
        Some (s2, ret ++ ev)
    end.

Definition do_cycle_visit (c : cfg) (s : state) : option (state * list obs) :=
  match loop s with
  | LCycle => match c_gen c with V1 => visit_v1 c s | V2 => visit_v2 c s end
  | _ => None
  end.

Definition do_cycle_raise (c : cfg) (s : state) (w : nat) : option (state * list obs) :=
  match loop s with
  | LCycleEnd =>
      match get_open (cy_open s) w with
      | [] => None
      | ops => Some (raise c (s <| cy_open := set_open (cy_open s) w [] |>) w ops)
      end
  | _ => None
  end.

Definition open_empty (o : list (nat * list op)) : bool :=
  forallb (fun p => match snd p with [] => true | _ => false end) o.

Definition do_cycle_end (c : cfg) (s : state) : option (state * list obs) :=
  match loop s with
  | LCycleEnd =>
      if open_empty (cy_open s) then
        Some (s <| loop := match c_gen c with V2 => after_event s (c_busy_fd c) | V1 => LIdle end |>
                <| cy_open := [] |> <| cy_cur := None |>,
              match c_gen c with V2 => [OEvFlushDone] | V1 => [] end)
      else None
  | _ => None
  end.

(* ---------- batches in progress ---------- *)

(* all MakeAttempt calls of the batch goroutine are done *)
Definition b_started (b : batch) : bool := (length (b_ops b) <=? b_bumped b)%nat.

(* the batch goroutine calls MakeAttempt on its next operation *)
Definition do_batch_start (s : state) (id : nat) : option (state * list obs) :=
  match find_batch id (batches s) with
  | Some b =>
      match nth_error (b_ops b) (b_bumped b) with
      | Some o =>
          let b' := b <| b_bumped := S (b_bumped b) |> in
          Some (s <| attempts := bump_attempt (attempts s) (o_obj o) |>
                  <| batches := update_batch b' (batches s) |>, [])
      | None => None
      end
  | None => None
  end.

(* the callback goroutine enters ProcessBatch; the harness callback reads Attempt() of every operation *)
Definition do_cb_enter (s : state) (id : nat) : option (state * list obs) :=
  match find_batch id (batches s) with
  | Some b =>
      if b_started b && negb (b_entered b) then
        let d := match b_ops b with [] => 0 | o :: _ => o_dur o end in
        let b' := b <| b_entered := true |> <| b_ret_at := now s + d |> in
        Some (s <| batches := update_batch b' (batches s) |> <| g_started := id :: g_started s |>,
              [OCbStart (b_w b) (objs_of (b_ops b))
                        (map (fun o => get_attempt (attempts s) (o_obj o)) (b_ops b))])
      else None
  | None => None
  end.

Definition do_cb_return (s : state) (id : nat) : option (state * list obs) :=
  match find_batch id (batches s) with
  | Some b =>
      if b_entered b && negb (b_returned b) && (b_ret_at b =? now s) then
        let b' := b <| b_returned := true |> in
        Some (s <| batches := settle_batch b' (batches s) |>, [OCbRet (b_w b) (objs_of (b_ops b))])
      else None
  | None => None
  end.

Definition do_batch_done (c : cfg) (s : state) (id : nat) : option (state * list obs) :=
  match find_batch id (batches s) with
  | Some b =>
      if b_started b && negb (b_done b) && (b_returned b || (b_deadline b <=? now s)) then
        let b' := b <| b_done := true |> in
        let s1 := s <| target := target_sub (target s) (sum_cost_done (b_ops b)) |>
                    <| batches := settle_batch b' (batches s) |> in
        match c_gen c with
        | V1 => Some (s1, [])
        | V2 =>
            if (c_maxconc c =? 0)%nat then Some (s1, [])
            else match tokens s with
                 | O => Some (s1 <| leaked := S (leaked s) |>, [])  (* blocks on <-inflight *)
                 | S n => Some (s1 <| tokens := n |>, [])
                 end
        end
      else None
  | None => None
  end.

(* ---------- time ---------- *)

Definition zmin_opt (a : option Z) (b : Z) : option Z :=
  match a with None => Some b | Some x => Some (Z.min x b) end.

Definition batch_deadlines (acc : option Z) (b : batch) : option Z :=
  let acc1 := if b_entered b && negb (b_returned b) then zmin_opt acc (b_ret_at b) else acc in
  if b_started b && negb (b_done b) then zmin_opt acc1 (b_deadline b) else acc1.

(* the earliest instant at which something is due *)
Definition next_due (s : state) : option Z :=
  let d0 := if tickers_on s
            then Some (Z.min (t_next (tk_flush s)) (Z.min (t_next (tk_cap s)) (t_next (tk_audit s))))
            else None in
  let d1 := match loop s with LSleeping t | LBusy t => zmin_opt d0 t | _ => d0 end in
  fold_left batch_deadlines (batches s) d1.

(* all internal labels that could possibly be enabled in s *)
Definition candidates (c : cfg) (s : state) : list label :=
  map (fun p => IEnqInsert (o_id (fst p))) (counted s)
  ++ map (fun o => IEnqRetry (o_id o)) (woken s)
  ++ [IStopRet; ITick TkFlush; ITick TkCap; ITick TkAudit;
      ILoopShutdown; ILoopPause; ILoopResume; ILoopUnbusy; ILoopAuditCheck; ILoopAuditConfirm; ILoopCap;
      ILoopFlushTick; ICycleBegin; ICycleVisit; ICycleEnd]
  ++ map (fun p => ICycleRaise (fst p)) (cy_open s)
  ++ flat_map (fun b => [IBatchStart (b_id b); ICbEnter (b_id b); ICbReturn (b_id b); IBatchDone (b_id b)]) (batches s).

Definition is_internal (l : label) : bool :=
  match l with
  | AStart | APause | AFlush | AStop | AEnqueue _ | ARelease _ | ASetter | ASetCap _ | ASetMaxCap _
  | TAdvance _ => false
  | _ => true
  end.

Definition step_notime (c : cfg) (s : state) (l : label) : option (state * list obs) :=
  match l with
  | AStart => do_start c s
  | APause => do_pause s
  | AFlush => do_flush s
  | AStop => do_stop c s
  | AEnqueue e => do_enqueue c s e
  | ARelease id => do_release s id
  | ASetter => do_setter c s
  | ASetCap v => Some (s <| capacity_now := v |>, [])
  | ASetMaxCap v => Some (s <| maxcap_now := v |>, [])
  | IEnqInsert id => do_enq_insert c s id
  | IEnqRetry id => do_enq_retry c s id
  | IStopRet => do_stop_ret c s
  | ITick k => do_tick c s k
  | ILoopShutdown => do_loop_shutdown c s
  | ILoopPause => do_loop_pause c s
  | ILoopResume => do_loop_resume s
  | ILoopUnbusy => do_loop_unbusy s
  | ILoopAuditCheck => do_audit_check c s
  | ILoopAuditConfirm => do_audit_confirm c s
  | ILoopCap => do_loop_cap c s
  | ILoopFlushTick => do_loop_flushtick s
  | ICycleBegin => do_cycle_begin c s
  | ICycleVisit => do_cycle_visit c s
  | ICycleRaise w => do_cycle_raise c s w
  | ICycleEnd => do_cycle_end c s
  | IBatchStart b => do_batch_start s b
  | ICbEnter b => do_cb_enter s b
  | ICbReturn b => do_cb_return s b
  | IBatchDone b => do_batch_done c s b
  | TAdvance _ => None
  end.

(* nothing internal can happen: every goroutine is durably blocked *)
Definition quiescent (c : cfg) (s : state) : bool :=
  forallb (fun l => match step_notime c s l with None => true | Some _ => false end)
          (candidates c s).

Definition do_advance (c : cfg) (s : state) (t : Z) : option (state * list obs) :=
  if (now s <? t) && quiescent c s
     && match next_due s with None => true | Some d => t <=? d end
  then Some (s <| now := t |>, [])
  else None.

Definition step (c : cfg) (s : state) (l : label) : option (state * list obs) :=
  match l with
  | TAdvance t => do_advance c s t
  | _ => step_notime c s l
  end.

(* a run: fold of step over a label list, collecting observations *)
Fixpoint run (c : cfg) (s : state) (ls : list label) : option (state * list obs) :=
  match ls with
  | [] => Some (s, [])
  | l :: r =>
      match step c s l with
      | None => None
      | Some (s1, o1) =>
          match run c s1 r with
          | None => None
          | Some (s2, o2) => Some (s2, o1 ++ o2)
          end
      end
  end.

(* the getters *)
Definition needs_capacity (s : state) : Z := target s.
Definition ops_in_buffer (c : cfg) (s : state) : nat := length (buffer s).
Definition inflight (s : state) : nat := tokens s.
