(* Model/Eventer.v — the event API (eventer.go, v2/eventer.go): a map of listeners under a
   reader/writer lock.  AddListener / RemoveListener change the map under the write lock, so
   atomically with respect to everything and only while no emit is in progress; emit iterates
   the map under the read lock, calling each listener once.  Calls are bracketed by their
   begin / end so that "registered before the event was raised" and "after RemoveListener has
   returned" can be said.  No proofs in this file. *)
From Coq Require Import List Bool Arith.
Import ListNotations.

Record estate := mkE {
  e_listeners : list nat;              (* the map's keys *)
  e_emits : list (nat * list nat);     (* emits in progress: event number, listeners already called *)
  e_added : list nat;                  (* ghost: every listener ever inserted (uuids are fresh) *)
  e_removed : list nat;                (* ghost: listeners whose removal has taken effect *)
  e_log : list (nat * nat)             (* ghost: every delivery (event, listener), newest first *)
}.

Definition einit : estate := mkE [] [] [] [] [].

Inductive elabel :=
| EDoAdd (l : nat)        (* the insertion, under the write lock *)
| EDoRemove (l : nat)     (* the deletion, under the write lock *)
| EEmitLock (e : nat)     (* emit takes the read lock *)
| EDeliver (e l : nat)    (* emit calls listener l *)
| EEmitUnlock (e : nat).  (* emit has called every listener and releases the lock *)

Definition memb (x : nat) (l : list nat) : bool := existsb (Nat.eqb x) l.

Fixpoint get_emit (es : list (nat * list nat)) (e : nat) : option (list nat) :=
  match es with
  | [] => None
  | (k, d) :: r => if Nat.eqb k e then Some d else get_emit r e
  end.

Fixpoint set_emit (es : list (nat * list nat)) (e : nat) (d : list nat) : list (nat * list nat) :=
  match es with
  | [] => []
  | (k, d0) :: r => if Nat.eqb k e then (k, d) :: r else (k, d0) :: set_emit r e d
  end.

Fixpoint del_emit (es : list (nat * list nat)) (e : nat) : list (nat * list nat) :=
  match es with
  | [] => []
  | (k, d0) :: r => if Nat.eqb k e then r else (k, d0) :: del_emit r e
  end.

Definition estep (s : estate) (l : elabel) : option estate :=
  match l with
  | EDoAdd x =>
      (* the write lock needs every reader gone; the id is a fresh uuid *)
      match e_emits s with
      | [] => if memb x (e_added s) then None
              else Some (mkE (x :: e_listeners s) [] (x :: e_added s) (e_removed s) (e_log s))
      | _ => None
      end
  | EDoRemove x =>
      match e_emits s with
      | [] => Some (mkE (filter (fun y => negb (Nat.eqb y x)) (e_listeners s)) [] (e_added s)
                        (if memb x (e_listeners s) then x :: e_removed s else e_removed s) (e_log s))
      | _ => None
      end
  | EEmitLock e =>
      match get_emit (e_emits s) e with
      | None => Some (mkE (e_listeners s) ((e, []) :: e_emits s) (e_added s) (e_removed s) (e_log s))
      | Some _ => None
      end
  | EDeliver e x =>
      match get_emit (e_emits s) e with
      | Some d => if memb x (e_listeners s) && negb (memb x d)
                  then Some (mkE (e_listeners s) (set_emit (e_emits s) e (x :: d)) (e_added s) (e_removed s)
                                 ((e, x) :: e_log s))
                  else None
      | None => None
      end
  | EEmitUnlock e =>
      match get_emit (e_emits s) e with
      | Some d => if forallb (fun x => memb x d) (e_listeners s)
                  then Some (mkE (e_listeners s) (del_emit (e_emits s) e) (e_added s) (e_removed s) (e_log s))
                  else None
      | None => None
      end
  end.

Fixpoint erun (s : estate) (ls : list elabel) : option estate :=
  match ls with
  | [] => Some s
  | l :: r => match estep s l with Some s' => erun s' r | None => None end
  end.
