(* Model/Store.v — N shared-resource instances on one lease store.

   The store is what the Azure Blob lease gives (an assumption, listed in the trusted
   base): a lease on a partition is granted only if no lease on it is unexpired, it lasts
   [lease] from the instant of the grant, and the grant instant lies inside the call that
   asked for it.  Faults (refusals, errors, slow calls) are further labels. *)
From Coq Require Import List ZArith Bool Lia.
From RecordUpdate Require Import RecordUpdate.
From GB Require Import Model.Allowance Model.Batcher Model.Shared.
Import ListNotations.
Open Scope Z_scope.

Definition lease : Z := lease_seconds * sec.

Record sys := mkSys {
  y_now : Z;
  y_insts : list sstate;                 (* the instances *)
  y_store : list (nat * nat * Z);        (* leases ever granted and not superseded: partition, holder, expiry *)
  y_pending : list (nat * option Z)      (* per call in flight (by instance): the store's decision: None = no lease, Some E = granted until E *)
}.

#[export] Instance eta_sys : Settable _ := settable! mkSys <y_now; y_insts; y_store; y_pending>.

Fixpoint store_get (st : list (nat * nat * Z)) (p : nat) : option (nat * Z) :=
  match st with
  | [] => None
  | (q, i, e) :: r => if Nat.eqb p q then Some (i, e) else store_get r p
  end.

Definition store_set (st : list (nat * nat * Z)) (p i : nat) (e : Z) : list (nat * nat * Z) :=
  (p, i, e) :: st.

Fixpoint pending_get (l : list (nat * option Z)) (i : nat) : option (option Z) :=
  match l with
  | [] => None
  | (j, d) :: r => if Nat.eqb i j then Some d else pending_get r i
  end.

Fixpoint pending_del (l : list (nat * option Z)) (i : nat) : list (nat * option Z) :=
  match l with
  | [] => []
  | (j, d) :: r => if Nat.eqb i j then pending_del r i else (j, d) :: pending_del r i
  end.

Inductive ylabel :=
| YInst (i : nat) (l : slabel)   (* instance i takes a step of its own (not a lease return, not time) *)
| YDecide (i : nat)              (* the store decides the call instance i has in flight *)
| YFault (i : nat)               (* that call fails (refused by a fault, error, cancellation) *)
| YReturn (i : nat)              (* the call returns to instance i with the decision *)
| YTime (t : Z).                 (* time passes for everybody *)

Definition own_label (l : slabel) : bool :=
  match l with SILeaseRet _ | STime _ => false | _ => true end.

Definition upd {A} (l : list A) (i : nat) (x : A) : list A := set_nth i x l.

Definition calling (s : sstate) : option (nat * Z) :=
  match s_loop s with SCalling p t => Some (p, t) | _ => None end.

Fixpoint advance_all (c : scfg) (t : Z) (l : list sstate) : option (list sstate) :=
  match l with
  | [] => Some []
  | s :: r => match sstep c s (STime t), advance_all c t r with
              | Some (s', _), Some r' => Some (s' :: r')
              | _, _ => None
              end
  end.

Definition ystep (c : scfg) (y : sys) (l : ylabel) : option sys :=
  match l with
  | YInst i sl =>
      if own_label sl then
        match nth_error (y_insts y) i with
        | Some s => match sstep c s sl with
                    | Some (s', _) => Some (y <| y_insts := upd (y_insts y) i s' |>)
                    | None => None
                    end
        | None => None
        end
      else None
  | YDecide i =>
      match nth_error (y_insts y) i, pending_get (y_pending y) i with
      | Some s, None =>
          match calling s with
          | Some (p, _) =>
              match store_get (y_store y) p with
              | Some (_, e) =>
                  if e <=? y_now y
                  then Some (y <| y_store := store_set (y_store y) p i (y_now y + lease) |>
                               <| y_pending := (i, Some (y_now y + lease)) :: y_pending y |>)
                  else Some (y <| y_pending := (i, None) :: y_pending y |>)
              | None => Some (y <| y_store := store_set (y_store y) p i (y_now y + lease) |>
                                <| y_pending := (i, Some (y_now y + lease)) :: y_pending y |>)
              end
          | None => None
          end
      | _, _ => None
      end
  | YFault i =>
      match nth_error (y_insts y) i, pending_get (y_pending y) i with
      | Some s, None => match calling s with
                        | Some _ => Some (y <| y_pending := (i, None) :: y_pending y |>)
                        | None => None
                        end
      | _, _ => None
      end
  | YReturn i =>
      match nth_error (y_insts y) i, pending_get (y_pending y) i with
      | Some s, Some d =>
          match sstep c s (SILeaseRet (match d with Some _ => lease | None => 0 end)) with
          | Some (s', _) => Some (y <| y_insts := upd (y_insts y) i s' |> <| y_pending := pending_del (y_pending y) i |>)
          | None => None
          end
      | _, _ => None
      end
  | YTime t =>
      if y_now y <=? t then
        match advance_all c t (y_insts y) with
        | Some l' => Some (y <| y_now := t |> <| y_insts := l' |>)
        | None => None
        end
      else None
  end.

Fixpoint yrun (c : scfg) (y : sys) (ls : list ylabel) : option sys :=
  match ls with
  | [] => Some y
  | l :: r => match ystep c y l with Some y' => yrun c y' r | None => None end
  end.

Definition yinit (c : scfg) (cfgs : list (Z * Z)) : sys :=
  mkSys 0 (map (fun rs => sinit c (fst rs) (snd rs)) cfgs) [] [].
