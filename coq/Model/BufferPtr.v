(* Model/BufferPtr.v — the v2 buffer at pointer level (v2/buffer.go): a doubly linked list with head,
   tail and cursor pointers, a length counter, a capacity and a shutdown flag.  Addresses are natural
   numbers, the heap is a total map from addresses to cells, allocation takes a fresh address.  The
   abstract buffer (a list with a cursor index) is what Model/Batcher.v uses; Proofs/BufferRefine.v
   proves that every pointer-level operation refines its abstract counterpart.  Blocking (sync.Cond) is
   not part of this level: a full buffer in blocking mode is reported as RBufWouldBlock. *)
From Coq Require Import List Arith Bool Lia.
Import ListNotations.

Record cell := mkCell { c_prv : option nat; c_op : nat; c_nxt : option nat }.

Definition heap := nat -> cell.
Definition upd (h : heap) (a : nat) (c : cell) : heap := fun x => if Nat.eqb x a then c else h x.

Record pbuf := mkP {
  p_heap : heap;
  p_next : nat;            (* next fresh address *)
  p_len : nat;
  p_cap : nat;
  p_head : option nat;
  p_tail : option nat;
  p_cursor : option nat;
  p_shut : bool
}.

Definition pinit (cap : nat) : pbuf :=
  mkP (fun _ => mkCell None 0 None) 0 0 cap None None None false.

Definition op_at (h : heap) (a : option nat) : option nat :=
  match a with Some x => Some (c_op (h x)) | None => None end.

Inductive pres :=
| RBufOp (o : option nat)     (* top / skip / remove: the operation at the new cursor, nil if none *)
| RBufOk                     (* enqueue succeeded / shutdown *)
| RBufFull | RBufShut            (* BufferFullError / BufferIsShutdown *)
| RBufWouldBlock              (* full buffer in blocking mode: the caller would wait on notFull *)
| RBufPanic.                  (* the two "coding error" panics *)

Definition ptop (b : pbuf) : pbuf * pres :=
  let b' := mkP (p_heap b) (p_next b) (p_len b) (p_cap b) (p_head b) (p_tail b) (p_head b) (p_shut b) in
  (b', RBufOp (op_at (p_heap b) (p_head b))).

Definition pskip (b : pbuf) : pbuf * pres :=
  match p_cursor b with
  | None => (b, RBufOp None)
  | Some c =>
      let n := c_nxt (p_heap b c) in
      (mkP (p_heap b) (p_next b) (p_len b) (p_cap b) (p_head b) (p_tail b) n (p_shut b), RBufOp (op_at (p_heap b) n))
  end.

Definition set_nxt (h : heap) (a : nat) (v : option nat) : heap :=
  upd h a (mkCell (c_prv (h a)) (c_op (h a)) v).
Definition set_prv (h : heap) (a : nat) (v : option nat) : heap :=
  upd h a (mkCell v (c_op (h a)) (c_nxt (h a))).

Definition premove (b : pbuf) : pbuf * pres :=
  match p_cursor b with
  | None => (b, RBufOp None)
  | Some c =>
      let h := p_heap b in
      let '(h', head', tail', cur') :=
        match c_prv (h c), c_nxt (h c) with
        | Some p, Some n => (set_prv (set_nxt h p (Some n)) n (Some p), p_head b, p_tail b, Some n)
        | Some p, None => (set_nxt h p None, p_head b, Some p, None)
        | None, Some n => (set_prv h n None, Some n, p_tail b, Some n)
        | None, None => (h, None, None, None)
        end in
      match p_len b with
      | O => (mkP h' (p_next b) 0 (p_cap b) head' tail' cur' (p_shut b), RBufPanic)
      | S l => (mkP h' (p_next b) l (p_cap b) head' tail' cur' (p_shut b), RBufOp (op_at h' cur'))
      end
  end.

Definition penqueue (b : pbuf) (x : nat) (error_on_full : bool) : pbuf * pres :=
  if p_shut b then (b, RBufShut)
  else if p_cap b <=? p_len b then (b, if error_on_full then RBufFull else RBufWouldBlock)
  else
    let a := p_next b in
    match p_head b, p_tail b with
    | None, _ =>
        (mkP (upd (p_heap b) a (mkCell None x None)) (S a) (S (p_len b)) (p_cap b) (Some a) (Some a) (p_cursor b) (p_shut b), RBufOk)
    | Some _, None => (b, RBufPanic)
    | Some _, Some t =>
        let h1 := upd (p_heap b) a (mkCell (Some t) x None) in
        (mkP (set_nxt h1 t (Some a)) (S a) (S (p_len b)) (p_cap b) (p_head b) (Some a) (p_cursor b) (p_shut b), RBufOk)
    end.

Definition pshutdown (b : pbuf) : pbuf * pres :=
  (mkP (p_heap b) (p_next b) 0 (p_cap b) None None None true, RBufOk).

Definition psize (b : pbuf) : nat := p_len b.

(* ---------------- the abstract buffer: a list and a cursor index ---------------- *)

Record abuf := mkA { a_items : list nat; a_cur : option nat; a_cap : nat; a_shut : bool }.

Definition ainit (cap : nat) : abuf := mkA [] None cap false.

Definition cur_op (l : list nat) (c : option nat) : option nat :=
  match c with Some i => nth_error l i | None => None end.

Definition norm_cur (l : list nat) (i : nat) : option nat := if i <? length l then Some i else None.

Fixpoint remove_nth {A} (n : nat) (l : list A) : list A :=
  match n, l with
  | _, [] => []
  | O, _ :: r => r
  | S n', x :: r => x :: remove_nth n' r
  end.

Definition atop (b : abuf) : abuf * pres :=
  let c := norm_cur (a_items b) 0 in
  (mkA (a_items b) c (a_cap b) (a_shut b), RBufOp (cur_op (a_items b) c)).

Definition askip (b : abuf) : abuf * pres :=
  match a_cur b with
  | None => (b, RBufOp None)
  | Some i => let c := norm_cur (a_items b) (S i) in
              (mkA (a_items b) c (a_cap b) (a_shut b), RBufOp (cur_op (a_items b) c))
  end.

Definition aremove (b : abuf) : abuf * pres :=
  match a_cur b with
  | None => (b, RBufOp None)
  | Some i => let l := remove_nth i (a_items b) in
              let c := norm_cur l i in
              (mkA l c (a_cap b) (a_shut b), RBufOp (cur_op l c))
  end.

Definition aenqueue (b : abuf) (x : nat) (error_on_full : bool) : abuf * pres :=
  if a_shut b then (b, RBufShut)
  else if a_cap b <=? length (a_items b) then (b, if error_on_full then RBufFull else RBufWouldBlock)
  else (mkA (a_items b ++ [x]) (a_cur b) (a_cap b) (a_shut b), RBufOk).

Definition ashutdown (b : abuf) : abuf * pres := (mkA [] None (a_cap b) true, RBufOk).

(* a small command language, for running both levels on the same sequence *)
Inductive bcmd := BTop | BSkip | BRemove | BEnqueue (x : nat) (e : bool) | BShutdown.

Definition prun1 (b : pbuf) (c : bcmd) : pbuf * pres :=
  match c with
  | BTop => ptop b | BSkip => pskip b | BRemove => premove b
  | BEnqueue x e => penqueue b x e | BShutdown => pshutdown b
  end.

Definition arun1 (b : abuf) (c : bcmd) : abuf * pres :=
  match c with
  | BTop => atop b | BSkip => askip b | BRemove => aremove b
  | BEnqueue x e => aenqueue b x e | BShutdown => ashutdown b
  end.

Fixpoint prun (b : pbuf) (cs : list bcmd) : list (pres * nat) :=
  match cs with
  | [] => []
  | c :: r => let '(b', res) := prun1 b c in (res, psize b') :: prun b' r
  end.

Fixpoint arun (b : abuf) (cs : list bcmd) : list (pres * nat) :=
  match cs with
  | [] => []
  | c :: r => let '(b', res) := arun1 b c in (res, length (a_items b')) :: arun b' r
  end.

(* decidable comparison of recorded results, for evaluating recorded cases inside Coq (vm_compute) *)
Definition opt_nat_eqb (a b : option nat) : bool :=
  match a, b with Some x, Some y => Nat.eqb x y | None, None => true | _, _ => false end.

Definition pres_eqb (a b : pres) : bool :=
  match a, b with
  | RBufOp x, RBufOp y => opt_nat_eqb x y
  | RBufOk, RBufOk | RBufFull, RBufFull | RBufShut, RBufShut | RBufWouldBlock, RBufWouldBlock | RBufPanic, RBufPanic => true
  | _, _ => false
  end.

Fixpoint results_eqb (l1 l2 : list (pres * nat)) : bool :=
  match l1, l2 with
  | [], [] => true
  | (r1, n1) :: t1, (r2, n2) :: t2 => pres_eqb r1 r2 && Nat.eqb n1 n2 && results_eqb t1 t2
  | _, _ => false
  end.

(* a recorded case: capacity, commands, what the real buffer answered *)
Definition case_ok (c : nat * list bcmd * list (pres * nat)) : bool :=
  let '(cap, cs, expected) := c in results_eqb (prun (pinit cap) cs) expected.
