(* Proofs/AuditInv.v — what the audit finds (C19).

   healthy c : no watcher sets a MaxOperationTime longer than the Batcher's.
   DInv      : timed invariant — an unfinished batch is never past its deadline, and its deadline
               is at most MaxOperationTime after the last flush that raised something; while the
               loop is between the audit's test and its reset, the test still holds.
   Consequence: in a healthy Batcher the audit's reset finds no unfinished batch, so (with
   TargetInv) the only thing that can make it raise audit-fail on the target is an Enqueue call
   caught between its count and its insert (D7), or an operation whose cost changed (staleness). *)
From Coq Require Import List ZArith Bool Lia Permutation.
From RecordUpdate Require Import RecordUpdate.
From GB Require Import Model.Allowance Model.Batcher Proofs.Tactics Proofs.C01Inv Proofs.BatcherLocal
  Proofs.BatcherLocal2 Proofs.TargetInv Proofs.TokenInv.
Import ListNotations.
Open Scope Z_scope.

Definition healthy (c : cfg) : Prop := forall w, timeout_of c w <= eff_maxop c.

Definition dok (c : cfg) (nw : Z) (lf : option Z) (b : batch) : Prop :=
  b_done b = false -> nw <= b_deadline b /\ exists t, lf = Some t /\ b_deadline b <= t + eff_maxop c.

Definition DInv (c : cfg) (s : state) : Prop :=
  (forall t, last_flush s = Some t -> t <= now s)
  /\ Forall (dok c (now s) (last_flush s)) (batches s)
  /\ (loop s = LAuditPending -> idle_long_enough c s = true).

Lemma eff_maxop_pos c : 0 < eff_maxop c.
Proof. unfold eff_maxop, dflt, default_maxop, ms. destruct (c_maxop c <=? 0) eqn:E; [lia|apply Z.leb_gt in E; lia]. Qed.

Lemma timeout_pos c w : 0 < timeout_of c w.
Proof.
  unfold timeout_of. destruct (0 <? w_maxop (watcher c w)) eqn:E; [now apply Z.ltb_lt in E|apply eff_maxop_pos].
Qed.

Lemma forall_update (P : batch -> Prop) b' : forall l, Forall P l -> P b' -> Forall P (update_batch b' l).
Proof.
  induction l as [|a l IH]; intros F Pb; simpl; [constructor|].
  inversion F; subst. destruct (Nat.eqb (b_id a) (b_id b')); constructor; auto.
Qed.

Lemma forall_drop (P : batch -> Prop) id : forall l, Forall P l -> Forall P (drop_batch id l).
Proof.
  induction l as [|a l IH]; intros F; simpl; [constructor|].
  inversion F; subst. destruct (Nat.eqb (b_id a) id); [assumption|constructor; auto].
Qed.

Lemma forall_settle (P : batch -> Prop) b' l : Forall P l -> P b' -> Forall P (settle_batch b' l).
Proof. intros F Pb. unfold settle_batch. destruct (b_done b' && b_returned b'); [now apply forall_drop|now apply forall_update]. Qed.

Lemma raise_dinv c s w ops s' ev :
  healthy c -> DInv c s -> (loop s <> LAuditPending) -> raise c s w ops = (s', ev) -> DInv c s'.
Proof.
  intros HH (D1 & D2 & D3) NL H. unfold raise in H. inv H. unfold DInv. simpl. repeat split.
  - intros t E. inv E. lia.
  - apply Forall_app. split.
    + eapply Forall_impl; [|exact D2]. intros b Hb Hd. destruct (Hb Hd) as (B1 & t & B2 & B3).
      split; [exact B1|]. exists (now s). split; [reflexivity|]. specialize (D1 t B2). lia.
    + constructor; [|constructor]. intro. simpl. pose proof (timeout_pos c w). specialize (HH w).
      split; [lia|]. exists (now s). split; [reflexivity|lia].
  - intro X. contradiction.
Qed.

Lemma take_op_dinv c s o s' ev :
  healthy c -> DInv c s -> (loop s <> LAuditPending) -> take_op c s o = (s', ev) -> DInv c s'.
Proof.
  intros HH D NL H. unfold take_op in H.
  destruct (o_batchable o).
  - match type of H with (if ?b then _ else _) = _ => destruct b end.
    + refine (raise_dinv c _ _ _ _ _ HH _ _ H); [exact D|simpl; exact NL].
    + inv H. exact D.
  - refine (raise_dinv c _ _ _ _ _ HH _ _ H); [exact D|simpl; exact NL].
Qed.

Lemma remove_at_dfields s i :
  now (remove_at s i) = now s /\ batches (remove_at s i) = batches s
  /\ last_flush (remove_at s i) = last_flush s /\ loop (remove_at s i) = loop s.
Proof. unfold remove_at, signal_one. simpl. destruct (waiting s); simpl; repeat split; reflexivity. Qed.

Lemma try_reserve_dfields c s s' :
  try_reserve c s = Some s' ->
  now s' = now s /\ batches s' = batches s /\ last_flush s' = last_flush s /\ loop s' = loop s.
Proof. unfold try_reserve. intro H. cases_in H; some_inv H; simpl; repeat split; reflexivity. Qed.

Ltac dinv_same s :=
  match goal with D : DInv _ s |- _ =>
    let D1 := fresh in let D2 := fresh in let D3 := fresh in
    destruct D as (D1 & D2 & D3); unfold DInv, idle_long_enough in *; simpl in *;
    bool_hyps; unfold loop_idle in *;
    repeat split; try assumption; try (intro; congruence);
    try (destruct (loop s); try discriminate; try assumption; intro; congruence)
  end.

Lemma dinv_step c s l s' o :
  healthy c -> reachable c s -> DInv c s -> step c s l = Some (s', o) -> DInv c s'.
Proof.
  intros HH R D H.
  pose proof (batchinv_reachable c s R) as (ND & _).
  pose proof (keys_reachable c s R) as KI.
  destruct l; simpl in H; unfold_step H.
  all: try (cases_in H; try some_inv H; dinv_same s; fail).
  - (* visit *)
    apply visit_cases in H.
    destruct H as [EL [[H _]|[(_ & i & _ & H & _)|[(_ & i & o0 & s1 & _ & _ & _ & HR & HT)|(_ & o0 & rest & _ & _ & HT)]]]].
    + subst. destruct D as (D1 & D2 & D3). unfold DInv, idle_long_enough. simpl. repeat split; try assumption; try (intro; discriminate).
    + subst. destruct D as (D1 & D2 & D3). unfold DInv, idle_long_enough. simpl. repeat split; try assumption; try (intro; congruence).
    + refine (take_op_dinv c _ _ _ _ HH _ _ HT).
      * destruct (remove_at_dfields s1 i) as (F1 & F2 & F3 & F4).
        assert (G : now s1 = now s /\ batches s1 = batches s /\ last_flush s1 = last_flush s /\ loop s1 = loop s).
        { destruct HR as [HR|HR]; [subst; repeat split; reflexivity|exact (try_reserve_dfields _ _ _ HR)]. }
        destruct G as (G1 & G2 & G3 & G4). destruct D as (D1 & D2 & D3).
        unfold DInv, idle_long_enough. rewrite F1, F2, F3, F4, G1, G2, G3, G4. repeat split; assumption.
      * destruct (remove_at_dfields s1 i) as (_ & _ & _ & F4). rewrite F4.
        destruct HR as [HR|HR]; [subst; congruence|].
        destruct (try_reserve_dfields _ _ _ HR) as (_ & _ & _ & G4). congruence.
    + destruct HT as [[_ HT]|(x & r & ev' & _ & _ & HT)];
        (refine (take_op_dinv c _ _ _ _ HH _ _ HT); [|simpl; congruence]);
        destruct D as (D1 & D2 & D3); unfold DInv, idle_long_enough; simpl; repeat split; assumption.
  - (* cycle raise *)
    destruct (loop s) eqn:EL; try discriminate.
    destruct (get_open (cy_open s) w) as [|o1 l1] eqn:EG; [discriminate|].
    destruct (raise c (s <| cy_open := set_open (cy_open s) w [] |>) w (o1 :: l1)) as [s2 ev] eqn:ER.
    some_inv H. refine (raise_dinv c _ _ _ _ _ HH _ _ ER); [|simpl; congruence].
    destruct D as (D1 & D2 & D3); unfold DInv, idle_long_enough; simpl; repeat split; try assumption.
  - (* batch start *)
    destruct (find_batch b (batches s)) as [b0|] eqn:EF; [|discriminate].
    destruct (nth_error (b_ops b0) (b_bumped b0)); [|discriminate]. some_inv H.
    destruct D as (D1 & D2 & D3). unfold DInv, idle_long_enough. simpl. repeat split; try assumption.
    apply forall_update; [exact D2|]. destruct (find_batch_in _ _ _ EF) as [I _].
    rewrite Forall_forall in D2. exact (D2 _ I).
  - (* callback enter *)
    destruct (find_batch b (batches s)) as [b0|] eqn:EF; [|discriminate].
    destruct (b_started b0 && negb (b_entered b0)); [|discriminate]. some_inv H.
    destruct D as (D1 & D2 & D3). unfold DInv, idle_long_enough. simpl. repeat split; try assumption.
    apply forall_update; [exact D2|]. destruct (find_batch_in _ _ _ EF) as [I _].
    rewrite Forall_forall in D2. exact (D2 _ I).
  - (* callback return *)
    destruct (find_batch b (batches s)) as [b0|] eqn:EF; [|discriminate].
    destruct (b_entered b0 && negb (b_returned b0) && (b_ret_at b0 =? now s)); [|discriminate]. some_inv H.
    destruct D as (D1 & D2 & D3). unfold DInv, idle_long_enough. simpl. repeat split; try assumption.
    apply forall_settle; [exact D2|]. destruct (find_batch_in _ _ _ EF) as [I _].
    rewrite Forall_forall in D2. exact (D2 _ I).
  - (* batch done *)
    destruct (find_batch b (batches s)) as [b0|] eqn:EF; [|discriminate].
    destruct (b_started b0 && negb (b_done b0) && (b_returned b0 || (b_deadline b0 <=? now s))); [|discriminate].
    destruct D as (D1 & D2 & D3).
    assert (G : Forall (dok c (now s) (last_flush s)) (settle_batch (b0 <| b_done := true |>) (batches s))).
    { apply forall_settle; [exact D2|]. intro X. simpl in X. discriminate. }
    cases_in H; some_inv H; unfold DInv, idle_long_enough; simpl; repeat split; assumption.
  - (* time *)
    unfold do_advance in H.
    destruct ((now s <? t) && quiescent c s && match next_due s with None => true | Some d => t <=? d end) eqn:E; [|discriminate].
    some_inv H. bool_hyps. destruct D as (D1 & D2 & D3). unfold DInv, idle_long_enough. simpl.
    match goal with X : (now s <? t) = true |- _ => apply Z.ltb_lt in X end. repeat split.
    + intros t0 E0. specialize (D1 t0 E0). lia.
    + rewrite Forall_forall in *. intros b Hb Hd. destruct (D2 b Hb Hd) as (B1 & B2). split; [|exact B2].
      eapply next_due_deadline; eauto.
    + intro L. match goal with Q : quiescent c s = true |- _ =>
        destruct (quiescent_loop c s KI Q) as [X|[X|[(tt & X & _)|[X|(tt & X & _)]]]]; congruence end.
Qed.

Lemma dinv_init c : DInv c (init c).
Proof. unfold DInv. simpl. split; [intros; discriminate|]. split; [constructor|intro; discriminate]. Qed.

Theorem dinv_reachable c s : healthy c -> reachable c s -> DInv c s.
Proof.
  intro HH. apply reachable_inv; [apply dinv_init|].
  intros s0 l s1 o R HI HS. eapply dinv_step; eauto.
Qed.

(* in a healthy Batcher the audit's reset finds every raised batch finished *)
Theorem audit_finds_all_done c s :
  healthy c -> reachable c s -> loop s = LAuditPending -> forall b, In b (batches s) -> b_done b = true.
Proof.
  intros HH R L. destruct (dinv_reachable c s HH R) as (D1 & D2 & D3). specialize (D3 L).
  unfold idle_long_enough in D3.
  intros b I. destruct (b_done b) eqn:E; [reflexivity|]. exfalso.
  rewrite Forall_forall in D2. destruct (D2 b I E) as (B1 & t & B2 & B3). rewrite B2 in D3.
  apply Z.ltb_lt in D3. lia.
Qed.

Lemma all_done_filter (l : list batch) :
  (forall b, In b l -> b_done b = true) -> filter (fun b => negb (b_done b)) l = [].
Proof.
  induction l as [|b l IH]; intro G; [reflexivity|]. simpl.
  rewrite (G b (or_introl eq_refl)). simpl. apply IH. intros b2 I. apply G. now right.
Qed.

Theorem audit_finds_batches_finished c s :
  healthy c -> reachable c s -> loop s = LAuditPending -> undone (batches s) = [].
Proof.
  intros HH R L. unfold undone. now rewrite (all_done_filter _ (audit_finds_all_done c s HH R L)).
Qed.

(* ... so with nothing in the buffer and no Enqueue call in flight the demand figure is zero:
   the audit passes and changes nothing *)
Theorem healthy_audit_passes c s :
  healthy c -> creach c s -> loop s = LAuditPending ->
  counted s = [] -> waiting s = [] -> woken s = [] -> buffer s = [] -> g_discarded s = [] ->
  target s = 0.
Proof.
  intros HH R L E1 E2 E3 E4 E5.
  pose proof (creach_reachable c s R) as RR.
  rewrite (needs_capacity_exact c s R : target s = outstanding s). unfold outstanding, outs.
  rewrite E1, E2, E3, E4, E5, (audit_finds_batches_finished c s HH RR L).
  destruct (conserved_reachable c s RR) as (_ & HC & _).
  rewrite HC; [reflexivity|]. unfold in_cycle. now rewrite L.
Qed.

(* ---------------------------------------------------------------- the audit steps themselves *)

(* the test: consumes the tick; skip (nothing else changes) unless the buffer is empty and the
   last flush that raised something is more than MaxOperationTime ago *)
Lemma audit_check_effect c s s' o :
  step c s ILoopAuditCheck = Some (s', o) ->
  loop s = LIdle /\ t_pending (tk_audit s) = true /\ t_pending (tk_audit s') = false
  /\ target s' = target s /\ tokens s' = tokens s /\ buffer s' = buffer s /\ batches s' = batches s
  /\ ((o = [OEvAuditSkip] /\ loop s' = after_event s (c_busy_audit c) /\ (buffer s <> [] \/ idle_long_enough c s = false))
      \/ (o = [] /\ loop s' = LAuditPending /\ buffer s = [] /\ idle_long_enough c s = true)).
Proof.
  simpl. unfold do_audit_check. intro H.
  destruct (loop_idle s && t_pending (tk_audit s)) eqn:E; [|discriminate]. bool_hyps.
  unfold loop_idle in *. destruct (loop s) eqn:L; try discriminate.
  destruct ((length (buffer s) =? 0)%nat && idle_long_enough c s) eqn:E2; some_inv H; simpl;
    repeat (split; [try reflexivity; try assumption|]).
  - right. bool_hyps. repeat split; try assumption. destruct (buffer s); [reflexivity|discriminate].
  - left. repeat split; try assumption. apply andb_false_iff in E2. destruct E2 as [E2|E2]; [left|now right].
    destruct (buffer s); [discriminate|discriminate].
Qed.

(* the reset: pass exactly when both figures are zero, and then nothing changes; otherwise
   audit-fail names what was non-zero and both are zero afterwards (V1 has no slot count) *)
Lemma audit_confirm_effect c s s' o :
  step c s ILoopAuditConfirm = Some (s', o) ->
  loop s = LAuditPending /\ loop s' = after_event s (c_busy_audit c) /\ target s' = 0
  /\ (c_gen c = V2 -> tokens s' = 0%nat) /\ (c_gen c = V1 -> tokens s' = tokens s)
  /\ buffer s' = buffer s /\ batches s' = batches s /\ counted s' = counted s
  /\ let tbad := 0 <? target s in
     let ibad := match c_gen c with V2 => (0 <? tokens s)%nat | V1 => false end in
     o = [if tbad || ibad then OEvAuditFail tbad ibad else OEvAuditPass].
Proof.
  simpl. unfold do_audit_confirm. intro H. destruct (loop s) eqn:L; try discriminate.
  some_inv H. simpl. repeat split; try reflexivity; intro E; rewrite E; reflexivity.
Qed.

Lemma audit_pass_changes_nothing c s s' :
  0 <= target s -> step c s ILoopAuditConfirm = Some (s', [OEvAuditPass]) ->
  target s' = target s /\ tokens s' = tokens s.
Proof.
  intros N H. pose proof (audit_confirm_effect _ _ _ _ H) as (_ & _ & T & K2 & K1 & _ & _ & _ & O).
  simpl in O. destruct (0 <? target s) eqn:E1; simpl in O; [discriminate|].
  apply Z.ltb_ge in E1. split; [lia|].
  destruct (c_gen c) eqn:G; [now apply K1|].
  destruct (0 <? tokens s)%nat eqn:E2; simpl in O; [discriminate|]. apply Nat.ltb_ge in E2.
  rewrite (K2 eq_refl). lia.
Qed.

(* a stale figure is repaired: non-zero with the buffer empty and the loop idle for longer than
   MaxOperationTime -> the audit tick leads to a reset to zero with audit-fail *)
Theorem stale_target_is_reset c s s1 o1 :
  0 < target s -> buffer s = [] -> idle_long_enough c s = true ->
  step c s ILoopAuditCheck = Some (s1, o1) ->
  o1 = [] /\ exists s2, step c s1 ILoopAuditConfirm = Some (s2, [OEvAuditFail true (match c_gen c with V2 => (0 <? tokens s)%nat | V1 => false end)])
                       /\ target s2 = 0.
Proof.
  intros T B I H. pose proof (audit_check_effect _ _ _ _ H) as (_ & _ & _ & T1 & K1 & _ & _ & [(_ & _ & [X|X])|(O & L & _)]);
    try congruence.
  split; [exact O|]. simpl. unfold do_audit_confirm. rewrite L. eexists. split.
  - rewrite T1, K1. apply Z.ltb_lt in T. rewrite T. simpl. reflexivity.
  - reflexivity.
Qed.

(* audit events come from nowhere else *)
Lemma audit_events_only_from_audit c s l s' o x :
  step c s l = Some (s', o) -> In x o -> is_audit x = true -> l = ILoopAuditCheck \/ l = ILoopAuditConfirm.
Proof.
  intros H I A.
  destruct l; auto; exfalso; simpl in H; unfold_step H.
  all: try (cases_in H; try some_inv H; simpl in I; repeat (destruct I as [I|I]; [subst x; discriminate|]); try contradiction;
            try (apply in_app_or in I; destruct I as [I|I]; [apply in_map_iff in I; destruct I as (? & I & _); subst x; discriminate|
                 simpl in I; repeat (destruct I as [I|I]; [subst x; discriminate|]); contradiction]); fail).
  - (* visit *)
    destruct (visit_obs _ _ _ _ _ H I) as [(w & l & E)|(i & E)]; subst x; discriminate.
Qed.

(* ... and no slot is taken: Inflight() is zero at the reset (executions in which no earlier audit
   reset a non-zero slot count) *)
Theorem healthy_audit_inflight_zero c s :
  healthy c -> treach c s -> loop s = LAuditPending -> inflight s = 0%nat.
Proof.
  intros HH R L. pose proof (treach_reachable c s R) as RR.
  pose proof (tokinv_treach c s R) as T. unfold TokInv, in_progress in T.
  destruct (conserved_reachable c s RR) as (_ & HC & _).
  assert (O : nopen (cy_open s) = 0%nat) by (apply nopen_open_ops; apply HC; unfold in_cycle; now rewrite L).
  assert (N : nund (batches s) = 0%nat).
  { unfold nund. now rewrite (all_done_filter _ (audit_finds_all_done c s HH RR L)). }
  unfold inflight. destruct (c_gen c); [tauto|]. destruct (c_maxconc c); [tauto|]. lia.
Qed.
