(* Proofs/TargetInv.v — the demand figure (NeedsCapacity) equals the summed cost of the
   outstanding operations (C03), and what an audit can and cannot do to it (C19).

   outs s = the operations that have been counted by an Enqueue call and whose batch has not
   finished: callers between the count and the insert, callers blocked on a full buffer, the
   buffer, batches under construction, raised batches that are not done, and (V2) what the
   shutdown dropped from the buffer (their batch never finishes).

   The equation is an invariant of every step taken under [ok_step], which says, per label:
     - an enqueued operation reports the same non-negative cost when it is counted and when its
       batch finishes, and the total stays below 2^32 (the property's own side conditions);
     - an audit that decides to reset finds the figure already zero (it raises no failure on the
       target).  Without this the equation is false: see [d7_witness] — the audit's test of the
       buffer and its reset are not atomic with Enqueue's count and insert (finding D7);
     - V1 only: no Enqueue call panics on the closed channel (finding D2). *)
From Coq Require Import List ZArith Bool Lia Permutation.
From RecordUpdate Require Import RecordUpdate.
From GB Require Import Model.Allowance Model.Batcher Proofs.Tactics Proofs.C01Inv.
Import ListNotations.
Open Scope Z_scope.

Definition undone (l : list batch) : list op :=
  flat_map b_ops (filter (fun b => negb (b_done b)) l).

Definition outs (s : state) : list op :=
  map fst (counted s) ++ waiting s ++ woken s ++ buffer s ++ open_ops s ++ undone (batches s) ++ g_discarded s.

Definition okop (o : op) : Prop := o_cost_done o = o_cost o /\ 0 <= o_cost o.

Definition outstanding (s : state) : Z := sum_cost (outs s).

Definition TInv (s : state) : Prop := target s = outstanding s /\ Forall okop (outs s).

Definition ok_step (c : cfg) (s : state) (l : label) : Prop :=
  match l with
  | AEnqueue e => e_cost_done e = e_cost e /\ 0 <= e_cost e /\ outstanding s + e_cost e < u32
  | ILoopAuditConfirm => target s = 0
  | IEnqInsert _ => c_gen c = V1 -> shut s = false
  | ILoopShutdown => c_gen c = V1 -> waiting s = []
  | _ => True
  end.

(* executions all of whose steps are ok *)
Inductive creach (c : cfg) : state -> Prop :=
| cr_init : creach c (init c)
| cr_step s l s' o : creach c s -> ok_step c s l -> step c s l = Some (s', o) -> creach c s'.

Lemma creach_reachable c s : creach c s -> reachable c s.
Proof.
  induction 1 as [|s l s' o _ IH _ E]; [exists [], []; reflexivity|].
  eapply reachable_step; eauto.
Qed.

(* ---------------------------------------------------------------- sums *)

Lemma sum_cost_app l1 l2 : sum_cost (l1 ++ l2) = sum_cost l1 + sum_cost l2.
Proof. induction l1 as [|a l1 IH]; simpl; [reflexivity|]. unfold sum_cost in *. simpl. rewrite IH. lia. Qed.

Lemma sum_cost_cons a l : sum_cost (a :: l) = o_cost a + sum_cost l.
Proof. reflexivity. Qed.

Lemma sum_cost_perm l1 l2 : Permutation l1 l2 -> sum_cost l1 = sum_cost l2.
Proof.
  induction 1 as [| x l l' _ IH | x y l | l l' l'' _ IH1 _ IH2]; try reflexivity.
  - rewrite !sum_cost_cons. lia.
  - rewrite !sum_cost_cons. lia.
  - lia.
Qed.

Lemma okop_sum l : Forall okop l -> 0 <= sum_cost l /\ sum_cost_done l = sum_cost l.
Proof.
  induction 1 as [|a l [H1 H2] _ [IH1 IH2]]; [split; reflexivity|].
  rewrite sum_cost_cons. unfold sum_cost_done in *. simpl. rewrite IH2, H1. split; [lia|reflexivity].
Qed.

Lemma okop_in_le l o : Forall okop l -> In o l -> o_cost o <= sum_cost l.
Proof.
  induction 1 as [|a l [H1 H2] HF IH]; intros I; [destruct I|].
  rewrite sum_cost_cons. destruct I as [->|I].
  - destruct (okop_sum l HF). lia.
  - specialize (IH I). lia.
Qed.

(* a step that only moves operations between the places *)
Lemma moved s s' : Permutation (outs s') (outs s) -> target s' = target s -> TInv s -> TInv s'.
Proof.
  intros P T [H1 H2]. split.
  - unfold outstanding. rewrite T, H1. unfold outstanding. symmetry. now apply sum_cost_perm.
  - eapply Permutation_Forall; [symmetry; exact P|exact H2].
Qed.

(* a step that takes operations [gone] out and subtracts their cost *)
Lemma removed s s' gone v :
  Permutation (outs s) (gone ++ outs s') -> v = sum_cost gone -> target s' = target_sub (target s) v ->
  TInv s -> TInv s'.
Proof.
  intros P -> T [H1 H2].
  pose proof (Permutation_Forall P H2) as F. apply Forall_app in F. destruct F as [FG FS].
  split; [|exact FS].
  rewrite T, H1. unfold outstanding. rewrite (sum_cost_perm _ _ P), sum_cost_app.
  unfold target_sub. destruct (okop_sum _ FG), (okop_sum _ FS).
  destruct (sum_cost gone <=? sum_cost gone + sum_cost (outs s')) eqn:E; [lia|].
  apply Z.leb_gt in E. lia.
Qed.

(* ---------------------------------------------------------------- batches *)

Lemma undone_app l1 l2 : undone (l1 ++ l2) = undone l1 ++ undone l2.
Proof. unfold undone. now rewrite filter_app, flat_map_app. Qed.

Lemma update_batch_unfold b' a l :
  update_batch b' (a :: l) = if Nat.eqb (b_id a) (b_id b') then b' :: l else a :: update_batch b' l.
Proof. reflexivity. Qed.

Lemma undone_update : forall l id b b',
  find_batch id l = Some b -> b_id b' = id -> b_ops b' = b_ops b -> b_done b' = b_done b ->
  undone (update_batch b' l) = undone l.
Proof.
  induction l as [|a l IH]; intros id b b' F I O D; [reflexivity|].
  simpl in F. rewrite update_batch_unfold, I.
  destruct (Nat.eqb (b_id a) id) eqn:E.
  - inv F. unfold undone. simpl. rewrite D.
    destruct (negb (b_done b)); simpl; rewrite ?O; reflexivity.
  - pose proof (IH id b b' F I O D) as IH'. unfold undone in *. simpl.
    destruct (negb (b_done a)); simpl; rewrite IH'; reflexivity.
Qed.

Lemma undone_done : forall l id b b',
  find_batch id l = Some b -> b_done b = false -> b_id b' = id -> b_done b' = true ->
  Permutation (undone l) (b_ops b ++ undone (settle_batch b' l)).
Proof.
  intros l id b b' F D I D'. unfold settle_batch. rewrite D', I. simpl andb.
  revert F. induction l as [|a l IH]; intro F; [discriminate|].
  simpl in F. simpl drop_batch. rewrite update_batch_unfold, I.
  destruct (Nat.eqb (b_id a) id) eqn:E.
  - inv F. unfold undone. simpl. rewrite D. simpl.
    destruct (b_returned b'); simpl; [reflexivity|]. rewrite D'. simpl. reflexivity.
  - specialize (IH F). unfold undone in *.
    destruct (b_returned b'); simpl; destruct (negb (b_done a)); simpl; perm.
Qed.

Lemma undone_returned : forall l id b b',
  find_batch id l = Some b -> b_id b' = id -> b_ops b' = b_ops b -> b_done b' = b_done b ->
  undone (settle_batch b' l) = undone l.
Proof.
  intros l id b b' F I O D. unfold settle_batch. destruct (b_done b' && b_returned b') eqn:E.
  - apply andb_prop in E. destruct E as [E _]. rewrite D in E. rewrite I.
    revert F. induction l as [|a l IH]; intro F; [reflexivity|].
    simpl in F. simpl drop_batch.
    destruct (Nat.eqb (b_id a) id) eqn:E1.
    + inv F. unfold undone. simpl. rewrite E. reflexivity.
    + specialize (IH F). unfold undone in *. simpl. destruct (negb (b_done a)); simpl; now rewrite IH.
  - eapply undone_update; eauto.
Qed.

(* ---------------------------------------------------------------- frames *)

Lemma raise_outs c s w ops s' ev :
  raise c s w ops = (s', ev) ->
  target s' = target s /\ counted s' = counted s /\ waiting s' = waiting s /\ woken s' = woken s
  /\ buffer s' = buffer s /\ cy_open s' = cy_open s /\ g_discarded s' = g_discarded s
  /\ undone (batches s') = undone (batches s) ++ ops.
Proof.
  unfold raise. intro H. inv H. simpl. repeat (split; [reflexivity|]).
  rewrite undone_app. unfold undone at 2. simpl. now rewrite app_nil_r.
Qed.

Lemma take_op_outs c s o s' ev :
  take_op c s o = (s', ev) ->
  target s' = target s /\ counted s' = counted s /\ waiting s' = waiting s /\ woken s' = woken s
  /\ buffer s' = buffer s /\ g_discarded s' = g_discarded s
  /\ Permutation (open_ops s' ++ undone (batches s')) (o :: open_ops s ++ undone (batches s)).
Proof.
  unfold take_op, open_ops. intro H.
  destruct (o_batchable o).
  - match type of H with (if ?b then _ else _) = _ => destruct b end.
    + apply raise_outs in H. simpl in H.
      destruct H as (H1 & H2 & H3 & H4 & H5 & H6 & H7 & H8).
      rewrite H1, H2, H3, H4, H5, H6, H7, H8. repeat (split; [reflexivity|]).
      pose proof (set_open_perm (cy_open s) (o_w o) []) as P. simpl in P. perm.
    + inv H. simpl. repeat (split; [reflexivity|]).
      pose proof (set_open_perm (cy_open s) (o_w o) (get_open (cy_open s) (o_w o) ++ [o])) as P.
      perm.
  - apply raise_outs in H. simpl in H.
    destruct H as (H1 & H2 & H3 & H4 & H5 & H6 & H7 & H8).
    rewrite H1, H2, H3, H4, H5, H6, H7, H8. repeat (split; [reflexivity|]). perm.
Qed.

Lemma remove_at_outs s i :
  let s' := remove_at s i in
  target s' = target s /\ counted s' = counted s /\ buffer s' = remove_nth i (buffer s)
  /\ cy_open s' = cy_open s /\ g_discarded s' = g_discarded s /\ batches s' = batches s
  /\ Permutation (waiting s' ++ woken s') (waiting s ++ woken s).
Proof.
  unfold remove_at, signal_one. simpl. destruct (waiting s) eqn:E; simpl; rewrite ?E;
    repeat (split; [reflexivity|]).
  - reflexivity.
  - perm.
Qed.

Lemma try_reserve_outs c s s' :
  try_reserve c s = Some s' ->
  target s' = target s /\ counted s' = counted s /\ waiting s' = waiting s /\ woken s' = woken s
  /\ buffer s' = buffer s /\ cy_open s' = cy_open s /\ g_discarded s' = g_discarded s
  /\ batches s' = batches s.
Proof. unfold try_reserve. intro H. cases_in H; some_inv H; simpl; repeat split; reflexivity. Qed.

Lemma find_call_perm_ops : forall id l o h,
  find_call id l = Some (o, h) -> Permutation (map fst l) (o :: map fst (remove_call id l)).
Proof.
  induction l as [|[o1 h1] l IH]; intros o h H; simpl in *; [discriminate|].
  destruct (Nat.eqb (o_id o1) id) eqn:E.
  - inv H. reflexivity.
  - rewrite (IH _ _ H). apply perm_swap.
Qed.

Lemma find_op_perm_ops : forall id l o,
  find_op id l = Some o -> Permutation l (o :: remove_op id l).
Proof.
  induction l as [|o1 l IH]; intros o H; simpl in *; [discriminate|].
  destruct (Nat.eqb (o_id o1) id) eqn:E.
  - inv H. reflexivity.
  - rewrite (IH _ H) at 1. apply perm_swap.
Qed.

Lemma release_ops : forall id l,
  map fst (map (fun p : op * bool => if Nat.eqb (o_id (fst p)) id then (fst p, false) else p) l) = map fst l.
Proof.
  induction l as [|[o h] l IH]; simpl; [reflexivity|].
  destruct (Nat.eqb (o_id o) id); simpl; now rewrite IH.
Qed.

(* ---------------------------------------------------------------- the invariant *)

Ltac same_outs s :=
  apply (moved s); [unfold outs, open_ops; simpl; try reflexivity | simpl; try reflexivity | assumption].

Lemma tinv_step c s l s' o :
  Conserved s -> TInv s -> ok_step c s l -> step c s l = Some (s', o) -> TInv s'.
Proof.
  intros (_ & HC & _) HI OK H.
  destruct l; simpl in H; unfold_step H.
  all: try (cases_in H; try some_inv H; same_outs s; fail).
  - (* enqueue *)
    destruct OK as (O1 & O2 & O3). destruct HI as [H1 H2].
    destruct (validate c s e) as [w|r].
    + some_inv H. split.
      * unfold outstanding, outs, open_ops in *. simpl. rewrite H1.
        rewrite map_app. simpl. rewrite <- !app_assoc. simpl.
        rewrite !sum_cost_app in *. rewrite sum_cost_cons. rewrite !sum_cost_app. simpl.
        pose proof (okop_sum _ H2) as [N _]. unfold outs, open_ops in N. rewrite !sum_cost_app in N.
        unfold target_add. rewrite Z.mod_small; lia.
      * unfold outs, open_ops in *. simpl. rewrite map_app. simpl.
        apply Forall_app in H2. destruct H2 as [F1 F2].
        rewrite <- app_assoc. apply Forall_app. split; [exact F1|].
        simpl. constructor; [split; simpl; assumption|exact F2].
    + some_inv H. apply (moved s); [reflexivity|reflexivity|split; assumption].
  - (* release *)
    cases_in H; some_inv H; try (same_outs s; fail).
    apply (moved s); [|reflexivity|assumption]. unfold outs, open_ops. simpl. now rewrite release_ops.
  - (* insert *)
    destruct (find_call call (counted s)) as [[o1 h]|] eqn:EF; [|discriminate].
    destruct h; [discriminate|].
    pose proof (find_call_perm_ops _ _ _ _ EF) as PC.
    destruct (shut s) eqn:ES.
    + destruct (c_gen c) eqn:EG.
      * simpl in OK. specialize (OK EG). congruence.
      * some_inv H. eapply (removed s _ [o1]); [| reflexivity | simpl; f_equal; unfold sum_cost; simpl; lia | assumption].
        unfold outs, open_ops. simpl. perm.
    + cases_in H; some_inv H.
      * apply (moved s); [|reflexivity|assumption]. unfold outs, open_ops. simpl. perm.
      * eapply (removed s _ [o1]); [| reflexivity | simpl; f_equal; unfold sum_cost; simpl; lia | assumption].
        unfold outs, open_ops. simpl. perm.
      * apply (moved s); [|reflexivity|assumption]. unfold outs, open_ops. simpl. perm.
  - (* retry *)
    destruct (c_gen c); [discriminate|].
    destruct (find_op call (woken s)) as [o1|] eqn:EF; [|discriminate].
    pose proof (find_op_perm_ops _ _ _ EF) as PC.
    cases_in H; some_inv H.
    + eapply (removed s _ [o1]); [| reflexivity | simpl; f_equal; unfold sum_cost; simpl; lia | assumption].
      unfold outs, open_ops. simpl. perm.
    + apply (moved s); [|reflexivity|assumption]. unfold outs, open_ops. simpl. perm.
    + apply (moved s); [|reflexivity|assumption]. unfold outs, open_ops. simpl. perm.
  - (* shutdown *)
    cases_in H; some_inv H.
    + simpl in OK. match goal with E : c_gen c = V1 |- _ => specialize (OK E) end. apply (moved s); [|reflexivity|assumption].
      unfold outs, open_ops. simpl. rewrite OK. reflexivity.
    + apply (moved s); [|reflexivity|assumption]. unfold outs, open_ops. simpl. perm.
  - (* audit confirm *)
    simpl in OK. cases_in H; some_inv H.
    all: destruct HI as [H1 H2]; split; [|exact H2]; unfold outstanding, outs, open_ops in *; simpl; rewrite <- H1; symmetry; exact OK.
  - (* cycle begin *)
    assert (EO : open_ops s = []).
    { apply HC. unfold in_cycle, loop_idle in *. destruct (loop s); try reflexivity; simpl in H; discriminate. }
    cases_in H; some_inv H; (apply (moved s); [|reflexivity|assumption]); unfold outs; rewrite EO; unfold open_ops; simpl; reflexivity.
  - (* visit *)
    unfold do_cycle_visit in H. destruct (loop s) eqn:EL; try discriminate.
    destruct (c_gen c).
    + unfold visit_v1 in H.
      destruct (c_limiter c && (cy_allow s <? cy_consumed s))%Z.
      { some_inv H. same_outs s. }
      destruct (buffer s) as [|o0 rest] eqn:EB.
      { some_inv H. same_outs s. }
      destruct (waiting s) as [|x r] eqn:EW.
      * destruct (take_op c (s <| buffer := rest |>) o0) as [s2 ev] eqn:ET. some_inv H.
        apply take_op_outs in ET. simpl in ET.
        destruct ET as (T1 & T2 & T3 & T4 & T5 & T6 & TP).
        apply (moved s); [|exact T1|assumption].
        unfold outs. rewrite T2, T3, T4, T5, T6, EB, EW. unfold open_ops in *. simpl in TP. perm.
      * destruct (take_op c (s <| buffer := rest ++ [x] |> <| waiting := r |>
                               <| g_inserted := x :: g_inserted s |>) o0) as [s2 ev] eqn:ET.
        some_inv H. apply take_op_outs in ET. simpl in ET.
        destruct ET as (T1 & T2 & T3 & T4 & T5 & T6 & TP).
        apply (moved s); [|exact T1|assumption].
        unfold outs. rewrite T2, T3, T4, T5, T6, EB, EW. unfold open_ops in *. simpl in TP. perm.
    + unfold visit_v2 in H.
      destruct (cy_cur s) as [i|] eqn:EC.
      2:{ some_inv H. same_outs s. }
      destruct (nth_error (buffer s) i) as [o0|] eqn:EN.
      2:{ some_inv H. same_outs s. }
      destruct (c_limiter c && (cy_allow s <=? cy_consumed s))%Z.
      { some_inv H. same_outs s. }
      match type of H with match ?r with _ => _ end = _ => destruct r as [s1|] eqn:ER end.
      2:{ some_inv H. same_outs s. }
      assert (F : target s1 = target s /\ counted s1 = counted s /\ waiting s1 = waiting s /\ woken s1 = woken s
                  /\ buffer s1 = buffer s /\ cy_open s1 = cy_open s /\ g_discarded s1 = g_discarded s
                  /\ batches s1 = batches s).
      { revert ER. destruct (o_batchable o0).
        - destruct (get_open (cy_open s) (o_w o0)); intro ER;
            [apply try_reserve_outs in ER; exact ER | inv ER; repeat split; reflexivity].
        - intro ER. apply try_reserve_outs in ER. exact ER. }
      destruct F as (F1 & F2 & F3 & F4 & F5 & F6 & F7 & F8).
      destruct (take_op c (remove_at s1 i) o0) as [s2 ev] eqn:ET.
      some_inv H. apply take_op_outs in ET.
      destruct ET as (T1 & T2 & T3 & T4 & T5 & T6 & TP).
      destruct (remove_at_outs s1 i) as (R1 & R2 & R3 & R4 & R5 & R6 & RP).
      apply (moved s); [|rewrite T1, R1, F1; reflexivity|assumption].
      unfold outs. rewrite T2, T3, T4, T5, T6, R2, R3, R5, F2, F5, F7.
      unfold open_ops in *. rewrite R4, R6, F6, F8 in TP. rewrite F3, F4 in RP.
      pose proof (remove_nth_perm i (buffer s) o0 EN) as PN. perm.
  - (* cycle raise *)
    destruct (loop s) eqn:EL; try discriminate.
    destruct (get_open (cy_open s) w) as [|o1 l1] eqn:EG; [discriminate|].
    destruct (raise c (s <| cy_open := set_open (cy_open s) w [] |>) w (o1 :: l1)) as [s2 ev] eqn:ER.
    some_inv H. apply raise_outs in ER. simpl in ER.
    destruct ER as (T1 & T2 & T3 & T4 & T5 & T6 & T7 & T8).
    apply (moved s); [|exact T1|assumption].
    unfold outs, open_ops. rewrite T2, T3, T4, T5, T6, T7, T8.
    pose proof (set_open_perm (cy_open s) w []) as P. simpl in P. rewrite EG in P. perm.
  - (* cycle end *)
    destruct (loop s) eqn:EL; try discriminate.
    destruct (open_empty (cy_open s)) eqn:EO; [|discriminate].
    some_inv H. apply (moved s); [|reflexivity|assumption].
    unfold outs, open_ops. simpl. rewrite (open_empty_nil (cy_open s) EO). reflexivity.
  - (* batch start *)
    destruct (find_batch b (batches s)) as [b0|] eqn:EF; [|discriminate].
    destruct (nth_error (b_ops b0) (b_bumped b0)); [|discriminate]. some_inv H.
    apply (moved s); [|reflexivity|assumption]. unfold outs, open_ops. simpl.
    erewrite undone_update; [reflexivity|exact EF|exact (proj2 (find_batch_in _ _ _ EF))|reflexivity|reflexivity].
  - (* callback enter *)
    destruct (find_batch b (batches s)) as [b0|] eqn:EF; [|discriminate].
    destruct (b_started b0 && negb (b_entered b0)); [|discriminate]. some_inv H.
    apply (moved s); [|reflexivity|assumption]. unfold outs, open_ops. simpl.
    erewrite undone_update; [reflexivity|exact EF|exact (proj2 (find_batch_in _ _ _ EF))|reflexivity|reflexivity].
  - (* callback return *)
    destruct (find_batch b (batches s)) as [b0|] eqn:EF; [|discriminate].
    destruct (b_entered b0 && negb (b_returned b0) && (b_ret_at b0 =? now s)); [|discriminate]. some_inv H.
    apply (moved s); [|reflexivity|assumption]. unfold outs, open_ops. simpl.
    erewrite undone_returned; [reflexivity|exact EF|exact (proj2 (find_batch_in _ _ _ EF))|reflexivity|reflexivity].
  - (* batch done *)
    destruct (find_batch b (batches s)) as [b0|] eqn:EF; [|discriminate].
    destruct (b_started b0 && negb (b_done b0) && (b_returned b0 || (b_deadline b0 <=? now s))) eqn:EG; [|discriminate].
    bool_hyps.
    assert (PD : Permutation (undone (batches s)) (b_ops b0 ++ undone (settle_batch (b0 <| b_done := true |>) (batches s)))).
    { eapply undone_done; [exact EF|assumption|exact (proj2 (find_batch_in _ _ _ EF))|reflexivity]. }
    assert (FB : Forall okop (b_ops b0)).
    { destruct HI as [_ HF]. unfold outs in HF. rewrite !Forall_app in HF.
      destruct HF as (_ & _ & _ & _ & _ & HF & _).
      pose proof (Permutation_Forall PD HF) as X. apply Forall_app in X. tauto. }
    destruct (okop_sum _ FB) as [_ ES].
    cases_in H; some_inv H.
    all: eapply (removed s _ (b_ops b0)); [| reflexivity | simpl; rewrite ES; reflexivity | assumption];
      unfold outs, open_ops; simpl; perm.
Qed.

Lemma tinv_init c : TInv (init c).
Proof. split; [reflexivity|constructor]. Qed.

Theorem tinv_creach c s : creach c s -> TInv s.
Proof.
  induction 1 as [|s l s' o R IH OK E]; [apply tinv_init|].
  eapply tinv_step; eauto. apply (conserved_reachable c). now apply creach_reachable.
Qed.

(* ---------------------------------------------------------------- consequences *)

Theorem needs_capacity_exact c s : creach c s -> needs_capacity s = outstanding s.
Proof. intro R. exact (proj1 (tinv_creach c s R)). Qed.

Theorem needs_capacity_zero_when_idle c s :
  creach c s -> outs s = [] -> needs_capacity s = 0.
Proof. intros R E. rewrite (needs_capacity_exact c s R). unfold outstanding. now rewrite E. Qed.

Theorem needs_capacity_bounds c s : creach c s -> 0 <= needs_capacity s.
Proof.
  intro R. destruct (tinv_creach c s R) as [H1 H2]. unfold needs_capacity. rewrite H1.
  exact (proj1 (okop_sum _ H2)).
Qed.

(* an Enqueue call that returns an error leaves the figure where it was before the call
   (the rejected ones never touch it: BatcherLocal.reject_no_side_effect; the ones refused by the
   buffer give back what they counted) *)
Theorem refused_insert_gives_back c s id o h s' ev r :
  creach c s -> find_call id (counted s) = Some (o, h) ->
  step c s (IEnqInsert id) = Some (s', ev) -> ev = [OEnqRet id r] -> r <> ROk -> r <> RPanic ->
  target s' = target s - o_cost o.
Proof.
  intros R EF E -> N1 N2. destruct (tinv_creach c s R) as [H1 H2].
  assert (LE : o_cost o <= target s).
  { rewrite H1. apply okop_in_le; [exact H2|]. unfold outs. apply in_or_app. left.
    pose proof (find_call_perm_ops _ _ _ _ EF) as P. eapply Permutation_in; [symmetry; exact P|now left]. }
  simpl in E. unfold do_enq_insert in E. rewrite EF in E. destruct h; [discriminate|].
  cases_in E; some_inv E; try congruence; simpl; unfold target_sub;
    destruct (o_cost o <=? target s) eqn:X; try reflexivity; apply Z.leb_gt in X; lia.
Qed.

(* ---------------------------------------------------------------- an executable form of the side conditions *)

Definition is_nil {A} (l : list A) : bool := match l with [] => true | _ => false end.
Definition is_v1 (c : cfg) : bool := match c_gen c with V1 => true | V2 => false end.

Definition ok_stepb (c : cfg) (s : state) (l : label) : bool :=
  match l with
  | AEnqueue e => (e_cost_done e =? e_cost e) && (0 <=? e_cost e) && (outstanding s + e_cost e <? u32)
  | ILoopAuditConfirm => target s =? 0
  | IEnqInsert _ => negb (is_v1 c) || negb (shut s)
  | ILoopShutdown => negb (is_v1 c) || is_nil (waiting s)
  | _ => true
  end.

Lemma ok_stepb_sound c s l : ok_stepb c s l = true -> ok_step c s l.
Proof.
  destruct l; cbn [ok_stepb ok_step]; try (intros; exact I); unfold is_v1.
  - intro H. apply andb_prop in H. destruct H as [H H3]. apply andb_prop in H. destruct H as [H1 H2].
    apply Z.eqb_eq in H1. apply Z.leb_le in H2. apply Z.ltb_lt in H3. tauto.
  - intros H G. rewrite G in H. simpl in H. now apply negb_true_iff in H.
  - intros H G. rewrite G in H. simpl in H. destruct (waiting s); [reflexivity|discriminate].
  - intro H. now apply Z.eqb_eq in H.
Qed.

(* a run all of whose steps satisfy the side conditions *)
Fixpoint crun (c : cfg) (s : state) (ls : list label) : option state :=
  match ls with
  | [] => Some s
  | l :: r => if ok_stepb c s l then match step c s l with Some (s1, _) => crun c s1 r | None => None end else None
  end.

Lemma crun_creach c : forall ls s s', creach c s -> crun c s ls = Some s' -> creach c s'.
Proof.
  induction ls as [|l ls IH]; intros s s' R H; simpl in H; [inv H; exact R|].
  destruct (ok_stepb c s l) eqn:E; [|discriminate].
  destruct (step c s l) as [[s1 o1]|] eqn:E2; [|discriminate].
  eapply IH; [|exact H]. apply (cr_step c s l s1 o1); [exact R|apply ok_stepb_sound; exact E|exact E2].
Qed.
