(* Proofs/BatcherLocal2.v — more single-step facts: which steps can emit which
   observations, guards of the flush cycle, pause, capacity requests, completion. *)
From Coq Require Import List ZArith Bool Lia Permutation.
From RecordUpdate Require Import RecordUpdate.
From GB Require Import Model.Allowance Model.Batcher Proofs.Tactics Proofs.C01Inv Proofs.BatcherLocal.
Import ListNotations.
Open Scope Z_scope.

(* ------------------------------------------------------------------ observations of a step *)

Lemma raise_obs c s w ops s' ev : raise c s w ops = (s', ev) -> ev = [OEvBatch w (objs_of ops)].
Proof. unfold raise. intro H. now inv H. Qed.

Lemma take_op_obs c s o s' ev :
  take_op c s o = (s', ev) -> ev = [] \/ exists w l, ev = [OEvBatch w l].
Proof.
  unfold take_op. intro H.
  repeat match type of H with context [if ?b then _ else _] => destruct b end;
    try (apply raise_obs in H; right; eauto); inv H; now left.
Qed.

(* the observations a visit can make: batch events and, in V1, the return of a caller whose
   value moved into the channel *)
Lemma visit_obs c s s' ev x :
  do_cycle_visit c s = Some (s', ev) -> In x ev ->
  (exists w l, x = OEvBatch w l) \/ (exists i, x = OEnqRet i ROk).
Proof.
  intros H I. apply visit_cases in H.
  destruct H as [_ [[_ H]|[(_ & i & _ & _ & H & _)|[(_ & i & o0 & s1 & _ & _ & _ & _ & HT)|(_ & o0 & rest & _ & _ & HT)]]]].
  - subst. contradiction.
  - subst. contradiction.
  - apply take_op_obs in HT. destruct HT as [HT|(w & l & HT)]; subst; [contradiction|].
    destruct I as [I|[]]. left. eauto.
  - destruct HT as [[_ HT]|(y & r & ev' & _ & E & HT)]; apply take_op_obs in HT.
    + destruct HT as [HT|(w & l & HT)]; subst; [contradiction|]. destruct I as [I|[]]. left. eauto.
    + subst ev. destruct I as [I|I]; [right; eauto|].
      destruct HT as [HT|(w & l & HT)]; subst; [contradiction|]. destruct I as [I|[]]. left. eauto.
Qed.

Definition is_giveme (x : obs) : bool := match x with OGiveMe _ | OEvRequest _ => true | _ => false end.
Definition is_batch (x : obs) : bool := match x with OEvBatch _ _ => true | _ => false end.
Definition is_audit (x : obs) : bool :=
  match x with OEvAuditSkip | OEvAuditPass | OEvAuditFail _ _ => true | _ => false end.

(* C12: a capacity request is made only by the idle loop consuming a capacity tick, only with
   a limiter attached, and its value is the demand figure of that very moment *)
Lemma giveme_only_from_cap c s l s' o x :
  step c s l = Some (s', o) -> In x o -> is_giveme x = true ->
  l = ILoopCap /\ loop s = LIdle /\ c_limiter c = true /\ t_pending (tk_cap s) = true
  /\ o = [OEvRequest (target s); OGiveMe (target s)].
Proof.
  intros H I G.
  destruct l; simpl in H; unfold_step H.
  all: try (cases_in H; try some_inv H; simpl in I;
            repeat (destruct I as [I|I]; [subst x; simpl in G; try discriminate|]); try contradiction;
            try (apply in_app_or in I; destruct I as [I|I];
                 [apply in_map_iff in I; destruct I as (? & I & _); subst x; discriminate
                 | destruct I as [I|[]]; subst x; discriminate]); fail).
  - (* the capacity tick itself *)
    destruct (loop_idle s && t_pending (tk_cap s)) eqn:E; [|discriminate]. bool_hyps.
    unfold loop_idle in *. destruct (loop s); try discriminate.
    destruct (c_limiter c) eqn:EL; some_inv H; [|contradiction]. repeat split; assumption.
  - (* visit *)
    destruct (visit_obs _ _ _ _ _ H I) as [(w & l & E)|(i & E)]; subst x; discriminate.
Qed.

Lemma cap_tick_requests c s s' o :
  step c s ILoopCap = Some (s', o) ->
  target s' = target s /\ t_pending (tk_cap s') = false
  /\ o = if c_limiter c then [OEvRequest (target s); OGiveMe (target s)] else [].
Proof.
  simpl. unfold do_loop_cap. intro H. cases_in H; some_inv H; simpl; repeat split; reflexivity.
Qed.

(* a settled state has no unanswered capacity or audit tick and no unserved flush request,
   unless the loop is asleep in a pause, has exited, or was never started *)
Lemma quiescent_idle_nothing_pending c s :
  quiescent c s = true -> loop s = LIdle ->
  t_pending (tk_cap s) = false /\ t_pending (tk_audit s) = false /\ t_pending (tk_flush s) = false
  /\ flush_tok s = false /\ pause_tok s = false /\ stop_req s = false.
Proof.
  unfold quiescent. intros Q L. rewrite forallb_forall in Q.
  assert (C : forall l, In l [ILoopShutdown; ILoopPause; ILoopAuditCheck; ILoopCap; ILoopFlushTick; ICycleBegin] ->
                        step_notime c s l = None).
  { intros l I. specialize (Q l). destruct (step_notime c s l); [|reflexivity].
    assert (X : In l (candidates c s)).
    { unfold candidates. apply in_or_app. right. apply in_or_app. right. apply in_or_app. left.
      simpl in I. simpl. intuition. }
    specialize (Q X). discriminate. }
  pose proof (C ILoopShutdown) as C1. pose proof (C ILoopPause) as C2. pose proof (C ILoopAuditCheck) as C3.
  pose proof (C ILoopCap) as C4. pose proof (C ILoopFlushTick) as C5. pose proof (C ICycleBegin) as C6.
  simpl in *. unfold do_loop_shutdown, do_loop_pause, do_audit_check, do_loop_cap, do_loop_flushtick,
    do_cycle_begin, loop_idle in *. rewrite L in *. simpl in *.
  repeat split.
  - destruct (t_pending (tk_cap s)); [|reflexivity]. destruct (c_limiter c); specialize (C4 ltac:(tauto)); discriminate.
  - destruct (t_pending (tk_audit s)); [|reflexivity]. specialize (C3 ltac:(tauto)).
    destruct ((length (buffer s) =? 0)%nat && idle_long_enough c s); discriminate.
  - destruct (t_pending (tk_flush s)); [|reflexivity]. specialize (C5 ltac:(tauto)). discriminate.
  - destruct (flush_tok s); [|reflexivity]. specialize (C6 ltac:(tauto)). discriminate.
  - destruct (pause_tok s); [|reflexivity]. specialize (C2 ltac:(tauto)). discriminate.
  - destruct (stop_req s); [|reflexivity]. specialize (C1 ltac:(tauto)). destruct (c_gen c); discriminate.
Qed.

(* keys of the per-cycle batch table are unique *)
Lemma set_open_keys : forall o w l,
  map fst (set_open o w l) = if existsb (Nat.eqb w) (map fst o) then map fst o else map fst o ++ [w].
Proof.
  induction o as [|[k l0] o IH]; intros w l; simpl; [reflexivity|].
  destruct (Nat.eqb k w) eqn:E; simpl.
  - apply Nat.eqb_eq in E. subst. now rewrite Nat.eqb_refl.
  - rewrite IH. rewrite Nat.eqb_sym in E. rewrite E. simpl. destruct (existsb _ _); reflexivity.
Qed.

Lemma set_open_nodup o w l : NoDup (map fst o) -> NoDup (map fst (set_open o w l)).
Proof.
  intro N. rewrite set_open_keys. destruct (existsb (Nat.eqb w) (map fst o)) eqn:E; [exact N|].
  apply nodup_snoc; [exact N|]. intro X.
  assert (Y : existsb (Nat.eqb w) (map fst o) = true).
  { apply existsb_exists. exists w. split; [exact X|apply Nat.eqb_refl]. }
  congruence.
Qed.

Lemma get_open_entry : forall o k l, NoDup (map fst o) -> In (k, l) o -> get_open o k = l.
Proof.
  induction o as [|[k0 l0] o IH]; intros k l N I; simpl in *; [contradiction|].
  inversion N as [|? ? N1 N2]; subst. destruct I as [I|I].
  - inv I. now rewrite Nat.eqb_refl.
  - destruct (Nat.eqb k0 k) eqn:E; [|now apply IH].
    apply Nat.eqb_eq in E. subst. exfalso. apply N1. apply in_map_iff. exists (k, l). split; auto.
Qed.

Definition KeysInv (s : state) : Prop := NoDup (map fst (cy_open s)).

Lemma take_op_keys c s o s' ev : take_op c s o = (s', ev) -> KeysInv s -> KeysInv s'.
Proof.
  unfold take_op, raise, KeysInv. intros H N.
  repeat match type of H with context [if ?b then _ else _] => destruct b end; inv H; simpl;
    try apply set_open_nodup; assumption.
Qed.

Lemma keys_step c s l s' o : KeysInv s -> step c s l = Some (s', o) -> KeysInv s'.
Proof.
  intros HI H.
  destruct l; simpl in H; unfold_step H.
  all: try (cases_in H; try some_inv H; unfold KeysInv in *; simpl; try assumption; try constructor; fail).
  - apply visit_cases in H.
    destruct H as [_ [[H _]|[(_ & i & _ & H & _)|[(_ & i & o0 & s1 & _ & _ & _ & HR & HT)|(_ & o0 & rest & _ & _ & HT)]]]].
    + subst. exact HI.
    + subst. exact HI.
    + eapply take_op_keys; [exact HT|]. unfold KeysInv in *.
      destruct (remove_at_frame s1 i) as (_ & _ & _ & _ & R5 & _). rewrite R5.
      destruct HR as [HR|HR]; [now subst|]. apply try_reserve_frame in HR.
      destruct HR as (_ & _ & _ & _ & E & _). now rewrite E.
    + destruct HT as [[_ HT]|(x & r & ev' & _ & _ & HT)]; (eapply take_op_keys; [exact HT|exact HI]).
  - destruct (loop s); try discriminate. destruct (get_open (cy_open s) w); [discriminate|].
    unfold raise in H. some_inv H. unfold KeysInv in *. simpl. now apply set_open_nodup.
Qed.

Theorem keys_reachable c s : reachable c s -> KeysInv s.
Proof.
  apply reachable_inv; [constructor|].
  intros s0 l s1 o _ HI HS. eapply keys_step; eauto.
Qed.

(* a settled state is never in the middle of a cycle or an audit *)
Lemma quiescent_loop c s :
  KeysInv s -> quiescent c s = true ->
  loop s = LNotStarted \/ loop s = LIdle \/ (exists t, loop s = LSleeping t /\ now s <> t) \/ loop s = LExited
  \/ (exists t, loop s = LBusy t /\ now s <> t).
Proof.
  intro KI. unfold quiescent. intro Q. rewrite forallb_forall in Q.
  assert (C : forall l, In l [ILoopResume; ILoopUnbusy; ILoopAuditConfirm; ICycleVisit; ICycleEnd] -> step_notime c s l = None).
  { intros l I. specialize (Q l). destruct (step_notime c s l); [|reflexivity].
    assert (X : In l (candidates c s)).
    { unfold candidates. apply in_or_app. right. apply in_or_app. right. apply in_or_app. left.
      simpl in I. simpl. intuition. }
    specialize (Q X). discriminate. }
  destruct (loop s) eqn:L; auto.
  - right. right. left. exists until. split; [reflexivity|].
    specialize (C ILoopResume ltac:(simpl; tauto)). simpl in C. unfold do_loop_resume in C. rewrite L in C.
    destruct (until =? now s) eqn:E; [|apply Z.eqb_neq in E; congruence].
    destruct (reacts_left s); [discriminate|]. destruct (phase_ s); discriminate.
  - right. right. right. right. exists until. split; [reflexivity|].
    specialize (C ILoopUnbusy ltac:(simpl; tauto)). simpl in C. unfold do_loop_unbusy in C. rewrite L in C.
    destruct (until =? now s) eqn:E; [discriminate|]. apply Z.eqb_neq in E. congruence.
  - specialize (C ILoopAuditConfirm ltac:(simpl; tauto)). simpl in C. unfold do_audit_confirm in C.
    rewrite L in C. discriminate.
  - specialize (C ICycleVisit ltac:(simpl; tauto)). simpl in C. unfold do_cycle_visit in C. rewrite L in C.
    destruct (c_gen c).
    + unfold visit_v1 in C. destruct (c_limiter c && _); [discriminate|]. destruct (buffer s); [discriminate|].
      destruct (waiting s); destruct (take_op _ _ _); discriminate.
    + unfold visit_v2 in C. destruct (cy_cur s); [|discriminate]. destruct (nth_error _ _); [|discriminate].
      destruct (c_limiter c && _); [discriminate|].
      match type of C with match ?r with _ => _ end = _ => destruct r end; discriminate.
  - (* LCycleEnd: either an open batch can be raised or the cycle can end *)
    destruct (open_empty (cy_open s)) eqn:E.
    + specialize (C ICycleEnd ltac:(simpl; tauto)). simpl in C. unfold do_cycle_end in C. rewrite L, E in C.
      destruct (c_gen c); discriminate.
    + exfalso. unfold open_empty in E.
      assert (E' : exists p, In p (cy_open s) /\ snd p <> []).
      { clear - E. induction (cy_open s) as [|[k l] r IH]; simpl in E; [discriminate|].
        destruct l as [|o1 l].
        - simpl in E. destruct (IH E) as (p & I & N). exists p. split; [now right|exact N].
        - exists (k, o1 :: l). split; [now left|discriminate]. }
      destruct E' as ([w ops] & I & E'). simpl in E'. destruct ops as [|o1 ops]; [congruence|].
      assert (X : In (ICycleRaise w) (candidates c s)).
      { unfold candidates. apply in_or_app. right. apply in_or_app. right. apply in_or_app. right.
        apply in_or_app. left. apply in_map_iff. exists (w, o1 :: ops). split; [reflexivity|exact I]. }
      specialize (Q _ X). simpl in Q. unfold do_cycle_raise in Q. rewrite L in Q.
      rewrite (get_open_entry _ _ _ KI I) in Q. discriminate.
Qed.

(* ------------------------------------------------------------------ C02 / C08: the flush cycle *)

(* an operation is removed from the buffer only while the cost consumed so far in this cycle
   is below (V2) / not above (V1) the allowance computed at the start of the cycle *)
Lemma visit_take_guard c s s' ev o :
  do_cycle_visit c s = Some (s', ev) -> g_taken s' = o :: g_taken s -> c_limiter c = true ->
  match c_gen c with V2 => cy_consumed s < cy_allow s | V1 => cy_consumed s <= cy_allow s end.
Proof.
  intros H T L. apply visit_cases in H.
  destruct H as [_ [[H _]|[(_ & i & _ & H & _)|[(G2 & i & o0 & s1 & _ & _ & HG & _ & _)|(G1 & o0 & rest & _ & HG & _)]]]].
  - subst. simpl in T. exfalso. clear - T. induction (g_taken s); inv T. auto.
  - subst. simpl in T. exfalso. clear - T. induction (g_taken s); inv T. auto.
  - rewrite G2. rewrite L in HG. simpl in HG. apply Z.leb_gt in HG. exact HG.
  - rewrite G1. rewrite L in HG. simpl in HG. apply Z.ltb_ge in HG. exact HG.
Qed.

(* the allowance is computed from Capacity() as read at the start of the cycle *)
Lemma cycle_begin_allowance c s s' o :
  step c s ICycleBegin = Some (s', o) ->
  loop s' = LCycle /\ cy_consumed s' = 0 /\ g_taken s' = [] /\ flush_tok s' = false
  /\ g_cycles s' = S (g_cycles s) /\ flush_tok s = true /\ loop s = LIdle
  /\ (c_limiter c = true -> cy_allow s' = allowance c (capacity_now s) /\ In OCapRead o).
Proof.
  simpl. unfold do_cycle_begin. intro H.
  destruct (loop_idle s && flush_tok s) eqn:E; [|discriminate]. bool_hyps.
  unfold loop_idle in *. destruct (loop s) eqn:EL; try discriminate.
  some_inv H. simpl. repeat split; try assumption; try reflexivity.
  - match goal with L : c_limiter c = true |- _ => now rewrite L end.
  - match goal with L : c_limiter c = true |- _ => rewrite L end. apply in_or_app. right. now left.
Qed.

(* V2 after the repair: the integer the code computes is the ceiling of Capacity*ms/1000, so
   for integer costs "consumed < allowance" is exactly the real-valued "consumed < Capacity x
   FlushInterval / 1 s" of the property *)
Lemma allowance_ceil_exact cap ms x :
  0 <= cap -> 0 <= ms -> cap * ms + 999 < 1000 * (u32 - 1) ->
  (x < allowance_ceil cap ms <-> 1000 * x < cap * ms).
Proof.
  intros Hc Hm Hb. unfold allowance_ceil.
  assert (E : (cap * ms + 999) / 1000 < u32 - 1) by (apply Z.div_lt_upper_bound; lia).
  rewrite Z.min_r by lia.
  pose proof (Z.div_mod (cap * ms + 999) 1000 ltac:(lia)) as D.
  pose proof (Z.mod_pos_bound (cap * ms + 999) 1000 ltac:(lia)) as B.
  split; intro H; nia.
Qed.

Lemma allowance_ceil_zero cap ms : 0 <= cap -> 0 <= ms -> (allowance_ceil cap ms = 0 <-> cap * ms = 0).
Proof.
  intros Hc Hm. unfold allowance_ceil, u32.
  pose proof (Z.div_mod (cap * ms + 999) 1000 ltac:(lia)) as D.
  pose proof (Z.mod_pos_bound (cap * ms + 999) 1000 ltac:(lia)) as B.
  assert (P : 0 <= cap * ms) by nia.
  split; intro H.
  - destruct (Z.min_spec (4294967296 - 1) ((cap * ms + 999) / 1000)) as [[_ E]|[_ E]]; rewrite E in H; nia.
  - rewrite H. reflexivity.
Qed.

(* C08: any positive capacity and an interval of at least one millisecond give a positive allowance *)
Lemma allowance_ceil_positive cap ms : 1 <= cap -> 1 <= ms -> 1 <= allowance_ceil cap ms.
Proof.
  intros Hc Hm. unfold allowance_ceil, u32.
  assert (1 <= (cap * ms + 999) / 1000) by (apply Z.div_le_lower_bound; nia).
  lia.
Qed.

(* C08: head progress.  At the first visit of a cycle (nothing consumed yet, cursor on the
   head) with a positive allowance (V2; V1 needs none) and a free batch slot, the head
   operation is removed from the buffer *)
Lemma head_progress c s o rest :
  loop s = LCycle -> buffer s = o :: rest -> cy_consumed s = 0 ->
  (c_gen c = V2 -> cy_cur s = Some 0%nat) ->
  (c_limiter c = true -> c_gen c = V2 -> 0 < cy_allow s) ->
  (c_limiter c = true -> c_gen c = V1 -> 0 <= cy_allow s) ->
  (c_gen c = V2 -> try_reserve c s <> None) ->
  exists s' ev, do_cycle_visit c s = Some (s', ev) /\ g_taken s' = o :: g_taken s.
Proof.
  intros L B C0 Cur A2 A1 R. unfold do_cycle_visit. rewrite L.
  destruct (c_gen c) eqn:G.
  - unfold visit_v1. rewrite B, C0.
    assert (E : c_limiter c && (cy_allow s <? 0) = false).
    { destruct (c_limiter c) eqn:EL; [|reflexivity]. simpl. apply Z.ltb_ge. now apply A1. }
    rewrite E.
    destruct (waiting s) as [|x r].
    + destruct (take_op c (s <| buffer := rest |>) o) as [s2 ev2] eqn:ET. exists s2, ev2.
      split; [reflexivity|]. apply take_op_frame2 in ET. simpl in ET. tauto.
    + destruct (take_op c _ o) as [s2 ev2] eqn:ET. eexists. eexists.
      split; [reflexivity|]. apply take_op_frame2 in ET. simpl in ET. tauto.
  - unfold visit_v2. rewrite (Cur eq_refl), B. simpl. rewrite C0.
    assert (E : c_limiter c && (cy_allow s <=? 0) = false).
    { destruct (c_limiter c) eqn:EL; [|reflexivity]. simpl. apply Z.leb_gt. now apply A2. }
    rewrite E.
    destruct (try_reserve c s) as [s1|] eqn:ER; [|exfalso; now apply R].
    assert (T1 : g_taken s1 = g_taken s) by (apply try_reserve_frame2 in ER; tauto).
    assert (Fin : forall st, g_taken st = g_taken s ->
              exists s' ev, Some (take_op c (remove_at st 0) o) = Some (s', ev) /\ g_taken s' = o :: g_taken s).
    { intros st Hst. destruct (take_op c (remove_at st 0) o) as [s2 ev2] eqn:ET. exists s2, ev2.
      split; [reflexivity|]. apply take_op_frame2 in ET.
      destruct ET as (_ & _ & _ & _ & _ & _ & _ & _ & _ & _ & _ & _ & _ & _ & _ & _ & _ & _ & _ & _ & _ & _ & _ & _ & T).
      rewrite T. f_equal.
      destruct (remove_at_frame2 st 0) as (_ & _ & _ & _ & _ & _ & _ & _ & _ & _ & _ & _ & _ & _ & _ & _ & _ & _ & _ & _ & _ & _ & _ & RT & _).
      now rewrite RT. }
    destruct (o_batchable o); [destruct (get_open (cy_open s) (o_w o))|]; rewrite ?ER.
    + apply Fin. exact T1.
    + apply Fin. reflexivity.
    + apply Fin. exact T1.
Qed.

(* C08: work conservation.  A cycle stops visiting for one of three reasons only: the buffer
   is exhausted, or the allowance is used up; an individual operation is left in place only
   when no batch slot is free *)
Lemma visit_stop_reason c s s' ev :
  do_cycle_visit c s = Some (s', ev) -> loop s' = LCycleEnd ->
  match c_gen c with
  | V2 => cy_cur s = None \/ (exists i, cy_cur s = Some i /\ nth_error (buffer s) i = None)
          \/ (c_limiter c = true /\ cy_allow s <= cy_consumed s)
  | V1 => buffer s = [] \/ (c_limiter c = true /\ cy_allow s < cy_consumed s)
  end.
Proof.
  unfold do_cycle_visit. intros H L. destruct (loop s) eqn:EL; try discriminate.
  destruct (c_gen c).
  - unfold visit_v1 in H.
    destruct (c_limiter c && (cy_allow s <? cy_consumed s)) eqn:E.
    + bool_hyps. right. split; [assumption|]. now apply Z.ltb_lt.
    + destruct (buffer s) eqn:EB; [now left|]. exfalso.
      destruct (waiting s); destruct (take_op c _ o) as [s2 ev2] eqn:ET; some_inv H;
        apply take_op_frame in ET; simpl in ET; destruct ET as (_ & _ & _ & T & _); congruence.
  - unfold visit_v2 in H.
    destruct (cy_cur s) as [i|] eqn:EC; [|now left].
    destruct (nth_error (buffer s) i) as [o0|] eqn:EN; [|right; left; eauto].
    destruct (c_limiter c && (cy_allow s <=? cy_consumed s)) eqn:E.
    + bool_hyps. right. right. split; [assumption|]. now apply Z.leb_le.
    + exfalso. match type of H with match ?r with _ => _ end = _ => destruct r as [s1|] eqn:ER end.
      * destruct (take_op c (remove_at s1 i) o0) as [s2 ev2] eqn:ET. some_inv H.
        apply take_op_frame in ET. destruct ET as (_ & _ & _ & T & _).
        destruct (remove_at_frame s1 i) as (_ & _ & _ & R & _).
        assert (X : loop s1 = loop s).
        { revert ER. destruct (o_batchable o0); [destruct (get_open (cy_open s) (o_w o0))|]; intro ER;
            try (apply try_reserve_frame in ER; tauto). now inv ER. }
        congruence.
      * some_inv H. simpl in L. congruence.
Qed.

Lemma visit_skip_reason c s s' ev i :
  c_gen c = V2 -> do_cycle_visit c s = Some (s', ev) -> cy_cur s = Some i ->
  buffer s' = buffer s -> loop s' = LCycle -> try_reserve c s = None /\ g_taken s' = g_taken s.
Proof.
  intros G H C B L. apply visit_cases in H.
  destruct H as [_ [[H _]|[(_ & j & _ & H & _ & R)|[(_ & j & o0 & s1 & EC & EN & _ & HR & HT)|(G1 & _)]]]].
  - subst. simpl in L. discriminate.
  - subst. simpl. split; [exact R|reflexivity].
  - exfalso. apply take_op_frame in HT. destruct HT as (_ & T2 & _).
    destruct (remove_at_frame s1 j) as (_ & R2 & _).
    assert (X : buffer s1 = buffer s).
    { destruct HR as [HR|HR]; [now subst|]. apply try_reserve_frame in HR. tauto. }
    rewrite T2, R2, X in B. pose proof (remove_nth_length _ _ _ EN) as LN. rewrite B in LN. lia.
  - congruence.
Qed.

(* C08: Flush().  A call leaves a flush request pending; an idle loop with a pending request
   is not settled, so the cycle begins before any time passes *)
Lemma flush_sets_token c s s' o : step c s AFlush = Some (s', o) -> flush_tok s' = true /\ o = [].
Proof. simpl. unfold do_flush. intro H. some_inv H. split; reflexivity. Qed.

Lemma flush_prompt c s : loop s = LIdle -> flush_tok s = true -> quiescent c s = false.
Proof.
  intros L F. destruct (quiescent c s) eqn:Q; [|reflexivity].
  destruct (quiescent_idle_nothing_pending c s Q L) as (_ & _ & _ & X & _). congruence.
Qed.

(* calls made while a request is pending coalesce: the token is a single bit *)
Lemma flush_coalesces c s s' o :
  flush_tok s = true -> step c s AFlush = Some (s', o) -> flush_tok s' = true /\ loop s' = loop s
  /\ g_cycles s' = g_cycles s.
Proof. simpl. unfold do_flush. intros F H. some_inv H. simpl. repeat split. Qed.

(* ------------------------------------------------------------------ C13: pause *)

Lemma pause_call_effect c s s' o :
  step c s APause = Some (s', o) ->
  o = [] /\ (phase_ s = PStarted -> pause_tok s' = true /\ phase_ s' = PPaused)
  /\ (phase_ s <> PStarted -> s' = s).
Proof.
  simpl. unfold do_pause. intro H. destruct (phase_ s) eqn:P; some_inv H; simpl;
    repeat split; try reflexivity; try congruence; intros; congruence.
Qed.

Lemma loop_pause_effect c s s' o :
  step c s ILoopPause = Some (s', o) ->
  loop s = LIdle /\ loop s' = LSleeping (now s + eff_pause c) /\ o = [OEvPause (eff_pause c / ms)]
  /\ pause_tok s' = false.
Proof.
  simpl. unfold do_loop_pause. intro H. destruct (loop_idle s && pause_tok s) eqn:E; [|discriminate].
  bool_hyps. unfold loop_idle in *. destruct (loop s); try discriminate. some_inv H. simpl.
  repeat split; reflexivity.
Qed.

(* the resume event ends the pause; the phase is back to started when the event is raised, so a listener
   that answers it by having Pause() called from another goroutine starts a new pause (reacts_left) *)
Lemma loop_resume_effect c s s' o :
  step c s ILoopResume = Some (s', o) ->
  loop s = LSleeping (now s) /\ loop s' = LIdle /\ o = [OEvResume]
  /\ (phase_ s = PPaused ->
      (reacts_left s = 0%nat /\ phase_ s' = PStarted /\ pause_tok s' = pause_tok s)
      \/ (exists n, reacts_left s = S n /\ reacts_left s' = n /\ phase_ s' = PPaused /\ pause_tok s' = true)).
Proof.
  simpl. unfold do_loop_resume. intro H. destruct (loop s) eqn:L; try discriminate.
  destruct (until =? now s) eqn:E; [|discriminate]. apply Z.eqb_eq in E. subst.
  destruct (reacts_left s) as [|n] eqn:ER.
  - some_inv H. simpl. repeat split; try reflexivity. intro P. left. rewrite P. repeat split; reflexivity.
  - destruct (phase_ s) eqn:EP; some_inv H; simpl; repeat split; try reflexivity; intro P; try discriminate.
    right. exists n. repeat split; reflexivity.
Qed.

(* while the loop sleeps in a pause nothing but the resume can come from it: no batch, no
   capacity request, no audit; and time cannot move past the end of the pause *)
Lemma sleeping_quiet c s l s' o x t :
  loop s = LSleeping t -> step c s l = Some (s', o) -> In x o ->
  is_batch x = false /\ is_giveme x = false /\ is_audit x = false.
Proof.
  intros L H I.
  destruct l; simpl in H; unfold_step H; unfold do_cycle_visit, loop_idle in *; rewrite ?L in H;
    cases_in H; try some_inv H; simpl in I;
    repeat (destruct I as [I|I]; [subst x; simpl; repeat split; reflexivity|]); try contradiction;
    try discriminate.
Qed.

Lemma sleeping_time c s t t' s' o :
  loop s = LSleeping t -> step c s (TAdvance t') = Some (s', o) -> t' <= t /\ loop s' = LSleeping t.
Proof.
  simpl. unfold do_advance. intros L H.
  destruct ((now s <? t') && quiescent c s && match next_due s with None => true | Some d => t' <=? d end) eqn:E;
    [|discriminate]. some_inv H. simpl. split; [|exact L]. bool_hyps.
  unfold next_due in *. rewrite L in *.
  set (d1 := zmin_opt (if tickers_on s then Some (Z.min (t_next (tk_flush s)) (Z.min (t_next (tk_cap s)) (t_next (tk_audit s)))) else None) t) in *.
  assert (G : forall l acc, (forall d, acc = Some d -> d <= t) -> acc <> None ->
              exists d, fold_left batch_deadlines l acc = Some d /\ d <= t).
  { induction l as [|b l IH]; intros acc A N; simpl.
    - destruct acc as [d|]; [|congruence]. exists d. split; [reflexivity|now apply A].
    - apply IH.
      + intros d. unfold batch_deadlines.
        destruct acc as [a|]; [|congruence]. specialize (A a eq_refl).
        destruct (b_entered b && negb (b_returned b)); destruct (b_started b && negb (b_done b)); simpl;
          intro X; inv X; lia.
      + unfold batch_deadlines. destruct acc; [|congruence].
        destruct (b_entered b && negb (b_returned b)); destruct (b_started b && negb (b_done b)); simpl; discriminate. }
  destruct (G (batches s) d1) as (d & E1 & E2).
  - unfold d1. intros d. destruct (tickers_on s); simpl; intro X; inv X; lia.
  - unfold d1. destruct (tickers_on s); simpl; discriminate.
  - rewrite E1 in H0. apply Z.leb_le in H0. lia.
Qed.

(* ------------------------------------------------------------------ a listener that takes its time *)

(* while the loop is inside such a listener it does nothing else: no batch, no capacity request, no audit;
   time cannot pass the instant at which the listener returns, and at that instant the loop is idle again
   with every pending tick, flush request and pause request still there *)
Lemma busy_quiet c s l s' o x t :
  loop s = LBusy t -> step c s l = Some (s', o) -> In x o ->
  is_batch x = false /\ is_giveme x = false /\ is_audit x = false.
Proof.
  intros L H I.
  destruct l; simpl in H; unfold_step H; unfold do_cycle_visit, loop_idle in *; rewrite ?L in H;
    cases_in H; try some_inv H; simpl in I;
    repeat (destruct I as [I|I]; [subst x; simpl; repeat split; reflexivity|]); try contradiction;
    try discriminate.
Qed.

Lemma busy_time c s t t' s' o :
  loop s = LBusy t -> step c s (TAdvance t') = Some (s', o) -> t' <= t /\ loop s' = LBusy t.
Proof.
  simpl. unfold do_advance. intros L H.
  destruct ((now s <? t') && quiescent c s && match next_due s with None => true | Some d => t' <=? d end) eqn:E;
    [|discriminate]. some_inv H. simpl. split; [|exact L]. bool_hyps.
  unfold next_due in *. rewrite L in *.
  set (d1 := zmin_opt (if tickers_on s then Some (Z.min (t_next (tk_flush s)) (Z.min (t_next (tk_cap s)) (t_next (tk_audit s)))) else None) t) in *.
  assert (G : forall l acc, (forall d, acc = Some d -> d <= t) -> acc <> None ->
              exists d, fold_left batch_deadlines l acc = Some d /\ d <= t).
  { induction l as [|b l IH]; intros acc A N; simpl.
    - destruct acc as [d|]; [|congruence]. exists d. split; [reflexivity|now apply A].
    - apply IH.
      + intros d. unfold batch_deadlines.
        destruct acc as [a|]; [|congruence]. specialize (A a eq_refl).
        destruct (b_entered b && negb (b_returned b)); destruct (b_started b && negb (b_done b)); simpl;
          intro X; inv X; lia.
      + unfold batch_deadlines. destruct acc; [|congruence].
        destruct (b_entered b && negb (b_returned b)); destruct (b_started b && negb (b_done b)); simpl; discriminate. }
  destruct (G (batches s) d1) as (d & E1 & E2).
  - unfold d1. intros d. destruct (tickers_on s); simpl; intro X; inv X; lia.
  - unfold d1. destruct (tickers_on s); simpl; discriminate.
  - rewrite E1 in H0. apply Z.leb_le in H0. lia.
Qed.

Lemma unbusy_effect c s s' o :
  step c s ILoopUnbusy = Some (s', o) ->
  exists t, loop s = LBusy t /\ t = now s /\ loop s' = LIdle /\ o = []
    /\ flush_tok s' = flush_tok s /\ pause_tok s' = pause_tok s /\ stop_req s' = stop_req s
    /\ tk_flush s' = tk_flush s /\ tk_cap s' = tk_cap s /\ tk_audit s' = tk_audit s /\ buffer s' = buffer s.
Proof.
  simpl. unfold do_loop_unbusy. intro H. destruct (loop s) eqn:L; try discriminate.
  destruct (until =? now s) eqn:E; [|discriminate]. apply Z.eqb_eq in E. some_inv H.
  exists until. simpl. repeat split; try reflexivity; assumption.
Qed.

Lemma unbusy_enabled c s t : loop s = LBusy t -> t = now s -> exists s', step c s ILoopUnbusy = Some (s', []).
Proof. intros L E. simpl. unfold do_loop_unbusy. rewrite L, E, Z.eqb_refl. eauto. Qed.


(* ------------------------------------------------------------------ C11: completion *)

Lemma timeout_of_spec c w :
  timeout_of c w = if 0 <? w_maxop (watcher c w) then w_maxop (watcher c w)
                   else if c_maxop c <=? 0 then 60000 * ms else c_maxop c.
Proof. reflexivity. Qed.

Lemma raise_deadline c s w ops s' ev :
  raise c s w ops = (s', ev) ->
  exists b, batches s' = batches s ++ [b] /\ b_id b = next_bid s /\ b_w b = w /\ b_ops b = ops
    /\ b_raised b = now s /\ b_deadline b = now s + timeout_of c w
    /\ b_bumped b = 0%nat /\ b_entered b = false /\ b_returned b = false /\ b_done b = false
    /\ last_flush s' = Some (now s).
Proof. unfold raise. intro H. inv H. eexists. simpl. repeat split; reflexivity. Qed.

(* a batch is finished by one step, enabled exactly when its callback has returned or its
   deadline has been reached; that step takes the batch's cost off the demand figure and
   (V2 with a limit) gives one slot back; it cannot happen twice *)
Lemma batch_done_effect c s id s' o :
  step c s (IBatchDone id) = Some (s', o) ->
  exists b, find_batch id (batches s) = Some b /\ b_started b = true /\ b_done b = false
    /\ (b_returned b = true \/ b_deadline b <= now s)
    /\ o = [] /\ target s' = target_sub (target s) (sum_cost_done (b_ops b))
    /\ (c_gen c = V2 -> (0 < c_maxconc c)%nat -> (0 < tokens s)%nat -> tokens s' = pred (tokens s))
    /\ (c_gen c = V1 \/ c_maxconc c = 0%nat -> tokens s' = tokens s)
    /\ batches s' = settle_batch (b <| b_done := true |>) (batches s).
Proof.
  simpl. unfold do_batch_done. intro H.
  destruct (find_batch id (batches s)) as [b|] eqn:EF; [|discriminate].
  destruct (b_started b && negb (b_done b) && (b_returned b || (b_deadline b <=? now s))) eqn:E; [|discriminate].
  bool_hyps. exists b.
  assert (D : b_returned b = true \/ b_deadline b <= now s).
  { apply orb_prop in H1. destruct H1 as [X|X]; [now left|right; now apply Z.leb_le]. }
  destruct (c_gen c) eqn:G.
  - some_inv H. simpl. repeat split; try assumption; try reflexivity; intros; try congruence.
  - destruct (c_maxconc c =? 0)%nat eqn:M.
    + some_inv H. apply Nat.eqb_eq in M. simpl. repeat split; try assumption; try reflexivity; intros; try lia.
    + apply Nat.eqb_neq in M. destruct (tokens s) eqn:T; some_inv H; simpl;
        repeat split; try assumption; try reflexivity; intros; try lia; destruct H as [H|H]; congruence.
Qed.

Lemma batch_done_not_enabled_early c s id b :
  find_batch id (batches s) = Some b -> b_returned b = false -> now s < b_deadline b ->
  step c s (IBatchDone id) = None.
Proof.
  intros F R D. simpl. unfold do_batch_done. rewrite F, R. simpl.
  apply Z.leb_gt in D. rewrite D. now rewrite andb_false_r.
Qed.

Lemma batch_done_once c s id b :
  find_batch id (batches s) = Some b -> b_done b = true -> step c s (IBatchDone id) = None.
Proof.
  intros F D. simpl. unfold do_batch_done. rewrite F, D. simpl. now rewrite andb_false_r.
Qed.

(* a late return of the callback changes neither the demand figure nor the slots *)
Lemma cb_return_effect c s id s' o :
  step c s (ICbReturn id) = Some (s', o) -> target s' = target s /\ tokens s' = tokens s /\ buffer s' = buffer s.
Proof.
  simpl. unfold do_cb_return. intro H. destruct (find_batch id (batches s)); [|discriminate].
  cases_in H; some_inv H. simpl. repeat split.
Qed.

(* ------------------------------------------------------------------ C15 / C16 *)

Lemma error_mode_no_trace t cst : 0 <= t -> 0 <= cst -> t + cst < u32 -> target_sub (target_add t cst) cst = t.
Proof.
  intros Ht Hc Hb. unfold target_sub, target_add. rewrite Z.mod_small by lia.
  destruct (cst <=? t + cst) eqn:E; [lia|]. apply Z.leb_gt in E. lia.
Qed.

(* after shutdown a caller that reaches the buffer gets an error (V2) — it neither blocks nor
   is it accepted *)
Lemma insert_after_shutdown_v2 c s id op :
  c_gen c = V2 -> shut s = true -> find_call id (counted s) = Some (op, false) ->
  exists s', step c s (IEnqInsert id) = Some (s', [OEnqRet id RShutdown])
             /\ buffer s' = buffer s /\ target s' = target_sub (target s) (o_cost op).
Proof.
  intros G S F. simpl. unfold do_enq_insert. rewrite F, S, G. eexists. split; [reflexivity|]. simpl. split; reflexivity.
Qed.

Lemma retry_after_shutdown_v2 c s id op :
  c_gen c = V2 -> shut s = true -> find_op id (woken s) = Some op ->
  exists s', step c s (IEnqRetry id) = Some (s', [OEnqRet id RShutdown])
             /\ buffer s' = buffer s /\ target s' = target_sub (target s) (o_cost op).
Proof.
  intros G S F. simpl. unfold do_enq_retry. rewrite G, F, S. eexists. split; [reflexivity|]. simpl. split; reflexivity.
Qed.

Lemma start_once c s s' o :
  step c s AStart = Some (s', o) ->
  (phase_ s = PUninit -> o = [OStartRet true] /\ phase_ s' = PStarted /\ loop s' = LIdle)
  /\ (phase_ s <> PUninit -> o = [OStartRet false] /\ s' = s).
Proof.
  simpl. unfold do_start. intro H. destruct (phase_ s) eqn:P; some_inv H; simpl;
    split; intros; try congruence; repeat split; reflexivity.
Qed.

Lemma setter_after_start_panics c s : c_gen c = V2 -> phase_ s <> PUninit ->
  step c s ASetter = Some (s, [OSetterPanic]).
Proof. intros G P. simpl. unfold do_setter. rewrite G. destruct (phase_ s); congruence. Qed.

Lemma shutdown_step_effect c s s' o :
  step c s ILoopShutdown = Some (s', o) ->
  loop s = LIdle /\ stop_req s = true /\ loop s' = LExited /\ shut s' = true /\ In OEvShutdown o
  /\ g_shutdowns s' = S (g_shutdowns s) /\ (c_gen c = V2 -> buffer s' = [] /\ waiting s' = []).
Proof.
  simpl. unfold do_loop_shutdown. intro H. destruct (loop_idle s && stop_req s) eqn:E; [|discriminate].
  bool_hyps. unfold loop_idle in *. destruct (loop s); try discriminate.
  destruct (c_gen c); some_inv H; simpl; repeat split; try assumption; try reflexivity; try congruence;
    try (now left); try (intros; discriminate).
  apply in_or_app. right. now left.
Qed.

(* time cannot advance past the deadline of an unfinished batch *)
Lemma next_due_deadline c s b t' :
  quiescent c s = true -> In b (batches s) -> b_done b = false -> NoDup (map b_id (batches s)) ->
  match next_due s with None => true | Some d => t' <=? d end = true -> t' <= b_deadline b.
Proof.
  intros Q I D N H.
  pose proof (quiescent_entered c s b Q I N) as EN.
  assert (ST : b_started b = true).
  { unfold quiescent in Q. rewrite forallb_forall in Q.
    assert (FB : find_batch (b_id b) (batches s) = Some b).
    { revert I N. generalize (batches s). induction l as [|b0 l IH]; simpl; [tauto|].
      intros I N. inversion N as [|? ? N1 N2]; subst.
      destruct (Nat.eqb (b_id b0) (b_id b)) eqn:E.
      - destruct I as [I|I]; [now subst|]. apply Nat.eqb_eq in E. exfalso. apply N1. rewrite E. now apply in_map.
      - destruct I as [I|I]; [subst; rewrite Nat.eqb_refl in E; discriminate|auto]. }
    assert (C1 : In (IBatchStart (b_id b)) (candidates c s)).
    { unfold candidates. repeat (apply in_or_app; right). apply in_flat_map. exists b. split; [exact I|simpl; tauto]. }
    specialize (Q _ C1). simpl in Q. unfold do_batch_start in Q. rewrite FB in Q.
    destruct (nth_error (b_ops b) (b_bumped b)) eqn:X; [discriminate|].
    apply nth_error_None in X. unfold b_started. now apply Nat.leb_le. }
  unfold next_due in H.
  set (d1 := match loop s with LSleeping t => zmin_opt _ t | _ => _ end) in H.
  assert (G : forall l acc, In b l ->
              exists d, fold_left batch_deadlines l acc = Some d /\ d <= b_deadline b).
  { induction l as [|b0 l IH]; intros acc Hin; [contradiction|]. simpl.
    destruct Hin as [Hin|Hin].
    - subst b0.
      assert (M : forall l2 acc2, (exists d, acc2 = Some d /\ d <= b_deadline b) ->
                    exists d, fold_left batch_deadlines l2 acc2 = Some d /\ d <= b_deadline b).
      { induction l2 as [|b2 l2 IH2]; intros acc2 (d & E & Ld); simpl; [eauto|].
        apply IH2. subst acc2. unfold batch_deadlines.
        destruct (b_entered b2 && negb (b_returned b2)); destruct (b_started b2 && negb (b_done b2)); simpl;
          eexists; (split; [reflexivity|lia]). }
      apply M. unfold batch_deadlines. rewrite ST, D, EN. simpl.
      destruct (negb (b_returned b)); destruct acc; simpl; eexists; (split; [reflexivity|lia]).
    - now apply IH. }
  destruct (G (batches s) d1 I) as (d & E1 & E2). rewrite E1 in H. apply Z.leb_le in H. lia.
Qed.
