(* Proofs/EventerProofs.v — C20, the listener clauses: for every interleaving of AddListener,
   RemoveListener and emits (any number of them concurrently). *)
From Coq Require Import List Bool Arith Lia.
From GB Require Import Model.Eventer.
Import ListNotations.

Definition ereachable (s : estate) : Prop := exists ls, erun einit ls = Some s.

Lemma erun_inv (P : estate -> Prop) :
  P einit -> (forall s l s', P s -> estep s l = Some s' -> P s') -> forall s, ereachable s -> P s.
Proof.
  intros Hi Hs s [ls H]. revert H. generalize einit Hi. clear Hi.
  induction ls as [|l ls IH]; intros s0 H0 H; simpl in H.
  - now inversion H; subst.
  - destruct (estep s0 l) eqn:E; [|discriminate]. eapply IH; [eapply Hs; eauto|exact H].
Qed.

Lemma memb_In x l : memb x l = true <-> In x l.
Proof.
  unfold memb. rewrite existsb_exists. split.
  - intros (y & I & E). apply Nat.eqb_eq in E. now subst.
  - intro I. exists x. split; [exact I|apply Nat.eqb_refl].
Qed.

(* the invariant: a removed listener is not in the map and never comes back (ids are fresh);
   what an emit in progress has called so far is duplicate-free and inside the map *)
Definition emit_ok (s : estate) (p : nat * list nat) : Prop :=
  NoDup (snd p) /\ forall x, In x (snd p) -> In x (e_listeners s).

Definition EInv (s : estate) : Prop :=
  (forall x, In x (e_listeners s) -> In x (e_added s))
  /\ (forall x, In x (e_removed s) -> In x (e_added s) /\ ~ In x (e_listeners s))
  /\ Forall (emit_ok s) (e_emits s).

Lemma get_emit_in : forall es e d, get_emit es e = Some d -> In (e, d) es.
Proof.
  induction es as [|[k d0] es IH]; simpl; intros e d H; [discriminate|].
  destruct (Nat.eqb k e) eqn:E; [apply Nat.eqb_eq in E; inversion H; subst; now left|right; auto].
Qed.

Lemma forall_set_emit (P : nat * list nat -> Prop) : forall es e d,
  Forall P es -> P (e, d) -> Forall P (set_emit es e d).
Proof.
  induction es as [|[k d0] es IH]; simpl; intros e d F H; [constructor|].
  inversion F; subst. destruct (Nat.eqb k e) eqn:E.
  - apply Nat.eqb_eq in E. subst. constructor; assumption.
  - constructor; [assumption|auto].
Qed.

Lemma forall_del_emit (P : nat * list nat -> Prop) : forall es e, Forall P es -> Forall P (del_emit es e).
Proof.
  induction es as [|[k d0] es IH]; simpl; intros e F; [constructor|].
  inversion F; subst. destruct (Nat.eqb k e); [assumption|constructor; auto].
Qed.

Lemma einv_step s l s' : EInv s -> estep s l = Some s' -> EInv s'.
Proof.
  intros (I1 & I2 & I3) H. destruct l; simpl in H.
  - (* add *)
    destruct (e_emits s) eqn:EE; [|discriminate]. destruct (memb l (e_added s)) eqn:EM; [discriminate|].
    inversion H; subst; clear H. unfold EInv; simpl. split; [|split].
    + intros x [X|X]; [now left|right; auto].
    + intros x X. destruct (I2 x X) as [A B]. split; [now right|].
      intros [Y|Y]; [subst; apply memb_In in A; congruence|contradiction].
    + constructor.
  - (* remove *)
    destruct (e_emits s) eqn:EE; [|discriminate]. inversion H; subst; clear H. unfold EInv; simpl. split; [|split].
    + intros x X. apply filter_In in X. destruct X as [X _]. auto.
    + intros x X. split.
      * destruct (memb l (e_listeners s)) eqn:EM.
        -- destruct X as [X|X]; [subst; apply memb_In in EM; auto|]. now destruct (I2 x X).
        -- now destruct (I2 x X).
      * intro Y. apply filter_In in Y. destruct Y as [Y1 Y2].
        destruct (memb l (e_listeners s)) eqn:EM.
        -- destruct X as [X|X]; [subst; rewrite Nat.eqb_refl in Y2; discriminate|]. destruct (I2 x X) as [_ B]. contradiction.
        -- destruct (I2 x X) as [_ B]. contradiction.
    + constructor.
  - (* emit takes the lock *)
    destruct (get_emit (e_emits s) e) eqn:EG; [discriminate|]. inversion H; subst; clear H.
    unfold EInv; simpl. split; [assumption|split; [assumption|]].
    constructor; [split; simpl; [constructor|intros x []]|exact I3].
  - (* deliver *)
    destruct (get_emit (e_emits s) e) as [d|] eqn:EG; [|discriminate].
    destruct (memb l (e_listeners s) && negb (memb l d)) eqn:EC; [|discriminate].
    apply andb_prop in EC. destruct EC as [C1 C2]. apply negb_true_iff in C2.
    inversion H; subst; clear H. unfold EInv; simpl. split; [assumption|split; [assumption|]].
    apply forall_set_emit; [exact I3|].
    rewrite Forall_forall in I3. destruct (I3 _ (get_emit_in _ _ _ EG)) as [ND IN]. simpl in *.
    split; simpl.
    + constructor; [|exact ND]. intro X. apply memb_In in X. congruence.
    + intros x [X|X]; [subst; now apply memb_In|auto].
  - (* emit releases the lock *)
    destruct (get_emit (e_emits s) e) as [d|] eqn:EG; [|discriminate].
    destruct (forallb (fun x => memb x d) (e_listeners s)) eqn:EC; [|discriminate].
    inversion H; subst; clear H. unfold EInv; simpl. split; [assumption|split; [assumption|]].
    apply forall_del_emit. exact I3.
Qed.

Lemma einv_init : EInv einit.
Proof. unfold EInv, einit; simpl. repeat split; try contradiction; constructor. Qed.

Theorem einv_reachable s : ereachable s -> EInv s.
Proof. apply erun_inv; [exact einv_init|]. intros; eapply einv_step; eauto. Qed.

(* no event reaches a listener once its removal has taken effect — in particular not after
   RemoveListener has returned *)
Theorem no_delivery_after_remove s e x s' :
  ereachable s -> In x (e_removed s) -> estep s (EDeliver e x) = Some s' -> False.
Proof.
  intros R X H. destruct (einv_reachable s R) as (_ & I2 & _). destruct (I2 x X) as [_ N].
  simpl in H. destruct (get_emit (e_emits s) e); [|discriminate].
  destruct (memb x (e_listeners s)) eqn:M; [|discriminate]. apply memb_In in M. contradiction.
Qed.

(* a removal, once effective, is permanent: the listener never re-enters the map *)
Theorem removed_stays_removed s l s' x :
  ereachable s -> In x (e_removed s) -> estep s l = Some s' -> In x (e_removed s') /\ ~ In x (e_listeners s').
Proof.
  intros R X H.
  assert (R' : ereachable s').
  { destruct R as [ls R]. exists (ls ++ [l]). revert R H. generalize einit. clear.
    induction ls as [|a ls IH]; simpl; intros s0 R H.
    - inversion R; subst. now rewrite H.
    - destruct (estep s0 a); [|discriminate]. eauto. }
  assert (Y : In x (e_removed s')).
  { destruct l; simpl in H.
    - destruct (e_emits s); [|discriminate]. destruct (memb l (e_added s)); [discriminate|]. now inversion H.
    - destruct (e_emits s); [|discriminate]. inversion H; simpl. destruct (memb l (e_listeners s)); [now right|assumption].
    - destruct (get_emit (e_emits s) e); [discriminate|]. now inversion H.
    - destruct (get_emit (e_emits s) e); [|discriminate]. destruct (_ && _); [|discriminate]. now inversion H.
    - destruct (get_emit (e_emits s) e); [|discriminate]. destruct (forallb _ _); [|discriminate]. now inversion H. }
  split; [exact Y|]. destruct (einv_reachable s' R') as (_ & I2 & _). now destruct (I2 x Y).
Qed.

(* each listener is called at most once per emit *)
Theorem at_most_once s e x s' d :
  get_emit (e_emits s) e = Some d -> In x d -> estep s (EDeliver e x) = Some s' -> False.
Proof.
  intros G I H. simpl in H. rewrite G in H. apply memb_In in I. rewrite I in H. rewrite andb_false_r in H. discriminate.
Qed.

(* an emit cannot finish before every listener in the map has been called, and the map cannot
   change while an emit is in progress: so a listener registered before the event was raised
   and not removed before the emit ended receives it exactly once *)
Theorem exactly_once_at_unlock s e s' d x :
  get_emit (e_emits s) e = Some d -> estep s (EEmitUnlock e) = Some s' -> In x (e_listeners s) -> In x d.
Proof.
  intros G H I. simpl in H. rewrite G in H.
  destruct (forallb (fun y => memb y d) (e_listeners s)) eqn:F; [|discriminate].
  rewrite forallb_forall in F. apply memb_In. now apply F.
Qed.

Theorem map_frozen_during_emit s l s' :
  e_emits s <> [] -> estep s l = Some s' -> e_listeners s' = e_listeners s.
Proof.
  intros N H. destruct l; simpl in H.
  - destruct (e_emits s); [congruence|discriminate].
  - destruct (e_emits s); [congruence|discriminate].
  - destruct (get_emit (e_emits s) e); [discriminate|]. now inversion H.
  - destruct (get_emit (e_emits s) e); [|discriminate]. destruct (_ && _); [|discriminate]. now inversion H.
  - destruct (get_emit (e_emits s) e); [|discriminate]. destruct (forallb _ _); [|discriminate]. now inversion H.
Qed.

(* no stuck state: an emit in progress can always make progress (call a listener not yet called, or finish) *)
Theorem emit_never_stuck s e d :
  ereachable s -> get_emit (e_emits s) e = Some d ->
  (exists s', estep s (EEmitUnlock e) = Some s') \/ (exists x s', estep s (EDeliver e x) = Some s').
Proof.
  intros R G.
  destruct (forallb (fun y => memb y d) (e_listeners s)) eqn:F.
  - left. simpl. rewrite G, F. eauto.
  - right.
    assert (X : exists x, In x (e_listeners s) /\ memb x d = false).
    { clear - F. induction (e_listeners s) as [|a l IH]; simpl in F; [discriminate|].
      destruct (memb a d) eqn:M; [destruct (IH F) as (x & A & B); exists x; split; [now right|exact B]|].
      exists a. split; [now left|exact M]. }
    destruct X as (x & I & M).
    exists x. simpl. rewrite G. apply memb_In in I. rewrite I, M. simpl. eauto.
Qed.
