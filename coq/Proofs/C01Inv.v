(* Proofs/C01Inv.v — invariants behind C01 (exactly-once delivery to the own watcher).
   Every lemma here is about the step function of Model/Batcher.v and holds for every
   label, hence (Tactics.reachable_inv) in every reachable state of every execution. *)
From Coq Require Import List ZArith Bool Lia Permutation.
From RecordUpdate Require Import RecordUpdate.
From GB Require Import Model.Allowance Model.Batcher Proofs.Tactics.
Import ListNotations.

Definition ids (l : list op) : list nat := map o_id l.
Definition open_ops (s : state) : list op := flat_map snd (cy_open s).
Definition raised_ops (s : state) : list op := flat_map snd (g_raised s).
Definition in_cycle (s : state) : bool :=
  match loop s with LCycle | LCycleEnd => true | _ => false end.

(* unfold every do_ function in H *)
Ltac unfold_step H :=
  unfold do_start, do_pause, do_flush, do_stop, do_enqueue, do_release, do_setter, do_enq_insert,
    do_enq_retry, do_stop_ret, do_tick, do_loop_shutdown, do_loop_pause, do_loop_resume,
    do_audit_check, do_audit_confirm, do_loop_unbusy, do_loop_cap, do_loop_flushtick, do_cycle_begin,
    do_cycle_raise, do_cycle_end, do_batch_start, do_cb_enter, do_cb_return,
    do_batch_done, do_advance, insert_op, after_event in H.

(* ------------------------------------------------------------------ list lemmas *)

Lemma remove_nth_perm {A} : forall i (l : list A) x,
  nth_error l i = Some x -> Permutation l (x :: remove_nth i l).
Proof.
  induction i as [|i IH]; intros [|y l] x H; simpl in *; try discriminate.
  - inv H. reflexivity.
  - rewrite perm_swap. constructor. now apply IH.
Qed.

Lemma set_open_perm : forall o w l,
  Permutation (flat_map snd (set_open o w l) ++ get_open o w) (l ++ flat_map snd o).
Proof.
  induction o as [|[k l0] o IH]; intros w l; simpl.
  - now rewrite !app_nil_r.
  - destruct (Nat.eqb k w); simpl.
    + rewrite <- !app_assoc. apply Permutation_app_head. apply Permutation_app_comm.
    + rewrite <- app_assoc. rewrite IH. rewrite !app_assoc. apply Permutation_app_tail.
      apply Permutation_app_comm.
Qed.

Lemma get_open_in : forall o w x, In x (get_open o w) -> In x (flat_map snd o).
Proof.
  induction o as [|[k l0] o IH]; intros w x H; simpl in *; [contradiction|].
  apply in_or_app. destruct (Nat.eqb k w); [left; exact H | right; eapply IH; eauto].
Qed.

Lemma open_empty_nil : forall o, open_empty o = true -> flat_map snd o = [].
Proof.
  induction o as [|[k l] o IH]; simpl; intro H; [reflexivity|].
  apply andb_prop in H. destruct H as [H1 H2]. destruct l; [|discriminate]. simpl. auto.
Qed.

(* ------------------------------------------------------------------ conservation *)

(* an inserted operation is in the buffer, in a batch under construction, in exactly one
   raised batch, or (V2) was discarded by the shutdown: nothing is lost, nothing duplicated *)
Definition Conserved (s : state) : Prop :=
  Permutation (g_inserted s) (buffer s ++ open_ops s ++ raised_ops s ++ g_discarded s)
  /\ (in_cycle s = false -> open_ops s = [])
  /\ (phase_ s = PUninit -> loop s = LNotStarted).

(* what raise and take_op do to the fields the invariant mentions *)
Lemma raise_frame c s w ops s' ev :
  raise c s w ops = (s', ev) ->
  g_inserted s' = g_inserted s /\ buffer s' = buffer s /\ cy_open s' = cy_open s
  /\ g_raised s' = (w, ops) :: g_raised s /\ g_discarded s' = g_discarded s /\ loop s' = loop s
  /\ waiting s' = waiting s /\ woken s' = woken s /\ counted s' = counted s
  /\ g_failed s' = g_failed s /\ next_call s' = next_call s /\ shut s' = shut s
  /\ phase_ s' = phase_ s.
Proof. unfold raise. intro H. inv H. simpl. repeat split; reflexivity. Qed.

Lemma take_op_frame c s o s' ev :
  take_op c s o = (s', ev) ->
  g_inserted s' = g_inserted s /\ buffer s' = buffer s /\ g_discarded s' = g_discarded s
  /\ loop s' = loop s /\ waiting s' = waiting s /\ woken s' = woken s /\ counted s' = counted s
  /\ g_failed s' = g_failed s /\ next_call s' = next_call s /\ shut s' = shut s
  /\ phase_ s' = phase_ s
  /\ Permutation (open_ops s' ++ raised_ops s') (o :: open_ops s ++ raised_ops s).
Proof.
  unfold take_op, open_ops, raised_ops. intro H.
  destruct (o_batchable o).
  - match type of H with (if ?b then _ else _) = _ => destruct b end.
    + apply raise_frame in H. simpl in H.
      destruct H as (H1 & H2 & H3 & H4 & H5 & H6 & H7 & H8 & H9 & H10 & H11 & H12 & H13).
      rewrite H1, H2, H3, H4, H5, H6, H7, H8, H9, H10, H11, H12, H13. repeat (split; [reflexivity|]).
      simpl.
      pose proof (set_open_perm (cy_open s) (o_w o) []) as P. simpl in P. perm.
    + inv H. simpl. repeat (split; [reflexivity|]).
      pose proof (set_open_perm (cy_open s) (o_w o) (get_open (cy_open s) (o_w o) ++ [o])) as P.
      perm.
  - apply raise_frame in H. simpl in H.
    destruct H as (H1 & H2 & H3 & H4 & H5 & H6 & H7 & H8 & H9 & H10 & H11 & H12 & H13).
    rewrite H1, H2, H3, H4, H5, H6, H7, H8, H9, H10, H11, H12, H13. repeat (split; [reflexivity|]).
    simpl. perm.
Qed.

Lemma try_reserve_frame c s s' :
  try_reserve c s = Some s' ->
  g_inserted s' = g_inserted s /\ buffer s' = buffer s /\ g_discarded s' = g_discarded s
  /\ loop s' = loop s /\ cy_open s' = cy_open s /\ g_raised s' = g_raised s
  /\ waiting s' = waiting s /\ woken s' = woken s /\ counted s' = counted s
  /\ g_failed s' = g_failed s /\ next_call s' = next_call s /\ shut s' = shut s
  /\ cy_cur s' = cy_cur s /\ phase_ s' = phase_ s.
Proof.
  unfold try_reserve. intro H. cases_in H; some_inv H; simpl; repeat split; reflexivity.
Qed.

Lemma remove_at_frame s i :
  g_inserted (remove_at s i) = g_inserted s /\ buffer (remove_at s i) = remove_nth i (buffer s)
  /\ g_discarded (remove_at s i) = g_discarded s /\ loop (remove_at s i) = loop s
  /\ cy_open (remove_at s i) = cy_open s /\ g_raised (remove_at s i) = g_raised s
  /\ counted (remove_at s i) = counted s /\ g_failed (remove_at s i) = g_failed s
  /\ next_call (remove_at s i) = next_call s /\ shut (remove_at s i) = shut s
  /\ phase_ (remove_at s i) = phase_ s
  /\ Permutation (ids (waiting (remove_at s i)) ++ ids (woken (remove_at s i)))
                 (ids (waiting s) ++ ids (woken s)).
Proof.
  unfold remove_at, signal_one. simpl. destruct (waiting s) eqn:E; simpl; rewrite ?E;
    repeat (split; [reflexivity|]).
  - reflexivity.
  - unfold ids. rewrite map_app. simpl. perm_nat.
Qed.

Ltac close_conserved s :=
  unfold Conserved, open_ops, raised_ops, in_cycle in *; simpl in *; bool_hyps; unfold loop_idle in *;
  destruct (loop s) eqn:?; try congruence; simpl in *;
  (split; [ try assumption | split; intros; try assumption; try congruence; auto; try solve [intuition congruence] ]).

Lemma conserved_step c s l s' o :
  Conserved s -> step c s l = Some (s', o) -> Conserved s'.
Proof.
  intros (HI & HC & HP) H.
  destruct l; simpl in H; unfold_step H.
  all: try (cases_in H; try some_inv H; close_conserved s; fail).
  - (* insert *)
    cases_in H; some_inv H; close_conserved s; perm.
  - (* retry *)
    cases_in H; some_inv H; close_conserved s; perm.
  - (* shutdown *)
    cases_in H; some_inv H; close_conserved s; rewrite (HC eq_refl) in *; perm.
  - (* cycle begin *)
    cases_in H; some_inv H; close_conserved s; rewrite (HC eq_refl) in *; perm.
  - (* visit *)
    unfold do_cycle_visit in H. destruct (loop s) eqn:EL; try discriminate.
    assert (HPh : phase_ s <> PUninit) by (intro X; specialize (HP X); congruence).
    destruct (c_gen c).
    + (* V1 *)
      unfold visit_v1 in H.
      destruct (c_limiter c && (cy_allow s <? cy_consumed s))%Z.
      { some_inv H. close_conserved s. }
      destruct (buffer s) as [|o0 rest] eqn:EB.
      { some_inv H. close_conserved s. rewrite EB. exact HI. }
      destruct (waiting s) as [|x r] eqn:EW.
      * destruct (take_op c (s <| buffer := rest |>) o0) as [s2 ev] eqn:ET. some_inv H.
        apply take_op_frame in ET. simpl in ET.
        destruct ET as (T1 & T2 & T3 & T4 & _ & _ & _ & _ & _ & _ & T5 & TP).
        unfold Conserved, in_cycle. rewrite T1, T2, T3, T4, T5. rewrite EL.
        split; [|split; [discriminate|intro; contradiction]].
        unfold open_ops, raised_ops in *. simpl in TP. perm.
      * destruct (take_op c (s <| buffer := rest ++ [x] |> <| waiting := r |>
                               <| g_inserted := x :: g_inserted s |>) o0) as [s2 ev] eqn:ET.
        some_inv H. apply take_op_frame in ET. simpl in ET.
        destruct ET as (T1 & T2 & T3 & T4 & _ & _ & _ & _ & _ & _ & T5 & TP).
        unfold Conserved, in_cycle. rewrite T1, T2, T3, T4, T5. rewrite EL.
        split; [|split; [discriminate|intro; contradiction]].
        unfold open_ops, raised_ops in *. simpl in TP. perm.
    + (* V2 *)
      unfold visit_v2 in H.
      destruct (cy_cur s) as [i|] eqn:EC.
      2:{ some_inv H. close_conserved s. }
      destruct (nth_error (buffer s) i) as [o0|] eqn:EN.
      2:{ some_inv H. close_conserved s. }
      destruct (c_limiter c && (cy_allow s <=? cy_consumed s))%Z.
      { some_inv H. close_conserved s. }
      match type of H with match ?r with _ => _ end = _ => destruct r as [s1|] eqn:ER end.
      2:{ some_inv H. close_conserved s. }
      assert (F : g_inserted s1 = g_inserted s /\ buffer s1 = buffer s /\ g_discarded s1 = g_discarded s
                  /\ loop s1 = loop s /\ cy_open s1 = cy_open s /\ g_raised s1 = g_raised s
                  /\ phase_ s1 = phase_ s).
      { revert ER. destruct (o_batchable o0).
        - destruct (get_open (cy_open s) (o_w o0)); intro ER;
            [apply try_reserve_frame in ER; tauto | inv ER; tauto].
        - intro ER. apply try_reserve_frame in ER. tauto. }
      destruct F as (F1 & F2 & F3 & F4 & F5 & F6 & F7).
      destruct (take_op c (remove_at s1 i) o0) as [s2 ev] eqn:ET.
      some_inv H. apply take_op_frame in ET.
      destruct ET as (T1 & T2 & T3 & T4 & _ & _ & _ & _ & _ & _ & T5 & TP).
      destruct (remove_at_frame s1 i) as (R1 & R2 & R3 & R4 & R5 & R6 & _ & _ & _ & _ & R7 & _).
      unfold Conserved, in_cycle. rewrite T1, T2, T3, T4, T5, R1, R2, R3, R4, R7, F1, F2, F3, F4, F7.
      unfold open_ops, raised_ops in *. rewrite R5, R6, F5, F6 in TP. rewrite EL.
      split; [|split; [discriminate|intro; contradiction]].
      pose proof (remove_nth_perm i (buffer s) o0 EN) as PN. perm.
  - (* cycle raise *)
    destruct (loop s) eqn:EL; try discriminate.
    destruct (get_open (cy_open s) w) as [|o1 l1] eqn:EG; [discriminate|].
    unfold raise in H. some_inv H. unfold Conserved, open_ops, raised_ops, in_cycle in *; simpl in *.
    rewrite EL in *. split; [|split; [discriminate|assumption]].
    pose proof (set_open_perm (cy_open s) w []) as P. simpl in P. rewrite EG in P. perm.
  - (* cycle end *)
    destruct (loop s) eqn:EL; try discriminate.
    destruct (open_empty (cy_open s)) eqn:EO; [|discriminate].
    some_inv H. unfold Conserved, open_ops, raised_ops, in_cycle in *; simpl in *.
    rewrite EL in *.
    split; [|split; [reflexivity|intro X; specialize (HP X); congruence]].
    rewrite (open_empty_nil (cy_open s) EO) in *. exact HI.
Qed.

Lemma conserved_init c : Conserved (init c).
Proof. unfold Conserved, open_ops, raised_ops, in_cycle. simpl. repeat split; constructor. Qed.

Theorem conserved_reachable c s : reachable c s -> Conserved s.
Proof.
  apply reachable_inv; [apply conserved_init|].
  intros s0 l s1 o _ HI HS. eapply conserved_step; eauto.
Qed.

(* ------------------------------------------------------------------ call numbers *)

(* every Enqueue call has one number, and at every moment that number is in exactly one
   place: counted (between the demand increment and the insert), waiting / woken (blocked
   on a full buffer), inserted (it went into the buffer once), or failed (it returned an
   error or panicked) *)
Definition live_ids (s : state) : list nat :=
  ids (map fst (counted s)) ++ ids (waiting s) ++ ids (woken s) ++ ids (g_inserted s) ++ g_failed s.

Definition IdInv (s : state) : Prop :=
  NoDup (live_ids s) /\ Forall (fun i => (i < next_call s)%nat) (live_ids s).

Lemma find_call_perm : forall id l o h,
  find_call id l = Some (o, h) ->
  o_id o = id /\ Permutation (ids (map fst l)) (id :: ids (map fst (remove_call id l))).
Proof.
  induction l as [|[o1 h1] l IH]; intros o h H; simpl in *; [discriminate|].
  destruct (Nat.eqb (o_id o1) id) eqn:E.
  - inv H. apply Nat.eqb_eq in E. split; [exact E|]. simpl. rewrite E. reflexivity.
  - destruct (IH _ _ H) as [E1 P]. split; [exact E1|]. simpl. rewrite P. apply perm_swap.
Qed.

Lemma find_op_perm : forall id l o,
  find_op id l = Some o ->
  o_id o = id /\ Permutation (ids l) (id :: ids (remove_op id l)).
Proof.
  induction l as [|o1 l IH]; intros o H; simpl in *; [discriminate|].
  destruct (Nat.eqb (o_id o1) id) eqn:E.
  - inv H. apply Nat.eqb_eq in E. split; [exact E|]. simpl. rewrite E. reflexivity.
  - destruct (IH _ H) as [E1 P]. split; [exact E1|]. simpl. rewrite P. apply perm_swap.
Qed.

Lemma release_ids : forall id l,
  ids (map fst (map (fun p : op * bool => if Nat.eqb (o_id (fst p)) id then (fst p, false) else p) l))
  = ids (map fst l).
Proof.
  induction l as [|[o h] l IH]; simpl; [reflexivity|].
  destruct (Nat.eqb (o_id o) id); simpl; now rewrite IH.
Qed.

Lemma ids_app l1 l2 : ids (l1 ++ l2) = ids l1 ++ ids l2.
Proof. unfold ids. apply map_app. Qed.

Lemma map_fst_app {A B} (l1 l2 : list (A * B)) : map fst (l1 ++ l2) = map fst l1 ++ map fst l2.
Proof. apply map_app. Qed.

Lemma idinv_perm s s' :
  IdInv s -> Permutation (live_ids s') (live_ids s) -> next_call s' = next_call s -> IdInv s'.
Proof.
  intros [N F] P E. split.
  - eapply Permutation_NoDup; [symmetry; exact P|exact N].
  - rewrite E. eapply Permutation_Forall; [symmetry; exact P|exact F].
Qed.

Lemma idinv_fresh s s' :
  IdInv s -> Permutation (live_ids s') (next_call s :: live_ids s) -> next_call s' = S (next_call s) ->
  IdInv s'.
Proof.
  intros [N F] P E. split.
  - eapply Permutation_NoDup; [symmetry; exact P|]. constructor; [|exact N].
    intro X. rewrite Forall_forall in F. specialize (F _ X). lia.
  - rewrite E. eapply Permutation_Forall; [symmetry; exact P|]. constructor; [lia|].
    eapply Forall_impl; [|exact F]. simpl. intros. lia.
Qed.

Ltac live_simpl :=
  unfold live_ids; simpl; rewrite ?ids_app, ?map_fst_app, ?release_ids; simpl.

Lemma idinv_step c s l s' o : IdInv s -> step c s l = Some (s', o) -> IdInv s'.
Proof.
  intros HI H.
  destruct l; simpl in H; unfold_step H.
  all: try (cases_in H; try some_inv H; try exact HI;
            (eapply idinv_perm; [exact HI| live_simpl; reflexivity | reflexivity]); fail).
  - (* enqueue *)
    cases_in H; some_inv H.
    + eapply idinv_fresh; [exact HI| live_simpl; unfold ids; simpl; perm_nat | reflexivity].
    + eapply idinv_fresh; [exact HI| live_simpl; unfold ids; simpl; perm_nat | reflexivity].
  - (* insert *)
    destruct (find_call call (counted s)) as [[o0 h]|] eqn:EF; [|discriminate].
    destruct (find_call_perm _ _ _ _ EF) as [E1 P].
    cases_in H; some_inv H;
      (eapply idinv_perm; [exact HI| live_simpl; unfold ids in *; simpl; rewrite ?map_app; simpl; perm_nat | reflexivity]).
  - (* retry *)
    destruct (c_gen c); [discriminate|].
    destruct (find_op call (woken s)) as [o0|] eqn:EF; [|discriminate].
    destruct (find_op_perm _ _ _ EF) as [E1 P].
    cases_in H; some_inv H;
      (eapply idinv_perm; [exact HI| live_simpl; unfold ids in *; simpl; rewrite ?map_app; simpl; perm_nat | reflexivity]).
  - (* shutdown *)
    cases_in H; some_inv H;
      (eapply idinv_perm; [exact HI| live_simpl; unfold ids in *; simpl; rewrite ?map_app; simpl; perm_nat | reflexivity]).
  - (* visit *)
    unfold do_cycle_visit in H. destruct (loop s) eqn:EL; try discriminate.
    destruct (c_gen c).
    + unfold visit_v1 in H.
      destruct (c_limiter c && (cy_allow s <? cy_consumed s))%Z; [some_inv H; exact HI|].
      destruct (buffer s) as [|o0 rest] eqn:EB; [some_inv H; exact HI|].
      destruct (waiting s) as [|x r] eqn:EW.
      * destruct (take_op c (s <| buffer := rest |>) o0) as [s2 ev] eqn:ET. some_inv H.
        apply take_op_frame in ET. simpl in ET.
        destruct ET as (T1 & T2 & T3 & T4 & T5 & T6 & T7 & T8 & T9 & _).
        eapply idinv_perm; [exact HI | unfold live_ids; rewrite T1, T5, T6, T7, T8, EW; reflexivity | exact T9].
      * destruct (take_op c (s <| buffer := rest ++ [x] |> <| waiting := r |>
                               <| g_inserted := x :: g_inserted s |>) o0) as [s2 ev] eqn:ET.
        some_inv H. apply take_op_frame in ET. simpl in ET.
        destruct ET as (T1 & T2 & T3 & T4 & T5 & T6 & T7 & T8 & T9 & _).
        eapply idinv_perm; [exact HI | unfold live_ids; rewrite T1, T5, T6, T7, T8, EW; unfold ids; simpl; perm_nat | exact T9].
    + unfold visit_v2 in H.
      destruct (cy_cur s) as [i|] eqn:EC; [|some_inv H; exact HI].
      destruct (nth_error (buffer s) i) as [o0|] eqn:EN; [|some_inv H; exact HI].
      destruct (c_limiter c && (cy_allow s <=? cy_consumed s))%Z; [some_inv H; exact HI|].
      match type of H with match ?r with _ => _ end = _ => destruct r as [s1|] eqn:ER end.
      2:{ some_inv H. exact HI. }
      assert (F : g_inserted s1 = g_inserted s /\ waiting s1 = waiting s /\ woken s1 = woken s
                  /\ counted s1 = counted s /\ g_failed s1 = g_failed s /\ next_call s1 = next_call s).
      { revert ER. destruct (o_batchable o0).
        - destruct (get_open (cy_open s) (o_w o0)); intro ER;
            [apply try_reserve_frame in ER; tauto | inv ER; tauto].
        - intro ER. apply try_reserve_frame in ER. tauto. }
      destruct F as (F1 & F2 & F3 & F4 & F5 & F6).
      destruct (take_op c (remove_at s1 i) o0) as [s2 ev] eqn:ET.
      some_inv H. apply take_op_frame in ET.
      destruct ET as (T1 & T2 & T3 & T4 & T5 & T6 & T7 & T8 & T9 & _).
      destruct (remove_at_frame s1 i) as (R1 & _ & _ & _ & _ & _ & R2 & R3 & R4 & _ & _ & RP).
      eapply idinv_perm; [exact HI | | ].
      * unfold live_ids. rewrite T1, T5, T6, T7, T8, R1, R2, R3, F1, F4, F5.
        rewrite <- F2, <- F3. perm_nat.
      * rewrite T9, R4. exact F6.
Qed.

Lemma idinv_init c : IdInv (init c).
Proof. split; simpl; constructor. Qed.

Theorem idinv_reachable c s : reachable c s -> IdInv s.
Proof.
  apply reachable_inv; [apply idinv_init|].
  intros s0 l s1 o _ HI HS. eapply idinv_step; eauto.
Qed.

(* ------------------------------------------------------------------ own watcher *)

Lemma get_set_open : forall o w l w',
  get_open (set_open o w l) w' = if Nat.eqb w w' then l else get_open o w'.
Proof.
  induction o as [|[k l0] o IH]; intros w l w'; simpl.
  - destruct (Nat.eqb w w') eqn:E; reflexivity.
  - destruct (Nat.eqb k w) eqn:E1; simpl.
    + apply Nat.eqb_eq in E1. subst k. destruct (Nat.eqb w w'); reflexivity.
    + rewrite IH. destruct (Nat.eqb k w') eqn:E2; [|reflexivity].
      destruct (Nat.eqb w w') eqn:E3; [|reflexivity].
      apply Nat.eqb_eq in E2, E3. subst. rewrite Nat.eqb_refl in E1. discriminate.
Qed.

(* every batch, under construction or raised, holds operations of its own watcher only,
   and a raised batch is never empty *)
Definition batch_ok (p : nat * list op) : Prop :=
  snd p <> [] /\ Forall (fun o => o_w o = fst p) (snd p).

Definition WatcherInv (s : state) : Prop :=
  (forall w, Forall (fun o => o_w o = w) (get_open (cy_open s) w))
  /\ Forall batch_ok (g_raised s).

Lemma raise_watcher c s w ops s' ev :
  raise c s w ops = (s', ev) -> WatcherInv s -> ops <> [] -> Forall (fun o => o_w o = w) ops ->
  WatcherInv s'.
Proof.
  unfold raise. intros H [W1 W2] N F. inv H. split; simpl; [exact W1|].
  constructor; [split; assumption|exact W2].
Qed.

Lemma take_op_watcher c s o s' ev :
  take_op c s o = (s', ev) -> WatcherInv s -> WatcherInv s'.
Proof.
  unfold take_op. intros H [W1 W2].
  destruct (o_batchable o).
  - match type of H with (if ?b then _ else _) = _ => destruct b end.
    + eapply raise_watcher; [exact H| | |].
      * split; simpl; [|exact W2]. intro w. rewrite get_set_open.
        destruct (Nat.eqb (o_w o) w); [constructor|apply W1].
      * intro X. apply app_eq_nil in X. destruct X as [_ X]. discriminate X.
      * simpl. apply Forall_app. split; [apply W1|]. constructor; [reflexivity|constructor].
    + inv H. split; simpl; [|exact W2]. intro w. rewrite get_set_open.
      destruct (Nat.eqb (o_w o) w) eqn:E; [|apply W1].
      apply Nat.eqb_eq in E. subst w. apply Forall_app. split; [apply W1|].
      constructor; [reflexivity|constructor].
  - eapply raise_watcher; [exact H| split; simpl; assumption | discriminate |].
    constructor; [reflexivity|constructor].
Qed.

Lemma watcher_step c s l s' o : WatcherInv s -> step c s l = Some (s', o) -> WatcherInv s'.
Proof.
  intros HI H. pose proof HI as [W1 W2].
  destruct l; simpl in H; unfold_step H.
  all: try (cases_in H; try some_inv H; try exact HI; split; simpl; try assumption; fail).
  - (* cycle begin *)
    cases_in H; some_inv H; (split; simpl; [|exact W2]); intro w; constructor.
  - (* visit *)
    unfold do_cycle_visit in H. destruct (loop s) eqn:EL; try discriminate.
    destruct (c_gen c).
    + unfold visit_v1 in H.
      destruct (c_limiter c && (cy_allow s <? cy_consumed s))%Z; [some_inv H; exact HI|].
      destruct (buffer s) as [|o0 rest] eqn:EB; [some_inv H; exact HI|].
      destruct (waiting s) as [|x r] eqn:EW.
      * destruct (take_op c (s <| buffer := rest |>) o0) as [s2 ev] eqn:ET. some_inv H.
        eapply take_op_watcher; [exact ET|]. split; simpl; assumption.
      * destruct (take_op c (s <| buffer := rest ++ [x] |> <| waiting := r |>
                               <| g_inserted := x :: g_inserted s |>) o0) as [s2 ev] eqn:ET.
        some_inv H. eapply take_op_watcher; [exact ET|]. split; simpl; assumption.
    + unfold visit_v2 in H.
      destruct (cy_cur s) as [i|] eqn:EC; [|some_inv H; exact HI].
      destruct (nth_error (buffer s) i) as [o0|] eqn:EN; [|some_inv H; exact HI].
      destruct (c_limiter c && (cy_allow s <=? cy_consumed s))%Z; [some_inv H; exact HI|].
      match type of H with match ?r with _ => _ end = _ => destruct r as [s1|] eqn:ER end.
      2:{ some_inv H. exact HI. }
      assert (F : cy_open s1 = cy_open s /\ g_raised s1 = g_raised s).
      { revert ER. destruct (o_batchable o0).
        - destruct (get_open (cy_open s) (o_w o0)); intro ER;
            [apply try_reserve_frame in ER; tauto | inv ER; tauto].
        - intro ER. apply try_reserve_frame in ER. tauto. }
      destruct F as (F1 & F2).
      destruct (take_op c (remove_at s1 i) o0) as [s2 ev] eqn:ET. some_inv H.
      eapply take_op_watcher; [exact ET|].
      destruct (remove_at_frame s1 i) as (_ & _ & _ & _ & R5 & R6 & _).
      split; rewrite ?R5, ?R6, ?F1, ?F2; assumption.
  - (* cycle raise *)
    destruct (loop s); try discriminate.
    destruct (get_open (cy_open s) w) as [|o1 l1] eqn:EG; [discriminate|].
    some_inv H. split; simpl.
    + intro w'. rewrite get_set_open. destruct (Nat.eqb w w'); [constructor|apply W1].
    + constructor; [|exact W2]. split; simpl; [discriminate|]. rewrite <- EG. apply W1.
  - (* cycle end *)
    cases_in H; some_inv H; (split; simpl; [|exact W2]); intro w; constructor.
Qed.

Lemma watcher_init c : WatcherInv (init c).
Proof. split; simpl; [intro; constructor|constructor]. Qed.

Theorem watcher_reachable c s : reachable c s -> WatcherInv s.
Proof.
  apply reachable_inv; [apply watcher_init|].
  intros s0 l s1 o _ HI HS. eapply watcher_step; eauto.
Qed.

(* ------------------------------------------------------------------ one callback per raised batch *)

Lemma update_batch_ids b' l : map b_id (update_batch b' l) = map b_id l.
Proof.
  induction l as [|b l IH]; simpl; [reflexivity|].
  destruct (Nat.eqb (b_id b) (b_id b')) eqn:E; simpl; [|now rewrite IH].
  apply Nat.eqb_eq in E. now rewrite E.
Qed.

Lemma update_batch_in b' l b2 :
  NoDup (map b_id l) -> In b2 (update_batch b' l) ->
  b2 = b' \/ (In b2 l /\ b_id b2 <> b_id b').
Proof.
  induction l as [|b l IH]; simpl; intros N H; [contradiction|].
  inversion N as [|? ? N1 N2]; subst.
  destruct (Nat.eqb (b_id b) (b_id b')) eqn:E.
  - apply Nat.eqb_eq in E. destruct H as [H|H]; [left; now symmetry|].
    right. split; [now right|]. intro X. apply N1. rewrite E, <- X. now apply in_map.
  - apply Nat.eqb_neq in E. destruct H as [H|H].
    + subst b2. right. split; [now left|exact E].
    + destruct (IH N2 H) as [X|[X1 X2]]; [now left|right; split; [now right|exact X2]].
Qed.

Lemma drop_batch_in id l b2 : In b2 (drop_batch id l) -> In b2 l.
Proof.
  induction l as [|b l IH]; simpl; [tauto|].
  destruct (Nat.eqb (b_id b) id); simpl; [now right|]. intros [H|H]; [now left|right; auto].
Qed.

Lemma drop_batch_nodup id l : NoDup (map b_id l) -> NoDup (map b_id (drop_batch id l)).
Proof.
  induction l as [|b l IH]; simpl; intro N; [constructor|].
  inversion N as [|? ? N1 N2]; subst.
  destruct (Nat.eqb (b_id b) id); simpl; [exact N2|].
  constructor; [|auto]. intro X. apply N1. apply in_map_iff in X. destruct X as [b2 [E X]].
  apply in_map_iff. exists b2. split; [exact E|]. eapply drop_batch_in; eauto.
Qed.

Lemma drop_batch_neq id l b2 : NoDup (map b_id l) -> In b2 (drop_batch id l) -> b_id b2 <> id.
Proof.
  induction l as [|b l IH]; simpl; intros N H; [contradiction|].
  inversion N as [|? ? N1 N2]; subst.
  destruct (Nat.eqb (b_id b) id) eqn:E.
  - apply Nat.eqb_eq in E. intro X. apply N1. rewrite E, <- X. now apply in_map.
  - destruct H as [H|H]; [subst; now apply Nat.eqb_neq in E|auto].
Qed.

Lemma find_batch_in id l b : find_batch id l = Some b -> In b l /\ b_id b = id.
Proof.
  induction l as [|b0 l IH]; simpl; [discriminate|].
  destruct (Nat.eqb (b_id b0) id) eqn:E; intro H.
  - inv H. apply Nat.eqb_eq in E. split; [now left|exact E].
  - destruct (IH H). split; [now right|assumption].
Qed.

(* batch numbers are unique, and a batch whose number is recorded as "callback entered"
   has its entered flag set: so no batch can enter its callback twice *)
Definition BatchInv (s : state) : Prop :=
  NoDup (map b_id (batches s)) /\ Forall (fun b => (b_id b < next_bid s)%nat) (batches s)
  /\ NoDup (g_started s) /\ Forall (fun i => (i < next_bid s)%nat) (g_started s)
  /\ (forall b, In b (batches s) -> In (b_id b) (g_started s) -> b_entered b = true).

(* a change to one batch record that keeps its number and does not clear the entered flag *)
Lemma batchinv_update s b b' (f : state -> state) :
  BatchInv s -> In b (batches s) -> b_id b' = b_id b -> (b_entered b = true -> b_entered b' = true) ->
  forall s', batches s' = update_batch b' (batches s) \/ batches s' = settle_batch b' (batches s) ->
  next_bid s' = next_bid s -> g_started s' = g_started s -> BatchInv s'.
Proof.
  intros (N & F & NS & FS & E) Hin Hid Hent s' Hb Hn Hg.
  assert (G : forall b2, In b2 (batches s') -> b2 = b' \/ (In b2 (batches s) /\ b_id b2 <> b_id b')).
  { intros b2 H2. destruct Hb as [Hb|Hb]; rewrite Hb in H2.
    - apply update_batch_in; assumption.
    - unfold settle_batch in H2. destruct (b_done b' && b_returned b').
      + right. split; [eapply drop_batch_in; exact H2|]. eapply drop_batch_neq; eauto.
      + apply update_batch_in; assumption. }
  repeat split.
  - destruct Hb as [Hb|Hb]; rewrite Hb; [now rewrite update_batch_ids|].
    unfold settle_batch. destruct (b_done b' && b_returned b');
      [now apply drop_batch_nodup | now rewrite update_batch_ids].
  - rewrite Hn. apply Forall_forall. intros b2 H2. rewrite Forall_forall in F.
    destruct (G b2 H2) as [X|[X _]]; [subst b2; rewrite Hid; now apply F | now apply F].
  - now rewrite Hg.
  - now rewrite Hg, Hn.
  - intros b2 H2 H3. rewrite Hg in H3. destruct (G b2 H2) as [X|[X _]].
    + subst b2. apply Hent. apply E; [exact Hin|]. now rewrite <- Hid.
    + now apply E.
Qed.

Lemma batchinv_frame s s' :
  BatchInv s -> batches s' = batches s -> next_bid s' = next_bid s -> g_started s' = g_started s ->
  BatchInv s'.
Proof. unfold BatchInv. intros H E1 E2 E3. now rewrite E1, E2, E3. Qed.

Lemma nodup_snoc (l : list nat) (x : nat) : NoDup l -> ~ In x l -> NoDup (l ++ [x]).
Proof.
  intros N X. apply NoDup_rev in N. rewrite <- (rev_involutive (l ++ [x])). apply NoDup_rev.
  rewrite rev_app_distr. simpl. constructor; [|exact N]. now rewrite <- in_rev.
Qed.

Lemma raise_batchinv c s w ops s' ev : raise c s w ops = (s', ev) -> BatchInv s -> BatchInv s'.
Proof.
  unfold raise. intros H (N & F & NS & FS & E). inv H. unfold BatchInv. simpl.
  rewrite Forall_forall in F, FS. repeat split.
  - rewrite map_app. simpl. apply nodup_snoc; [exact N|]. intro X.
    apply in_map_iff in X. destruct X as [b [E1 X]]. specialize (F _ X). lia.
  - apply Forall_forall. intros b X. apply in_app_or in X. destruct X as [X|[X|[]]].
    + specialize (F _ X). lia.
    + subst b. simpl. lia.
  - exact NS.
  - apply Forall_forall. intros i X. specialize (FS _ X). lia.
  - intros b X Y. apply in_app_or in X. destruct X as [X|[X|[]]]; [now apply E|].
    subst b. simpl in Y. specialize (FS _ Y). lia.
Qed.

Lemma take_op_batchinv c s o s' ev : take_op c s o = (s', ev) -> BatchInv s -> BatchInv s'.
Proof.
  unfold take_op. intros H HI.
  destruct (o_batchable o).
  - match type of H with (if ?b then _ else _) = _ => destruct b end.
    + eapply raise_batchinv; [exact H|]. eapply batchinv_frame; [exact HI| | |]; reflexivity.
    + inv H. eapply batchinv_frame; [exact HI| | |]; reflexivity.
  - eapply raise_batchinv; [exact H|]. eapply batchinv_frame; [exact HI| | |]; reflexivity.
Qed.

Lemma remove_at_batch s i :
  batches (remove_at s i) = batches s /\ next_bid (remove_at s i) = next_bid s
  /\ g_started (remove_at s i) = g_started s.
Proof. unfold remove_at, signal_one. simpl. destruct (waiting s); simpl; repeat split. Qed.

Lemma try_reserve_batch c s s' :
  try_reserve c s = Some s' ->
  batches s' = batches s /\ next_bid s' = next_bid s /\ g_started s' = g_started s.
Proof. unfold try_reserve. intro H. cases_in H; some_inv H; simpl; repeat split. Qed.

Lemma batchinv_step c s l s' o : BatchInv s -> step c s l = Some (s', o) -> BatchInv s'.
Proof.
  intros HI H.
  destruct l; simpl in H; unfold_step H.
  all: try (cases_in H; try some_inv H; try exact HI;
            (eapply batchinv_frame; [exact HI| | |]; reflexivity); fail).
  - (* visit *)
    unfold do_cycle_visit in H. destruct (loop s) eqn:EL; try discriminate.
    destruct (c_gen c).
    + unfold visit_v1 in H.
      destruct (c_limiter c && (cy_allow s <? cy_consumed s))%Z;
        [some_inv H; eapply batchinv_frame; [exact HI| | |]; reflexivity|].
      destruct (buffer s) as [|o0 rest] eqn:EB;
        [some_inv H; eapply batchinv_frame; [exact HI| | |]; reflexivity|].
      destruct (waiting s) as [|x r] eqn:EW.
      * destruct (take_op c (s <| buffer := rest |>) o0) as [s2 ev] eqn:ET. some_inv H.
        eapply take_op_batchinv; [exact ET|]. eapply batchinv_frame; [exact HI| | |]; reflexivity.
      * destruct (take_op c (s <| buffer := rest ++ [x] |> <| waiting := r |>
                               <| g_inserted := x :: g_inserted s |>) o0) as [s2 ev] eqn:ET.
        some_inv H. eapply take_op_batchinv; [exact ET|].
        eapply batchinv_frame; [exact HI| | |]; reflexivity.
    + unfold visit_v2 in H.
      destruct (cy_cur s) as [i|] eqn:EC;
        [|some_inv H; eapply batchinv_frame; [exact HI| | |]; reflexivity].
      destruct (nth_error (buffer s) i) as [o0|] eqn:EN;
        [|some_inv H; eapply batchinv_frame; [exact HI| | |]; reflexivity].
      destruct (c_limiter c && (cy_allow s <=? cy_consumed s))%Z;
        [some_inv H; eapply batchinv_frame; [exact HI| | |]; reflexivity|].
      match type of H with match ?r with _ => _ end = _ => destruct r as [s1|] eqn:ER end.
      2:{ some_inv H. eapply batchinv_frame; [exact HI| | |]; reflexivity. }
      assert (F : batches s1 = batches s /\ next_bid s1 = next_bid s /\ g_started s1 = g_started s).
      { revert ER. destruct (o_batchable o0).
        - destruct (get_open (cy_open s) (o_w o0)); intro ER;
            [apply try_reserve_batch in ER; tauto | inv ER; tauto].
        - intro ER. apply try_reserve_batch in ER. tauto. }
      destruct F as (F1 & F2 & F3).
      destruct (take_op c (remove_at s1 i) o0) as [s2 ev] eqn:ET. some_inv H.
      eapply take_op_batchinv; [exact ET|].
      destruct (remove_at_batch s1 i) as (R1 & R2 & R3).
      eapply batchinv_frame; [exact HI| | |]; congruence.
  - (* cycle raise *)
    destruct (loop s); try discriminate.
    destruct (get_open (cy_open s) w) as [|o1 l1] eqn:EG; [discriminate|].
    match type of H with Some ?p = _ => destruct p as [s2 ev] eqn:ER end. some_inv H.
    eapply raise_batchinv; [exact ER|]. eapply batchinv_frame; [exact HI| | |]; reflexivity.
  - (* batch start: one MakeAttempt *)
    destruct (find_batch b (batches s)) as [bt|] eqn:EF; [|discriminate].
    destruct (find_batch_in _ _ _ EF) as [I1 I2].
    cases_in H; some_inv H.
    eapply (batchinv_update s bt (bt <| b_bumped := S (b_bumped bt) |>) (fun x => x));
      [exact HI|exact I1|reflexivity|auto| left; reflexivity | reflexivity | reflexivity].
  - (* callback entered *)
    destruct (find_batch b (batches s)) as [bt|] eqn:EF; [|discriminate].
    destruct (find_batch_in _ _ _ EF) as [I1 I2].
    destruct (b_started bt && negb (b_entered bt)) eqn:EG; [|discriminate]. some_inv H. bool_hyps.
    pose proof HI as (N & F & NS & FS & E).
    assert (Hnot : ~ In b (g_started s)).
    { intro X. rewrite <- I2 in X. specialize (E _ I1 X). congruence. }
    match goal with |- BatchInv (_ <| batches := update_batch ?x _ |> <| g_started := _ |>) =>
      set (bt' := x) end.
    assert (HB : BatchInv (s <| batches := update_batch bt' (batches s) |>)).
    { eapply (batchinv_update s bt bt' (fun x => x));
        [exact HI|exact I1|reflexivity|auto| left; reflexivity | reflexivity | reflexivity]. }
    destruct HB as (N' & F' & NS' & FS' & E'). simpl in *.
    unfold BatchInv. simpl. repeat split; try assumption.
    + constructor; assumption.
    + constructor; [|assumption]. rewrite Forall_forall in F. specialize (F _ I1). lia.
    + intros b2 X Y. destruct Y as [Y|Y]; [|now apply E'].
      apply update_batch_in in X; [|exact N]. destruct X as [X|[X1 X2]]; [subst b2; reflexivity|].
      exfalso. apply X2. unfold bt'. simpl. lia.
  - (* callback returned *)
    destruct (find_batch b (batches s)) as [bt|] eqn:EF; [|discriminate].
    destruct (find_batch_in _ _ _ EF) as [I1 I2].
    cases_in H; some_inv H.
    eapply (batchinv_update s bt (bt <| b_returned := true |>) (fun x => x));
      [exact HI|exact I1|reflexivity|auto| right; reflexivity | reflexivity | reflexivity].
  - (* batch done *)
    destruct (find_batch b (batches s)) as [bt|] eqn:EF; [|discriminate].
    destruct (find_batch_in _ _ _ EF) as [I1 I2].
    cases_in H; some_inv H;
    (eapply (batchinv_update s bt (bt <| b_done := true |>) (fun x => x));
      [exact HI|exact I1|reflexivity|auto| right; reflexivity | reflexivity | reflexivity]).
Qed.

Lemma batchinv_init c : BatchInv (init c).
Proof. unfold BatchInv. simpl. repeat split; try constructor. intros b []. Qed.

Theorem batchinv_reachable c s : reachable c s -> BatchInv s.
Proof.
  apply reachable_inv; [apply batchinv_init|].
  intros s0 l s1 o _ HI HS. eapply batchinv_step; eauto.
Qed.

(* ------------------------------------------------------------------ nothing is raised after shutdown *)

Lemma exited_step c s l s' o :
  phase_ s <> PUninit ->
  loop s = LExited -> step c s l = Some (s', o) ->
  loop s' = LExited /\ g_raised s' = g_raised s /\ phase_ s' <> PUninit.
Proof.
  intros HP HL H.
  destruct l; simpl in H; unfold_step H; unfold do_cycle_visit, loop_idle in *; rewrite ?HL in H;
    cases_in H; try some_inv H; simpl; try (repeat split; try assumption; try reflexivity; congruence);
    try discriminate; try congruence.
Qed.

(* in a settled state every live batch has entered its callback *)
Lemma quiescent_entered c s b :
  quiescent c s = true -> In b (batches s) -> NoDup (map b_id (batches s)) -> b_entered b = true.
Proof.
  unfold quiescent. intros Q I N. rewrite forallb_forall in Q.
  assert (FB : find_batch (b_id b) (batches s) = Some b).
  { revert I N. generalize (batches s). induction l as [|b0 l IH]; simpl; [tauto|].
    intros I N. inversion N as [|? ? N1 N2]; subst.
    destruct (Nat.eqb (b_id b0) (b_id b)) eqn:E.
    - destruct I as [I|I]; [now subst|]. apply Nat.eqb_eq in E. exfalso. apply N1. rewrite E.
      now apply in_map.
    - destruct I as [I|I]; [subst; rewrite Nat.eqb_refl in E; discriminate|auto]. }
  assert (C1 : In (IBatchStart (b_id b)) (candidates c s) /\ In (ICbEnter (b_id b)) (candidates c s)).
  { unfold candidates. split; repeat (apply in_or_app; right); apply in_flat_map; exists b;
      (split; [exact I|simpl; tauto]). }
  destruct C1 as [C1 C2].
  pose proof (Q _ C1) as Q1. pose proof (Q _ C2) as Q2. simpl in Q1, Q2.
  unfold do_batch_start, do_cb_enter in *. rewrite FB in *.
  destruct (b_entered b); [reflexivity|].
  destruct (nth_error (b_ops b) (b_bumped b)) eqn:EN; [discriminate|].
  unfold b_started in Q2. apply nth_error_None in EN. apply Nat.leb_le in EN. rewrite EN in Q2.
  simpl in Q2. discriminate.
Qed.

(* ------------------------------------------------------------------ consequences *)

Lemma ids_perm l1 l2 : Permutation l1 l2 -> Permutation (ids l1) (ids l2).
Proof. unfold ids. apply Permutation_map. Qed.

(* no instance is in two places at once *)
Lemma places_nodup c s :
  reachable c s -> NoDup (ids (buffer s ++ open_ops s ++ raised_ops s ++ g_discarded s)).
Proof.
  intro R. destruct (conserved_reachable c s R) as [P _]. destruct (idinv_reachable c s R) as [N _].
  eapply Permutation_NoDup; [apply ids_perm; exact P|].
  unfold live_ids in N.
  apply nodup_app_inv in N. destruct N as (_ & N & _).
  apply nodup_app_inv in N. destruct N as (_ & N & _).
  apply nodup_app_inv in N. destruct N as (_ & N & _).
  apply nodup_app_inv in N. destruct N as (N & _ & _). exact N.
Qed.

(* a call that returned an error is never buffered, batched or delivered *)
Lemma failed_never_placed c s id :
  reachable c s -> In id (g_failed s) ->
  ~ In id (ids (buffer s ++ open_ops s ++ raised_ops s ++ g_discarded s)).
Proof.
  intros R F X. destruct (conserved_reachable c s R) as [P _]. destruct (idinv_reachable c s R) as [N _].
  assert (Y : In id (ids (g_inserted s))).
  { eapply Permutation_in; [symmetry; apply ids_perm; exact P|exact X]. }
  unfold live_ids in N.
  apply nodup_app_inv in N. destruct N as (_ & N & _).
  apply nodup_app_inv in N. destruct N as (_ & N & _).
  apply nodup_app_inv in N. destruct N as (_ & N & _).
  apply nodup_app_inv in N. destruct N as (_ & _ & N). exact (N id Y F).
Qed.

(* after the shutdown event no batch is ever raised, whatever happens next *)
Lemma exited_run c : forall ls s s' os,
  phase_ s <> PUninit ->
  loop s = LExited -> run c s ls = Some (s', os) -> g_raised s' = g_raised s.
Proof.
  induction ls as [|l ls IH]; intros s s' os HP HL H; simpl in H.
  - now inv H.
  - destruct (step c s l) as [[s1 o1]|] eqn:E; [|discriminate].
    destruct (run c s1 ls) as [[s2 o2]|] eqn:E2; [|discriminate]. inv H.
    destruct (exited_step _ _ _ _ _ HP HL E) as (L1 & G1 & P1).
    rewrite <- G1. eapply IH; [exact P1|exact L1|exact E2].
Qed.
