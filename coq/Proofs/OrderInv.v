(* Proofs/OrderInv.v — enqueue order (C05).

   ins s: the operations in the order in which they entered the buffer (oldest first).
   sub l1 l2: l1 is a subsequence of l2 (same relative order).
   OInv: the buffer, every batch under construction followed by the part of the buffer the cycle
   has not visited yet, and every batch ever raised are subsequences of ins.  Hence operations
   keep enqueue order inside a batch, whatever the slot limit makes the cycle skip.
   FInv (no slot limit, or V1): operations are always taken from the head, so per watcher the
   batchable operations released so far, then its batch under construction, then the whole
   buffer form a subsequence of ins — and likewise all non-batchable operations: each class is
   released in enqueue order across batches and cycles. *)
From Coq Require Import List ZArith Bool Lia Permutation.
From RecordUpdate Require Import RecordUpdate.
From GB Require Import Model.Allowance Model.Batcher Proofs.Tactics Proofs.C01Inv Proofs.BatcherInv3.
Import ListNotations.

Inductive sub {A} : list A -> list A -> Prop :=
| sub_nil l : sub [] l
| sub_skip x l1 l2 : sub l1 l2 -> sub l1 (x :: l2)
| sub_take x l1 l2 : sub l1 l2 -> sub (x :: l1) (x :: l2).

Section Sub.
Context {A : Type}.
Implicit Types l : list A.

Lemma sub_refl l : sub l l.
Proof. induction l; [apply sub_nil|apply sub_take; assumption]. Qed.

Lemma sub_app_r l1 l2 l3 : sub l1 l2 -> sub l1 (l2 ++ l3).
Proof. induction 1; simpl; [apply sub_nil|apply sub_skip; assumption|apply sub_take; assumption]. Qed.

Lemma sub_trans l1 l2 l3 : sub l1 l2 -> sub l2 l3 -> sub l1 l3.
Proof.
  intros H1 H2. revert l1 H1. induction H2 as [l|x m1 m2 _ IH|x m1 m2 _ IH]; intros l1 H1.
  - inversion H1. apply sub_nil.
  - apply sub_skip. auto.
  - inversion H1; subst; [apply sub_nil|apply sub_skip; auto|apply sub_take; auto].
Qed.

Lemma sub_suffix l1 l2 : sub l2 (l1 ++ l2).
Proof. induction l1; simpl; [apply sub_refl|apply sub_skip; auto]. Qed.

Lemma sub_prefix l1 l2 : sub l1 (l1 ++ l2).
Proof. apply sub_app_r, sub_refl. Qed.

Lemma sub_app_mono (a b c d : list A) : sub a b -> sub c d -> sub (a ++ c) (b ++ d).
Proof.
  induction 1; simpl; intro H2.
  - eapply sub_trans; [exact H2|apply sub_suffix].
  - apply sub_skip; auto.
  - apply sub_take; auto.
Qed.

Lemma sub_snoc l1 l2 x : sub l1 l2 -> sub (l1 ++ [x]) (l2 ++ [x]).
Proof. intro H. apply sub_app_mono; [exact H|apply sub_refl]. Qed.

Lemma sub_drop_mid (a : list A) x c : sub (a ++ c) (a ++ x :: c).
Proof. apply sub_app_mono; [apply sub_refl|apply sub_skip; apply sub_refl]. Qed.

Lemma sub_remove_nth : forall i l, sub (remove_nth i l) l.
Proof.
  induction i as [|i IH]; intros [|y l]; simpl; try apply sub_nil.
  - apply sub_skip, sub_refl.
  - apply sub_take, IH.
Qed.

Lemma sub_filter (f : A -> bool) l : sub (filter f l) l.
Proof. induction l as [|a l IH]; simpl; [apply sub_nil|]. destruct (f a); [apply sub_take|apply sub_skip]; exact IH. Qed.

Lemma skipn_nth : forall i l x, nth_error l i = Some x -> skipn i l = x :: skipn (S i) l.
Proof.
  induction i as [|i IH]; intros [|y l] x H; simpl in *; try discriminate.
  - now inv H.
  - now apply IH.
Qed.

Lemma skipn_remove_nth : forall i l, skipn i (remove_nth i l) = skipn (S i) l.
Proof.
  induction i as [|i IH]; intros [|y l]; try reflexivity.
  change (skipn i (remove_nth i l) = skipn (S i) l). apply IH.
Qed.

Lemma skipn_snoc : forall i l x, (i <= length l)%nat -> skipn i (l ++ [x]) = skipn i l ++ [x].
Proof.
  induction i as [|i IH]; intros [|y l] x H; simpl in *; try reflexivity; try lia. apply IH. lia.
Qed.

Lemma skipn_sub : forall i l, sub (skipn (S i) l) (skipn i l).
Proof.
  induction i as [|i IH]; intros [|y l]; simpl; try apply sub_nil.
  - apply sub_skip, sub_refl.
  - apply (IH l).
Qed.
End Sub.

(* the cycle allowance (binary64 arithmetic in V1) plays no role here: keep conversion from unfolding it *)
Local Opaque allowance.

Definition ins (s : state) : list op := rev (g_inserted s).

(* the part of the buffer the running cycle has not visited *)
Definition ctail (c : cfg) (s : state) : list op :=
  match c_gen c with
  | V1 => buffer s
  | V2 => match cy_cur s with Some i => skipn i (buffer s) | None => [] end
  end.

Definition OInv (c : cfg) (s : state) : Prop :=
  sub (buffer s) (ins s)
  /\ (forall w, sub (get_open (cy_open s) w ++ ctail c s) (ins s))
  /\ Forall (fun p => sub (snd p) (ins s)) (g_raised s)
  /\ (c_gen c = V2 -> forall i, cy_cur s = Some i -> (i < length (buffer s))%nat).

Lemma get_open_nil w : get_open [] w = [].
Proof. reflexivity. Qed.

Lemma raise_order c s w ops s' ev :
  raise c s w ops = (s', ev) ->
  g_inserted s' = g_inserted s /\ buffer s' = buffer s /\ cy_cur s' = cy_cur s /\ cy_open s' = cy_open s
  /\ g_raised s' = (w, ops) :: g_raised s.
Proof. unfold raise. intro H. inv H. simpl. repeat split; reflexivity. Qed.

Lemma take_op_order c s o s' ev :
  take_op c s o = (s', ev) ->
  g_inserted s' = g_inserted s /\ buffer s' = buffer s /\ cy_cur s' = cy_cur s
  /\ (forall w', sub (get_open (cy_open s') w') (get_open (cy_open s) w' ++ (if Nat.eqb (o_w o) w' then [o] else [])))
  /\ (g_raised s' = g_raised s
      \/ exists b, g_raised s' = (o_w o, b) :: g_raised s /\ sub b (get_open (cy_open s) (o_w o) ++ [o])).
Proof.
  unfold take_op. intro H.
  destruct (o_batchable o).
  - match type of H with (if ?b then _ else _) = _ => destruct b end.
    + apply raise_order in H. simpl in H. destruct H as (H1 & H2 & H3 & H4 & H5).
      rewrite H1, H2, H3, H4, H5. repeat (split; [reflexivity|]). split.
      * intro w'. rewrite get_set_open. destruct (Nat.eqb (o_w o) w'); [constructor|rewrite app_nil_r; apply sub_refl].
      * right. eexists. split; [reflexivity|apply sub_refl].
    + inv H. simpl. repeat (split; [reflexivity|]). split; [|now left].
      intro w'. rewrite get_set_open. destruct (Nat.eqb (o_w o) w') eqn:E.
      * apply Nat.eqb_eq in E. subst w'. apply sub_refl.
      * rewrite app_nil_r. apply sub_refl.
  - apply raise_order in H. simpl in H. destruct H as (H1 & H2 & H3 & H4 & H5).
    rewrite H1, H2, H3, H4, H5. repeat (split; [reflexivity|]). split.
    + intro w'. apply sub_prefix.
    + right. eexists. split; [reflexivity|apply sub_suffix].
Qed.

Lemma forall_sub_app (l : list (nat * list op)) a b :
  Forall (fun p => sub (snd p) a) l -> Forall (fun p => sub (snd p) (a ++ b)) l.
Proof. intro F. eapply Forall_impl; [|exact F]. intros p H. now apply sub_app_r. Qed.

Lemma remove_at_order s i :
  g_inserted (remove_at s i) = g_inserted s /\ buffer (remove_at s i) = remove_nth i (buffer s)
  /\ cy_open (remove_at s i) = cy_open s /\ g_raised (remove_at s i) = g_raised s
  /\ cy_cur (remove_at s i) = (if (i <? length (remove_nth i (buffer s)))%nat then Some i else None).
Proof. unfold remove_at, signal_one, next_cursor. simpl. destruct (waiting s); simpl; repeat split; reflexivity. Qed.

Lemma try_reserve_order c s s' :
  try_reserve c s = Some s' ->
  g_inserted s' = g_inserted s /\ buffer s' = buffer s /\ cy_open s' = cy_open s /\ g_raised s' = g_raised s
  /\ cy_cur s' = cy_cur s.
Proof. unfold try_reserve. intro H. cases_in H; some_inv H; simpl; repeat split; reflexivity. Qed.

Lemma oinv_fields c s1 s2 :
  g_inserted s2 = g_inserted s1 -> buffer s2 = buffer s1 -> cy_open s2 = cy_open s1 ->
  g_raised s2 = g_raised s1 -> cy_cur s2 = cy_cur s1 -> OInv c s1 -> OInv c s2.
Proof. intros F1 F2 F3 F4 F5 H. unfold OInv, ctail, ins in *. rewrite F1, F2, F3, F4, F5. exact H. Qed.

Ltac oinv_same s :=
  match goal with HI : OInv _ s |- _ => refine (oinv_fields _ _ _ _ _ _ _ _ HI); simpl; reflexivity end.

Lemma oinv_insert c s s2 o0 :
  OInv c s ->
  g_inserted s2 = o0 :: g_inserted s -> buffer s2 = buffer s ++ [o0] -> cy_open s2 = cy_open s ->
  g_raised s2 = g_raised s -> cy_cur s2 = cy_cur s ->
  OInv c s2.
Proof.
  intros (I1 & I2 & I3 & I4) F1 F2 F3 F4 F5.
  unfold OInv, ctail, ins in *. rewrite F1, F2, F3, F4, F5. simpl. repeat split.
  - now apply sub_snoc.
  - intro w. specialize (I2 w). destruct (c_gen c).
    + rewrite app_assoc. now apply sub_snoc.
    + destruct (cy_cur s) as [i|] eqn:EC.
      * rewrite skipn_snoc by (specialize (I4 eq_refl i eq_refl); lia). rewrite app_assoc. now apply sub_snoc.
      * now apply sub_app_r.
  - now apply forall_sub_app.
  - intros G i E. specialize (I4 G i E). rewrite app_length. simpl. lia.
Qed.

Lemma oinv_step c s l s' o :
  OInv c s -> step c s l = Some (s', o) -> OInv c s'.
Proof.
  intros HI H.
  destruct l; simpl in H; unfold_step H.
  all: try (cases_in H; try some_inv H; oinv_same s; fail).
  - (* insert *)
    destruct (find_call call (counted s)) as [[o1 h]|] eqn:EF; [|discriminate].
    destruct h; [discriminate|].
    cases_in H; some_inv H; try (oinv_same s; fail).
    apply (oinv_insert c s _ o1 HI); simpl; reflexivity.
  - (* retry *)
    destruct (c_gen c) eqn:EG; [discriminate|].
    destruct (find_op call (woken s)) as [o1|] eqn:EF; [|discriminate].
    cases_in H; some_inv H; try (oinv_same s; fail).
    apply (oinv_insert c s _ o1 HI); simpl; reflexivity.
  - (* shutdown *)
    destruct HI as (I1 & I2 & I3 & I4).
    cases_in H; some_inv H; unfold OInv, ctail, ins in *; simpl.
    + rewrite Heqg in *. repeat split; assumption.
    + rewrite Heqg in *. repeat split; try assumption.
      * constructor.
      * intro w. specialize (I2 w). rewrite app_nil_r. eapply sub_trans; [apply sub_prefix|exact I2].
      * intros; discriminate.
  - (* cycle begin *)
    destruct HI as (I1 & I2 & I3 & I4).
    assert (G : OInv c (s <| flush_tok := false |> <| loop := LCycle |> <| cy_consumed := 0%Z |> <| cy_open := [] |>
                          <| cy_cur := head_cursor s |>)).
    { unfold OInv, ctail, ins, head_cursor in *. simpl. repeat split; try assumption.
      - intro w. destruct (c_gen c); simpl; [exact I1|]. destruct (buffer s); simpl; [apply sub_nil|exact I1].
      - intros _ i E. destruct (buffer s); inv E. simpl. lia. }
    destruct (loop_idle s && flush_tok s); [|discriminate]. some_inv H.
    refine (oinv_fields c _ _ _ _ _ _ _ G); simpl; reflexivity.
  - (* visit *)
    unfold do_cycle_visit in H. destruct (loop s) eqn:EL; try discriminate.
    destruct HI as (I1 & I2 & I3 & I4).
    destruct (c_gen c) eqn:EG.
    + unfold visit_v1 in H.
      destruct (c_limiter c && (cy_allow s <? cy_consumed s))%Z.
      { some_inv H. unfold OInv, ctail, ins in *. rewrite EG in *. simpl. repeat split; try assumption; try (intro; discriminate). }
      destruct (buffer s) as [|o0 rest] eqn:EB.
      { some_inv H. unfold OInv, ctail, ins in *. rewrite EG in *. simpl. rewrite EB in *. repeat split; try assumption; try (intro; discriminate). }
      unfold ctail in I2. rewrite EG in I2. rewrite EB in I2.
      destruct (waiting s) as [|x r] eqn:EW.
      * destruct (take_op c (s <| buffer := rest |>) o0) as [s2 ev] eqn:ET. some_inv H.
        apply take_op_order in ET. simpl in ET. destruct ET as (T1 & T2 & T3 & T4 & T5).
        unfold OInv, ctail, ins. rewrite EG, T1, T2, T3. repeat split.
        -- eapply sub_trans; [apply sub_skip, sub_refl|exact I1].
        -- intro w. eapply sub_trans; [apply sub_app_mono; [apply T4|apply sub_refl]|].
           rewrite <- app_assoc. eapply sub_trans; [|exact (I2 w)].
           apply sub_app_mono; [apply sub_refl|]. destruct (Nat.eqb (o_w o0) w); simpl; [apply sub_refl|apply sub_skip, sub_refl].
        -- destruct T5 as [T5|(b & T5 & T6)]; rewrite T5; [exact I3|]. constructor; [|exact I3]. simpl.
           eapply sub_trans; [exact T6|]. eapply sub_trans; [|exact (I2 (o_w o0))].
           apply sub_app_mono; [apply sub_refl|]. apply sub_take, sub_nil.
        -- intro; discriminate.
      * destruct (take_op c (s <| buffer := rest ++ [x] |> <| waiting := r |>
                               <| g_inserted := x :: g_inserted s |>) o0) as [s2 ev] eqn:ET.
        some_inv H. apply take_op_order in ET. simpl in ET. destruct ET as (T1 & T2 & T3 & T4 & T5).
        unfold OInv, ctail, ins. rewrite EG, T1, T2, T3. simpl. repeat split.
        -- apply sub_snoc. eapply sub_trans; [apply sub_skip, sub_refl|exact I1].
        -- intro w. eapply sub_trans; [apply sub_app_mono; [apply T4|apply sub_refl]|].
           rewrite <- app_assoc. rewrite app_assoc. rewrite app_assoc. apply sub_snoc. rewrite <- app_assoc.
           eapply sub_trans; [|exact (I2 w)].
           apply sub_app_mono; [apply sub_refl|]. destruct (Nat.eqb (o_w o0) w); simpl; [apply sub_refl|apply sub_skip, sub_refl].
        -- destruct T5 as [T5|(b & T5 & T6)]; rewrite T5; [now apply forall_sub_app|].
           constructor; [|now apply forall_sub_app]. simpl. apply sub_app_r.
           eapply sub_trans; [exact T6|]. eapply sub_trans; [|exact (I2 (o_w o0))].
           apply sub_app_mono; [apply sub_refl|]. apply sub_take, sub_nil.
        -- intro; discriminate.
    + unfold visit_v2 in H. unfold ctail in I2. rewrite EG in I2.
      destruct (cy_cur s) as [i|] eqn:EC.
      2:{ some_inv H. unfold OInv, ctail, ins in *. rewrite EG. simpl. rewrite EC. repeat split; try assumption; try (intros; discriminate). }
      destruct (nth_error (buffer s) i) as [o0|] eqn:EN.
      2:{ some_inv H. unfold OInv, ctail, ins in *. rewrite EG. simpl. rewrite EC. repeat split; try assumption;
          try (intros G j E; inv E; now apply I4). }
      destruct (c_limiter c && (cy_allow s <=? cy_consumed s))%Z.
      { some_inv H. unfold OInv, ctail, ins in *. rewrite EG. simpl. rewrite EC. repeat split; try assumption;
        try (intros G j E; inv E; now apply I4). }
      match type of H with match ?r with _ => _ end = _ => destruct r as [s1|] eqn:ER end.
      2:{ (* skip *)
          some_inv H. unfold OInv, ctail, ins in *. rewrite EG. simpl. unfold next_cursor. repeat split; try assumption.
          - intro w. destruct (S i <? length (buffer s))%nat.
            + eapply sub_trans; [|exact (I2 w)]. apply sub_app_mono; [apply sub_refl|apply skipn_sub].
            + rewrite app_nil_r. eapply sub_trans; [apply sub_prefix|exact (I2 w)].
          - intros _ j E. destruct (S i <? length (buffer s))%nat eqn:EL2; inv E. now apply Nat.ltb_lt in EL2. }
      assert (F : g_inserted s1 = g_inserted s /\ buffer s1 = buffer s /\ cy_open s1 = cy_open s /\ g_raised s1 = g_raised s
                  /\ cy_cur s1 = cy_cur s).
      { revert ER. destruct (o_batchable o0).
        - destruct (get_open (cy_open s) (o_w o0)); intro ER;
            [apply try_reserve_order in ER; exact ER | inv ER; repeat split; reflexivity].
        - intro ER. apply try_reserve_order in ER. exact ER. }
      destruct F as (F1 & F2 & F3 & F4 & F5).
      destruct (take_op c (remove_at s1 i) o0) as [s2 ev] eqn:ET. some_inv H.
      apply take_op_order in ET. destruct ET as (T1 & T2 & T3 & T4 & T5).
      destruct (remove_at_order s1 i) as (R1 & R2 & R3 & R4 & R5).
      rewrite (skipn_nth _ _ _ EN) in I2.
      unfold OInv, ctail, ins. rewrite EG, T1, T2, T3, R1, R2, R5, F1, F2.
      rewrite R3, F3 in T4. rewrite R4, F4 in T5. rewrite R3, F3 in T5.
      assert (TL : (match (if (i <? length (remove_nth i (buffer s)))%nat then Some i else None) with
                    | Some j => skipn j (remove_nth i (buffer s)) | None => [] end) = skipn (S i) (buffer s)).
      { destruct (i <? length (remove_nth i (buffer s)))%nat eqn:EL2.
        - apply skipn_remove_nth.
        - apply Nat.ltb_ge in EL2. rewrite <- skipn_remove_nth. symmetry. now apply skipn_all2. }
      repeat split.
      * eapply sub_trans; [apply sub_remove_nth|exact I1].
      * intro w. rewrite TL. eapply sub_trans; [apply sub_app_mono; [apply T4|apply sub_refl]|].
        rewrite <- app_assoc. eapply sub_trans; [|exact (I2 w)].
        apply sub_app_mono; [apply sub_refl|]. destruct (Nat.eqb (o_w o0) w); simpl; [apply sub_refl|apply sub_skip, sub_refl].
      * destruct T5 as [T5|(b & T5 & T6)]; rewrite T5; [exact I3|]. constructor; [|exact I3]. simpl.
        eapply sub_trans; [exact T6|]. eapply sub_trans; [|exact (I2 (o_w o0))].
        apply sub_app_mono; [apply sub_refl|]. apply sub_take, sub_nil.
      * intros _ j E. destruct (i <? length (remove_nth i (buffer s)))%nat eqn:EL2; inv E. now apply Nat.ltb_lt in EL2.
  - (* cycle raise *)
    destruct (loop s) eqn:EL; try discriminate.
    destruct (get_open (cy_open s) w) as [|o1 l1] eqn:EG; [discriminate|].
    destruct (raise c (s <| cy_open := set_open (cy_open s) w [] |>) w (o1 :: l1)) as [s2 ev] eqn:ER.
    some_inv H. apply raise_order in ER. simpl in ER. destruct ER as (T1 & T2 & T3 & T4 & T5).
    destruct HI as (I1 & I2 & I3 & I4).
    unfold OInv, ctail, ins in *. rewrite T1, T2, T3, T4, T5. repeat split; try assumption.
    + intro w'. rewrite get_set_open. destruct (Nat.eqb w w') eqn:E; [|exact (I2 w')].
      simpl. eapply sub_trans; [apply sub_suffix|exact (I2 w')].
    + constructor; [|exact I3]. simpl. rewrite <- EG. eapply sub_trans; [apply sub_prefix|exact (I2 w)].
  - (* cycle end *)
    destruct (loop s) eqn:EL; try discriminate.
    destruct (open_empty (cy_open s)) eqn:EO; [|discriminate].
    destruct HI as (I1 & I2 & I3 & I4).
    some_inv H. unfold OInv, ctail, ins in *. simpl. repeat split; try assumption.
    + intro w. destruct (c_gen c); simpl; [exact I1|constructor].
    + intros; discriminate.
Qed.

Lemma oinv_init c : OInv c (init c).
Proof. unfold OInv, ctail, ins. simpl. repeat split; try constructor. - intro w. destruct (c_gen c); constructor. - intros; discriminate. Qed.

Theorem oinv_reachable c s : reachable c s -> OInv c s.
Proof.
  apply reachable_inv; [apply oinv_init|].
  intros s0 l s1 o _ HI HS. eapply oinv_step; eauto.
Qed.

(* every batch ever raised lists its operations in the order in which they entered the buffer *)
Theorem batches_in_enqueue_order c s w ops :
  reachable c s -> In (w, ops) (g_raised s) -> sub ops (ins s).
Proof.
  intros R I. destruct (oinv_reachable c s R) as (_ & _ & F & _). rewrite Forall_forall in F. exact (F _ I).
Qed.

(* and the buffer itself never reorders *)
Theorem buffer_in_enqueue_order c s : reachable c s -> sub (buffer s) (ins s).
Proof. intro R. exact (proj1 (oinv_reachable c s R)). Qed.

(* ------------------------------------------------------------------ release order across batches (no slot limit) *)

(* without a limit on concurrent batches (and in V1) a cycle always takes the head of the buffer *)
Definition fifo (c : cfg) : bool :=
  match c_gen c with V1 => true | V2 => (c_maxconc c =? 0)%nat end.

Inductive oclass := CB (w : nat) | CN.

Definition inclass (k : oclass) (o : op) : bool :=
  match k with CB w => o_batchable o && Nat.eqb (o_w o) w | CN => negb (o_batchable o) end.

Definition openk (s : state) (k : oclass) : list op :=
  match k with CB w => get_open (cy_open s) w | CN => [] end.

(* everything released so far, in the order of release *)
Definition rel (s : state) : list op := flat_map snd (rev (g_raised s)).

Definition FInv (c : cfg) (s : state) : Prop :=
  (forall k, sub (filter (inclass k) (rel s) ++ openk s k ++ buffer s) (ins s))
  /\ (c_gen c = V2 -> cy_cur s = None \/ cy_cur s = Some 0%nat).

Lemma rel_cons s w b : flat_map snd (rev ((w, b) :: g_raised s)) = rel s ++ b.
Proof. unfold rel. simpl. rewrite flat_map_app. simpl. now rewrite app_nil_r. Qed.

Lemma filter_all {A} (f : A -> bool) l : (forall x, In x l -> f x = true) -> filter f l = l.
Proof.
  induction l as [|a l IH]; intro H; simpl; [reflexivity|].
  rewrite (H a (or_introl eq_refl)). f_equal. apply IH. intros x I. apply H. now right.
Qed.

Lemma filter_none {A} (f : A -> bool) l : (forall x, In x l -> f x = false) -> filter f l = [].
Proof.
  induction l as [|a l IH]; intro H; simpl; [reflexivity|].
  rewrite (H a (or_introl eq_refl)). apply IH. intros x I. apply H. now right.
Qed.

(* what a batch of class (CB w) contributes to each class *)
Lemma filter_batch k w b :
  (forall x, In x b -> o_batchable x = true /\ o_w x = w) ->
  filter (inclass k) b = match k with CB w' => if Nat.eqb w w' then b else [] | CN => [] end.
Proof.
  intro H. destruct k as [w'|].
  - destruct (Nat.eqb w w') eqn:E.
    + apply Nat.eqb_eq in E. subst w'. apply filter_all. intros x I. destruct (H x I) as [B W].
      simpl. rewrite B, W, Nat.eqb_refl. reflexivity.
    + apply filter_none. intros x I. destruct (H x I) as [B W]. simpl. rewrite B, W, E. reflexivity.
  - apply filter_none. intros x I. destruct (H x I) as [B _]. simpl. now rewrite B.
Qed.

Lemma open_class c s w :
  reachable c s -> forall x, In x (get_open (cy_open s) w) -> o_batchable x = true /\ o_w x = w.
Proof.
  intros R x I. destruct (watcher_reachable c s R) as [W _]. destruct (shape_reachable c s R) as [S _].
  specialize (W w). specialize (S w). destruct S as [S _]. rewrite Forall_forall in W. rewrite forallb_forall in S.
  split; [apply S|apply W]; exact I.
Qed.

Lemma open_empty_get : forall o w, open_empty o = true -> get_open o w = [].
Proof.
  induction o as [|[k l] o IH]; intros w H; simpl in *; [reflexivity|].
  apply andb_prop in H. destruct H as [H1 H2]. destruct l; [|discriminate].
  destruct (Nat.eqb k w); [reflexivity|now apply IH].
Qed.

Lemma open_ops_nil_get : forall o w, flat_map snd o = [] -> get_open o w = [].
Proof.
  induction o as [|[k l] o IH]; intros w H; simpl in *; [reflexivity|].
  apply app_eq_nil in H. destruct H as [H1 H2]. subst l. destruct (Nat.eqb k w); [reflexivity|now apply IH].
Qed.

(* the effect of take_op on the classes, given that the head o left the buffer *)
Lemma take_op_fifo c s o s' ev :
  (forall x, In x (get_open (cy_open s) (o_w o)) -> o_batchable x = true /\ o_w x = o_w o) ->
  take_op c s o = (s', ev) ->
  forall k, filter (inclass k) (rel s') ++ openk s' k
            = filter (inclass k) (rel s) ++ openk s k ++ (if inclass k o then [o] else []).
Proof.
  intros HC H k. unfold take_op in H. unfold rel, openk.
  destruct (o_batchable o) eqn:EB.
  - assert (HB : forall x, In x (get_open (cy_open s) (o_w o) ++ [o]) -> o_batchable x = true /\ o_w x = o_w o).
    { intros x I. apply in_app_or in I. destruct I as [I|[I|[]]]; [now apply HC|subst; tauto]. }
    match type of H with (if ?b then _ else _) = _ => destruct b end.
    + apply raise_order in H. simpl in H. destruct H as (_ & _ & _ & H4 & H5).
      rewrite H5, H4, rel_cons, filter_app. fold (rel s). rewrite (filter_batch k _ _ HB).
      destruct k as [w'|]; simpl; rewrite ?EB; simpl.
      * rewrite get_set_open. destruct (Nat.eqb (o_w o) w') eqn:E.
        -- apply Nat.eqb_eq in E. subst w'. now rewrite app_nil_r.
        -- now rewrite !app_nil_r.
      * now rewrite !app_nil_r.
    + inv H. simpl. destruct k as [w'|]; simpl; rewrite ?EB; simpl.
      * rewrite get_set_open. destruct (Nat.eqb (o_w o) w') eqn:E.
        -- apply Nat.eqb_eq in E. subst w'. reflexivity.
        -- now rewrite app_nil_r.
      * now rewrite !app_nil_r.
  - apply raise_order in H. simpl in H. destruct H as (_ & _ & _ & H4 & H5).
    rewrite H5, H4, rel_cons, filter_app. fold (rel s).
    destruct k as [w'|]; simpl; rewrite EB; simpl; now rewrite ?app_nil_r.
Qed.

Lemma finv_step c s l s' o :
  fifo c = true -> reachable c s -> FInv c s -> step c s l = Some (s', o) -> FInv c s'.
Proof.
  intros FF R [I1 I2] H.
  pose proof (conserved_reachable c s R) as (_ & HC & _).
  assert (SAME : forall s2, g_inserted s2 = g_inserted s -> buffer s2 = buffer s -> cy_open s2 = cy_open s ->
                            g_raised s2 = g_raised s -> cy_cur s2 = cy_cur s -> FInv c s2).
  { intros s2 F1 F2 F3 F4 F5. unfold FInv, rel, openk, ins in *. rewrite F1, F2, F3, F4, F5. split; assumption. }
  assert (INS : forall s2 o0, g_inserted s2 = o0 :: g_inserted s -> buffer s2 = buffer s ++ [o0] -> cy_open s2 = cy_open s ->
                              g_raised s2 = g_raised s -> cy_cur s2 = cy_cur s -> FInv c s2).
  { intros s2 o0 F1 F2 F3 F4 F5. unfold FInv, rel, openk, ins in *. rewrite F1, F2, F3, F4, F5. split; [|assumption].
    intro k. simpl. rewrite !app_assoc. apply sub_snoc. rewrite <- !app_assoc. apply I1. }
  destruct l; simpl in H; unfold_step H.
  all: try (cases_in H; try some_inv H; apply SAME; simpl; reflexivity).
  - (* insert *)
    destruct (find_call call (counted s)) as [[o1 h]|] eqn:EF; [|discriminate].
    destruct h; [discriminate|].
    cases_in H; some_inv H; try (apply SAME; simpl; reflexivity).
    apply (INS _ o1); simpl; reflexivity.
  - (* retry *)
    destruct (c_gen c) eqn:EG; [discriminate|].
    destruct (find_op call (woken s)) as [o1|] eqn:EF; [|discriminate].
    cases_in H; some_inv H; try (apply SAME; simpl; reflexivity).
    apply (INS _ o1); simpl; reflexivity.
  - (* shutdown *)
    cases_in H; some_inv H; try (apply SAME; simpl; reflexivity).
    unfold FInv, rel, openk, ins. simpl. split; [|intro; now left].
    intro k. rewrite app_nil_r. eapply sub_trans; [|exact (I1 k)]. rewrite app_assoc. apply sub_prefix.
  - (* cycle begin *)
    destruct (loop_idle s && flush_tok s) eqn:E; [|discriminate]. some_inv H.
    assert (EO : open_ops s = []).
    { apply HC. unfold in_cycle, loop_idle in *. destruct (loop s); try reflexivity; simpl in E; discriminate. }
    unfold FInv, rel, openk, ins. simpl. split.
    + intro k. specialize (I1 k). unfold rel, openk, ins in I1.
      destruct k as [w|]; simpl; [|exact I1]. rewrite (open_ops_nil_get _ w EO) in I1. exact I1.
    + intros _. unfold head_cursor. destruct (buffer s); [now left|now right].
  - (* visit *)
    unfold do_cycle_visit in H. destruct (loop s) eqn:EL; try discriminate.
    destruct (c_gen c) eqn:EG.
    + unfold visit_v1 in H.
      destruct (c_limiter c && (cy_allow s <? cy_consumed s))%Z.
      { some_inv H. apply SAME; simpl; try reflexivity; try assumption. }
      destruct (buffer s) as [|o0 rest] eqn:EB.
      { some_inv H. apply SAME; simpl; try reflexivity; try assumption; try (now rewrite EB). }
      destruct (waiting s) as [|x r] eqn:EW.
      * destruct (take_op c (s <| buffer := rest |>) o0) as [s2 ev] eqn:ET. some_inv H.
        pose proof (take_op_order _ _ _ _ _ ET) as (T1 & T2 & T3 & _). simpl in T1, T2, T3.
        assert (TF : forall k, filter (inclass k) (rel s2) ++ openk s2 k
                               = filter (inclass k) (rel s) ++ openk s k ++ (if inclass k o0 then [o0] else [])).
        { refine (take_op_fifo c _ o0 _ _ _ ET). simpl. apply (open_class c s (o_w o0) R). }
        unfold FInv, ins. rewrite T1, T2. split; [|intro; congruence].
        intro k. rewrite app_assoc, (TF k).
        eapply sub_trans; [|exact (I1 k)]. rewrite <- !app_assoc.
        apply sub_app_mono; [apply sub_refl|]. apply sub_app_mono; [apply sub_refl|].
        destruct (inclass k o0); simpl; [apply sub_refl|apply sub_skip, sub_refl].
      * destruct (take_op c (s <| buffer := rest ++ [x] |> <| waiting := r |>
                               <| g_inserted := x :: g_inserted s |>) o0) as [s2 ev] eqn:ET.
        some_inv H.
        pose proof (take_op_order _ _ _ _ _ ET) as (T1 & T2 & T3 & _). simpl in T1, T2, T3.
        assert (TF : forall k, filter (inclass k) (rel s2) ++ openk s2 k
                               = filter (inclass k) (rel s) ++ openk s k ++ (if inclass k o0 then [o0] else [])).
        { refine (take_op_fifo c _ o0 _ _ _ ET). simpl. apply (open_class c s (o_w o0) R). }
        unfold FInv, ins. rewrite T1, T2. split; [|intro; congruence].
        intro k. rewrite app_assoc, (TF k).
        rewrite !app_assoc. apply sub_snoc. rewrite <- !app_assoc.
        eapply sub_trans; [|exact (I1 k)].
        apply sub_app_mono; [apply sub_refl|]. apply sub_app_mono; [apply sub_refl|].
        destruct (inclass k o0); simpl; [apply sub_refl|apply sub_skip, sub_refl].
    + unfold visit_v2 in H.
      assert (MC : c_maxconc c = 0%nat).
      { unfold fifo in FF. rewrite EG in FF. now apply Nat.eqb_eq in FF. }
      destruct (cy_cur s) as [i|] eqn:EC.
      2:{ some_inv H. apply SAME; simpl; try reflexivity; try assumption. }
      assert (i = 0%nat) by (destruct (I2 eq_refl) as [X|X]; congruence). subst i.
      destruct (nth_error (buffer s) 0) as [o0|] eqn:EN.
      2:{ some_inv H. apply SAME; simpl; try reflexivity; try assumption. }
      destruct (buffer s) as [|o1 rest] eqn:EB; [discriminate|]. simpl in EN. inv EN.
      destruct (c_limiter c && (cy_allow s <=? cy_consumed s))%Z.
      { some_inv H. apply SAME; simpl; try reflexivity; try assumption; try (now rewrite EB). }
      match type of H with match ?r with _ => _ end = _ => destruct r as [s1|] eqn:ER end.
      2:{ exfalso. revert ER. unfold try_reserve. rewrite MC. simpl.
          destruct (o_batchable o0); [destruct (get_open (cy_open s) (o_w o0))|]; discriminate. }
      assert (s1 = s).
      { revert ER. unfold try_reserve. rewrite MC. simpl.
        destruct (o_batchable o0); [destruct (get_open (cy_open s) (o_w o0))|]; intro X; inv X; reflexivity. }
      subst s1.
      destruct (take_op c (remove_at s 0) o0) as [s2 ev] eqn:ET. some_inv H.
      pose proof (take_op_order _ _ _ _ _ ET) as (T1 & T2 & T3 & _).
      destruct (remove_at_order s 0) as (R1 & R2 & R3 & R4 & R5).
      assert (HCl : forall x, In x (get_open (cy_open (remove_at s 0)) (o_w o0)) -> o_batchable x = true /\ o_w x = o_w o0).
      { rewrite R3. apply (open_class c s _ R). }
      pose proof (take_op_fifo c _ o0 _ _ HCl ET) as TF.
      unfold FInv, ins. rewrite T1, T2, T3, R1, R2, R5, EB. simpl remove_nth. split.
      * intro k. rewrite app_assoc, (TF k). unfold rel, openk. rewrite R3, R4. fold (rel s). fold (openk s k).
        eapply sub_trans; [|exact (I1 k)]. rewrite <- !app_assoc.
        apply sub_app_mono; [apply sub_refl|]. apply sub_app_mono; [apply sub_refl|].
        destruct (inclass k o0); simpl; [apply sub_refl|apply sub_skip, sub_refl].
      * intros _. destruct (0 <? length rest)%nat; [now right|now left].
  - (* cycle raise *)
    destruct (loop s) eqn:EL; try discriminate.
    destruct (get_open (cy_open s) w) as [|o1 l1] eqn:EG; [discriminate|].
    destruct (raise c (s <| cy_open := set_open (cy_open s) w [] |>) w (o1 :: l1)) as [s2 ev] eqn:ER.
    some_inv H. apply raise_order in ER. simpl in ER. destruct ER as (T1 & T2 & T3 & T4 & T5).
    unfold FInv, ins, rel, openk. rewrite T1, T2, T3, T4, T5. split; [|exact I2].
    intro k. rewrite rel_cons, filter_app. fold (rel s).
    assert (HB : forall x, In x (o1 :: l1) -> o_batchable x = true /\ o_w x = w).
    { rewrite <- EG. apply (open_class c s w R). }
    rewrite (filter_batch k _ _ HB). specialize (I1 k). unfold openk, ins in I1.
    destruct k as [w'|]; simpl.
    + rewrite get_set_open. destruct (Nat.eqb w w') eqn:E.
      * apply Nat.eqb_eq in E. subst w'. rewrite EG in I1. simpl. rewrite <- app_assoc. exact I1.
      * rewrite app_nil_r. exact I1.
    + rewrite app_nil_r. exact I1.
  - (* cycle end *)
    destruct (loop s) eqn:EL; try discriminate.
    destruct (open_empty (cy_open s)) eqn:EO; [|discriminate].
    some_inv H. unfold FInv, ins, rel, openk. simpl. split; [|intro; now left].
    intro k. specialize (I1 k). unfold openk, ins, rel in I1.
    destruct k as [w|]; simpl; [|exact I1]. rewrite (open_empty_get _ w EO) in I1. exact I1.
Qed.

Lemma finv_init c : FInv c (init c).
Proof. unfold FInv, rel, openk, ins. simpl. split; [|intro; now left]. intro k. destruct k; apply sub_nil. Qed.

Theorem finv_reachable c s : fifo c = true -> reachable c s -> FInv c s.
Proof.
  intro FF. apply reachable_inv; [apply finv_init|].
  intros s0 l s1 o R HI HS. eapply finv_step; eauto.
Qed.

(* without a slot limit each watcher's batchable operations, and all non-batchable operations, are
   released in the order in which they entered the buffer — across batches and cycles *)
Theorem released_in_enqueue_order c s k :
  fifo c = true -> reachable c s -> sub (filter (inclass k) (rel s)) (ins s).
Proof.
  intros FF R. destruct (finv_reachable c s FF R) as [I _].
  eapply sub_trans; [apply sub_prefix|exact (I k)].
Qed.
