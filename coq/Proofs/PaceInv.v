(* Proofs/PaceInv.v — C09: the pace of the acquisition loop.  While the loop is between two iterations
   ([STop since]) and something is due - fewer partitions counted than wanted and one to ask for, a stop
   request, (v2) a re-provisioning request - no more than MaxInterval - 1 ms pass before it acts; while nothing
   is due, [since] is the current instant (the loop may have just gone back to sleep). *)
From Coq Require Import List ZArith Bool Lia.
From RecordUpdate Require Import RecordUpdate.
From GB Require Import Model.Allowance Model.Batcher Model.Shared Proofs.Tactics Proofs.SharedInv.
Import ListNotations.
Open Scope Z_scope.

Lemma pace_bound_nonneg c : 0 <= pace_bound c.
Proof.
  unfold pace_bound, eff_maxint. destruct (sc_maxint c <=? 0) eqn:E; [lia|]. apply Z.leb_gt in E. lia.
Qed.

Definition PaceInv (c : scfg) (s : sstate) : Prop :=
  forall since, s_loop s = STop since ->
    since <= s_now s
    /\ (must_act s = false -> since = s_now s)
    /\ (must_act s = true -> s_now s <= since + pace_bound c).

(* clearing a partition can only add to what the loop has to do *)
Lemma heldn_set_none_le p l : (heldn (set_nth p None l) <= heldn l)%nat.
Proof. apply heldn_set_none. Qed.

Lemma existsb_none_set_none : forall p (l : list (option Z)),
  existsb (fun e => match e with None => true | Some _ => false end) l = true ->
  existsb (fun e => match e with None => true | Some _ => false end) (set_nth p None l) = true.
Proof.
  induction p as [|p IH]; intros [|x l] H; simpl in *; try discriminate; auto.
  destruct x; simpl in *; auto.
Qed.

Lemma pollable_clear c s p tm :
  pollable s = true -> pollable (s <| s_timers := tm |> <| s_parts := clear_part c s p |>) = true.
Proof.
  unfold pollable, held. simpl. intro H. apply andb_prop in H. destruct H as [H1 H2]. apply Z.ltb_lt in H1.
  destruct (clear_part_cases c s p) as [E|E]; rewrite E.
  - apply andb_true_intro. split; [|now apply existsb_none_set_none].
    apply Z.ltb_lt. pose proof (heldn_set_none p (s_parts s)). unfold heldn in *. lia.
  - apply andb_true_intro. split; [now apply Z.ltb_lt|assumption].
Qed.

Ltac pace_fresh :=
  (* the loop has just returned to the top: since = now *)
  let since := fresh "since" in let L := fresh "L" in
  intros since L; simpl in L; inv L; simpl;
  match goal with |- context [pace_bound ?c] => pose proof (pace_bound_nonneg c) end;
  repeat split; intros; try reflexivity; lia.

(* a step that leaves the loop and the clock alone and can only add to what is due *)
Lemma pace_keep c s s' :
  PaceInv c s -> s_loop s' = s_loop s -> s_now s' = s_now s ->
  (must_act s = true -> must_act s' = true) -> PaceInv c s'.
Proof.
  intros HI EL EN M since L. rewrite EL in L. destruct (HI since L) as (A & B & C). rewrite EN.
  pose proof (pace_bound_nonneg c) as NB.
  split; [exact A|]. split.
  - intro F. apply B. destruct (must_act s) eqn:E; [|reflexivity]. rewrite (M eq_refl) in F. discriminate.
  - intros _. destruct (must_act s) eqn:E; [apply C; reflexivity|]. rewrite (B eq_refl). lia.
Qed.

Lemma pace_step c s l s' o : NotStartedInv s -> PaceInv c s -> sstep c s l = Some (s', o) -> PaceInv c s'.
Proof.
  intros HN HI H. pose proof (pace_bound_nonneg c) as NB.
  destruct l; simpl in H; unfold_sstep H.
  all: cases_in H; try some_inv H; try exact HI.
  all: try (unfold PaceInv; pace_fresh; fail).
  all: try (unfold PaceInv; intros since L; simpl in L; try discriminate L; fail).
  (* v1 Provision: there is no loop yet *)
  1-4: intros since L; simpl in L; rewrite (HN (or_introl Heqs0)) in L; discriminate.
  (* Stop, SetSharedCapacity: something becomes due *)
  1-4, 6: (apply (pace_keep c s); [exact HI|reflexivity|reflexivity|]; intros _; unfold must_act; simpl;
           rewrite ?orb_true_r; reflexivity).
  - (* GiveMe, something is still due: the deadline stays *)
    intros since0 L. simpl in L. inv L. simpl. destruct (HI since0 Heqs0) as (A & B & C).
    split; [exact A|]. split.
    + intro F. discriminate (eq_trans (eq_sym F) Heqb).
    + intros _. destruct (must_act s) eqn:E; [apply C; reflexivity|]. rewrite (B eq_refl). lia.
  - (* expiry, v1 *)
    apply (pace_keep c s); [exact HI|reflexivity|reflexivity|]. unfold must_act. simpl. intro M.
    apply orb_true_iff in M. destruct M as [M|M]; [|rewrite M; apply orb_true_r].
    apply orb_true_iff in M. destruct M as [M|M]; [|rewrite M; rewrite orb_true_r; reflexivity].
    pose proof (pollable_clear c s p l M) as P. unfold pollable, held in *. simpl in *. rewrite P. reflexivity.
  - (* expiry, v2 *)
    apply (pace_keep c s); [exact HI|reflexivity|reflexivity|]. unfold must_act, calc. simpl. intro M.
    apply orb_true_iff in M. destruct M as [M|M]; [|rewrite M; apply orb_true_r].
    apply orb_true_iff in M. destruct M as [M|M]; [|rewrite M; rewrite orb_true_r; reflexivity].
    pose proof (pollable_clear c s p l M) as P. unfold pollable, held in *. simpl in *. rewrite P. reflexivity.
  - (* time passes while something is due: not beyond the deadline *)
    intros since0 L. simpl in L. inv L. simpl. destruct (HI since0 Heqs0) as (A & B & C).
    apply andb_prop in Heqb. destruct Heqb as [Heqb PO]. apply andb_prop in Heqb. destruct Heqb as [LE _].
    apply Z.leb_le in LE. unfold pace_ok in PO. rewrite Heqs0, Heqb0 in PO. simpl in PO. apply Z.leb_le in PO.
    split; [lia|]. split; [|intros _; exact PO].
    intro F. discriminate (eq_trans (eq_sym F) Heqb0).
Qed.

Theorem pace_reachable c r sh s : sreachable c r sh s -> PaceInv c s.
Proof.
  intro R. assert (G : NotStartedInv s /\ PaceInv c s); [|tauto].
  revert s R. apply sreachable_inv.
  - split; [intros _; reflexivity|]. intros since L. discriminate L.
  - intros s0 l s1 o [HN HP] HS. split; [eapply notstarted_step; eauto|eapply pace_step; eauto].
Qed.

(* in every reachable state: a loop that has something to do is at most MaxInterval - 1 ms into its sleep *)
Theorem loop_acts_within_max_interval c r sh s since :
  sreachable c r sh s -> s_loop s = STop since -> must_act s = true ->
  since <= s_now s <= since + (eff_maxint c - 1) * 1000000.
Proof.
  intros R L M. destruct (pace_reachable c r sh s R since L) as (A & _ & C). split; [exact A|exact (C M)].
Qed.

(* time cannot pass that deadline: the only way on is for the loop to act *)
Theorem time_stops_at_the_deadline c s t s' o since :
  s_loop s = STop since -> must_act s = true -> sstep c s (STime t) = Some (s', o) ->
  t <= since + (eff_maxint c - 1) * 1000000 /\ s_loop s' = STop since.
Proof.
  intros L M H. simpl in H. unfold do_stime in H.
  destruct ((s_now s <=? t) && expiries_ok c s t && pace_ok c s t) eqn:E; [|discriminate]. some_inv H.
  apply andb_prop in E. destruct E as [_ PO]. unfold pace_ok in PO. rewrite L, M in PO. simpl in PO.
  apply Z.leb_le in PO. split; [exact PO|]. simpl. unfold rest_loop. rewrite L, M. reflexivity.
Qed.

(* what the loop does then: with fewer partitions counted than wanted and one it does not count, a request is enabled *)
Theorem due_poll_is_enabled c s since :
  s_loop s = STop since -> pollable s = true ->
  exists p s', sstep c s (SILease p) = Some (s', [SOLmLease p]) /\ s_loop s' = SCalling p (s_now s).
Proof.
  intros L P. unfold pollable in P. apply andb_prop in P. destruct P as [P1 P2]. apply Z.ltb_lt in P1.
  apply existsb_exists in P2. destruct P2 as (e & I & E). destruct e; [discriminate|].
  apply In_nth_error in I. destruct I as (p & N). exists p.
  simpl. unfold do_lease. rewrite L, N. apply Z.ltb_lt in P1. rewrite P1. simpl. eexists. split; reflexivity.
Qed.

(* while nothing is due the model lets any amount of time pass (the loop wakes, finds nothing to do, sleeps again) *)
Theorem idle_loop_lets_time_pass c s t since :
  s_loop s = STop since -> must_act s = false -> s_now s <= t -> expiries_ok c s t = true ->
  exists s', sstep c s (STime t) = Some (s', []) /\ s_loop s' = STop t.
Proof.
  intros L M LE EX. simpl. unfold do_stime, pace_ok. rewrite L, M, EX. apply Z.leb_le in LE. rewrite LE. simpl.
  eexists. split; [reflexivity|]. simpl. unfold rest_loop. rewrite L, M. reflexivity.
Qed.
