(* Proofs/BufferRefine.v — the pointer-level buffer of v2/buffer.go refines the list-with-cursor buffer
   that the Batcher model uses (C15; also C01/C05/C08 rest on the list view).

   R p a addrs: the cells at the addresses addrs form a doubly linked list from p_head to p_tail whose
   payloads are a_items, in order; the counters and flags agree; the cursor pointer is the address of the
   item with the abstract cursor index.  Every operation (top, skip, remove, enqueue, shutdown) on related
   states returns the same result and leads to related states — for every state, whatever the sequence of
   operations before (refine_run), with removals at the head, in the middle or at the tail. *)
From Coq Require Import List Arith Bool Lia.
From GB Require Import Model.BufferPtr.
Import ListNotations.

Definition hd_opt (l : list nat) : option nat := match l with [] => None | a :: _ => Some a end.

Fixpoint last_or (d : option nat) (l : list nat) : option nat :=
  match l with [] => d | a :: r => last_or (Some a) r end.

Fixpoint seg (h : heap) (prev : option nat) (addrs items : list nat) : Prop :=
  match addrs, items with
  | [], [] => True
  | a :: r, x :: xs => h a = mkCell prev x (hd_opt r) /\ seg h (Some a) r xs
  | _, _ => False
  end.

Lemma seg_length h : forall addrs prev items, seg h prev addrs items -> length addrs = length items.
Proof.
  induction addrs as [|a r IH]; intros prev [|x xs] H; simpl in *; try tauto. f_equal. eapply IH. apply H.
Qed.

Lemma seg_frame h h' : forall addrs prev items,
  (forall a, In a addrs -> h' a = h a) -> seg h prev addrs items -> seg h' prev addrs items.
Proof.
  induction addrs as [|a r IH]; intros prev [|x xs] F H; simpl in *; try tauto.
  destruct H as [H1 H2]. split; [rewrite F; auto|]. apply IH; auto.
Qed.

Lemma upd_same h a c : upd h a c a = c.
Proof. unfold upd. now rewrite Nat.eqb_refl. Qed.

Lemma upd_other h a c x : x <> a -> upd h a c x = h x.
Proof. unfold upd. intro N. apply Nat.eqb_neq in N. now rewrite N. Qed.

Lemma last_or_app d l x : last_or d (l ++ [x]) = Some x.
Proof. revert d. induction l as [|a l IH]; intro d; simpl; [reflexivity|apply IH]. Qed.

Lemma last_or_cons_app d l1 c l2 : last_or d (l1 ++ c :: l2) = last_or (Some c) l2.
Proof. revert d. induction l1 as [|a l IH]; intro d; simpl; [reflexivity|apply IH]. Qed.

Lemma last_or_in : forall l d t, last_or d l = Some t -> (l = [] /\ d = Some t) \/ In t l.
Proof.
  induction l as [|a l IH]; intros d t H; simpl in *; [left; auto|].
  right. destruct (IH _ _ H) as [[E1 E2]|I]; [inversion E2; now left|now right].
Qed.

Lemma last_or_none : forall l d, last_or d l = None -> l = [] /\ d = None.
Proof.
  induction l as [|a l IH]; intros d H; simpl in *; [auto|]. destruct (IH _ H) as [_ X]. discriminate.
Qed.

(* the cell in the middle of a segment *)
Lemma seg_mid h c l2 : forall l1 prev items,
  seg h prev (l1 ++ c :: l2) items ->
  exists i1 x i2, items = i1 ++ x :: i2 /\ length i1 = length l1
    /\ h c = mkCell (last_or prev l1) x (hd_opt l2) /\ seg h (Some c) l2 i2.
Proof.
  induction l1 as [|a l1 IH]; intros prev items H; simpl in *.
  - destruct items as [|x xs]; [tauto|]. destruct H as [H1 H2]. exists [], x, xs. simpl. repeat split; assumption.
  - destruct items as [|x xs]; [tauto|]. destruct H as [H1 H2].
    destruct (IH _ _ H2) as (i1 & y & i2 & E & L & C & S). exists (x :: i1), y, i2. simpl. subst. repeat split; auto.
Qed.

(* ---------------- unlinking a cell ---------------- *)

Definition unlink (h : heap) (P N : option nat) : heap :=
  let h1 := match P with Some p => set_nxt h p N | None => h end in
  match N with Some n => set_prv h1 n P | None => h1 end.

Arguments unlink : simpl never.

Lemma unlink_other h P N x : Some x <> P -> Some x <> N -> unlink h P N x = h x.
Proof.
  intros NP NN. unfold unlink, set_prv, set_nxt.
  destruct N as [n|]; destruct P as [p|]; repeat rewrite upd_other by congruence; reflexivity.
Qed.

Lemma seg_unlink h c x l2 i2 : forall l1 i1 prev,
  seg h prev (l1 ++ c :: l2) (i1 ++ x :: i2) -> length l1 = length i1 -> NoDup (l1 ++ c :: l2) ->
  (forall p, prev = Some p -> ~ In p (l1 ++ c :: l2)) ->
  seg (unlink h (last_or prev l1) (hd_opt l2)) prev (l1 ++ l2) (i1 ++ i2).
Proof.
  induction l1 as [|a l1 IH]; intros i1 prev H L ND NP.
  - destruct i1; [|discriminate]. simpl in *. destruct H as [Hc H2].
    inversion ND as [|? ? NC ND2]; subst.
    destruct l2 as [|n l2']; destruct i2 as [|y i2']; simpl in *; try tauto.
    destruct H2 as [Hn H3]. split.
    + assert (H1n : (match prev with Some p => set_nxt h p (Some n) | None => h end) n = h n).
      { destruct prev as [p|]; [|reflexivity]. unfold set_nxt. apply upd_other. intro E. subst.
        apply (NP p eq_refl). right. now left. }
      unfold unlink, set_prv. rewrite upd_same, H1n, Hn. reflexivity.
    + apply (seg_frame h); [|exact H3]. intros b Ib. apply unlink_other.
      * intro E. destruct prev as [p|]; [|discriminate]. inversion E; subst. apply (NP p eq_refl). right. now right.
      * intro E. inversion E; subst. inversion ND2; subst. contradiction.
  - destruct i1 as [|x1 i1]; [discriminate|]. simpl in *. destruct H as [Ha H2].
    inversion ND as [|? ? NA ND2]; subst.
    assert (G : seg (unlink h (last_or (Some a) l1) (hd_opt l2)) (Some a) (l1 ++ l2) (i1 ++ i2)).
    { apply IH; [exact H2|lia|exact ND2|]. intros p E. inversion E; subst. exact NA. }
    split; [|exact G].
    destruct l1 as [|b l1'].
    + (* a is the predecessor of c *)
      simpl. unfold unlink. simpl.
      assert (AN : forall n, hd_opt l2 = Some n -> n <> a).
      { intros n E Eq. subst. apply NA. simpl. right. destruct l2; [discriminate|]. inversion E; subst. now left. }
      destruct (hd_opt l2) as [n|] eqn:EN.
      * unfold set_prv. rewrite upd_other by (intro E; apply (AN n eq_refl); now symmetry).
        unfold set_nxt. rewrite upd_same. rewrite Ha. reflexivity.
      * unfold set_nxt. rewrite upd_same. rewrite Ha. reflexivity.
    + (* a is further up: its cell is untouched *)
      rewrite unlink_other.
      * rewrite Ha. reflexivity.
      * intro E. symmetry in E. destruct (last_or_in _ _ _ E) as [[X _]|X]; [discriminate|].
        apply NA. apply in_or_app. now left.
      * intro E. apply NA. apply in_or_app. right. right. destruct l2; [discriminate|]. inversion E; subst. now left.
Qed.

(* ---------------- appending a cell ---------------- *)

Lemma seg_snoc h a x : forall addrs prev items,
  seg h prev addrs items -> addrs <> [] -> ~ In a addrs -> NoDup addrs ->
  seg (set_nxt (upd h a (mkCell (last_or prev addrs) x None)) (match last_or prev addrs with Some t => t | None => a end) (Some a))
      prev (addrs ++ [a]) (items ++ [x]).
Proof.
  induction addrs as [|b r IH]; intros prev items H NE NI ND; [congruence|].
  destruct items as [|y ys]; simpl in H; [tauto|]. destruct H as [Hb H2].
  inversion ND as [|? ? NB ND2]; subst.
  assert (AB : a <> b) by (intro E; apply NI; subst; now left).
  destruct r as [|b2 r'].
  - (* b is the tail *)
    destruct ys; simpl in H2; [|tauto]. simpl. unfold set_nxt. rewrite upd_same.
    rewrite (upd_other _ _ _ b) by congruence. rewrite Hb. simpl. split; [reflexivity|].
    split; [|exact I]. rewrite upd_other by congruence. rewrite upd_same. reflexivity.
  - assert (NE2 : b2 :: r' <> []) by discriminate.
    assert (NI2 : ~ In a (b2 :: r')) by (intro X; apply NI; now right).
    specialize (IH (Some b) ys H2 NE2 NI2 ND2).
    change (last_or prev (b :: b2 :: r')) with (last_or (Some b) (b2 :: r')).
    simpl app. split; [|exact IH].
    destruct (last_or (Some b) (b2 :: r')) as [t|] eqn:ET.
    + assert (TB : t <> b).
      { intro E. subst. apply NB. clear - ET. simpl in ET. revert b2 ET. induction r' as [|z l IH2]; intros b2 ET; simpl in *.
        - inversion ET; subst. now left.
        - right. eapply IH2. exact ET. }
      unfold set_nxt. rewrite upd_other by congruence. rewrite upd_other by congruence. rewrite Hb. reflexivity.
    + exfalso. clear - ET. simpl in ET. revert b2 ET. induction r' as [|z l IH2]; intros b2 ET; simpl in *; [discriminate|eapply IH2; exact ET].
Qed.

(* ---------------- the refinement relation ---------------- *)

Record R (p : pbuf) (a : abuf) (addrs : list nat) : Prop := mkR {
  r_seg : seg (p_heap p) None addrs (a_items a);
  r_nodup : NoDup addrs;
  r_fresh : Forall (fun x => x < p_next p) addrs;
  r_head : p_head p = hd_opt addrs;
  r_tail : p_tail p = last_or None addrs;
  r_len : p_len p = length (a_items a);
  r_cur : p_cursor p = match a_cur a with Some i => nth_error addrs i | None => None end;
  r_curok : match a_cur a with Some i => i < length addrs | None => True end;
  r_cap : p_cap p = a_cap a;
  r_shut : p_shut p = a_shut a
}.

Lemma R_init cap : R (pinit cap) (ainit cap) [].
Proof. constructor; simpl; auto; constructor. Qed.

Lemma seg_op_at h addrs items i :
  seg h None addrs items -> op_at h (nth_error addrs i) = nth_error items i.
Proof.
  intro S. destruct (nth_error addrs i) as [c|] eqn:E.
  - destruct (nth_error_split _ _ E) as (l1 & l2 & EA & EL). subst addrs.
    destruct (seg_mid _ _ _ _ _ _ S) as (i1 & x & i2 & EI & L & C & _). subst items.
    simpl. rewrite C. simpl. rewrite nth_error_app2 by lia. replace (i - length i1) with 0 by lia. reflexivity.
  - simpl. apply nth_error_None in E. symmetry. apply nth_error_None. rewrite <- (seg_length _ _ _ _ S). exact E.
Qed.

Lemma nodup_snoc {A} (l : list A) a : NoDup l -> ~ In a l -> NoDup (l ++ [a]).
Proof.
  induction l as [|b l IH]; intros N I; simpl; [constructor; [tauto|constructor]|].
  inversion N; subst. constructor.
  - intro X. apply in_app_or in X. destruct X as [X|[X|[]]]; [contradiction|]. subst. apply I. now left.
  - apply IH; [assumption|]. intro X. apply I. now right.
Qed.

Definition ncur (n i : nat) : option nat := if i <? n then Some i else None.

Lemma norm_cur_len (l : list nat) i : norm_cur l i = ncur (length l) i.
Proof. reflexivity. Qed.

Lemma ncur_nth (addrs : list nat) i :
  match ncur (length addrs) i with Some j => nth_error addrs j | None => None end = nth_error addrs i.
Proof.
  unfold ncur. destruct (i <? length addrs) eqn:E; [reflexivity|].
  apply Nat.ltb_ge in E. symmetry. now apply nth_error_None.
Qed.

Lemma ncur_ok n i : match ncur n i with Some j => j < n | None => True end.
Proof. unfold ncur. destruct (i <? n) eqn:E; [now apply Nat.ltb_lt in E|exact I]. Qed.

Lemma remove_nth_app {A} (l1 : list A) c l2 : remove_nth (length l1) (l1 ++ c :: l2) = l1 ++ l2.
Proof. induction l1 as [|a l IH]; simpl; [reflexivity|now rewrite IH]. Qed.

Lemma remove_nth_app_len {A} (l1 : list A) c l2 n : n = length l1 -> remove_nth n (l1 ++ c :: l2) = l1 ++ l2.
Proof. intros ->. apply remove_nth_app. Qed.

Lemma nth_succ_mid : forall (l1 : list nat) c l2, nth_error (l1 ++ c :: l2) (S (length l1)) = hd_opt l2.
Proof. induction l1 as [|a l IH]; intros c l2; simpl; [destruct l2; reflexivity|apply IH]. Qed.

Lemma nth_mid : forall (l1 : list nat) l2, nth_error (l1 ++ l2) (length l1) = hd_opt l2.
Proof. induction l1 as [|a l IH]; intros l2; simpl; [destruct l2; reflexivity|apply IH]. Qed.

Lemma hd_last_app l1 l2 : hd_opt (l1 ++ l2) = match l1 with [] => hd_opt l2 | a :: _ => Some a end.
Proof. destruct l1; reflexivity. Qed.

Lemma last_or_app2 d l1 l2 : last_or d (l1 ++ l2) = last_or (last_or d l1) l2.
Proof. revert d. induction l1 as [|a l IH]; intro d; simpl; [reflexivity|apply IH]. Qed.

Theorem refine_step p a addrs c :
  R p a addrs ->
  exists addrs', snd (prun1 p c) = snd (arun1 a c) /\ R (fst (prun1 p c)) (fst (arun1 a c)) addrs'.
Proof.
  intros [SG ND FR HD TL LN CU CO CP SH].
  pose proof (seg_length _ _ _ _ SG) as LA.
  destruct c as [| | |x e|]; simpl.
  - (* top *)
    exists addrs. unfold ptop, atop. simpl. split.
    + rewrite HD. rewrite norm_cur_len, <- LA.
      replace (hd_opt addrs) with (nth_error addrs 0) by (destruct addrs; reflexivity).
      rewrite (seg_op_at _ _ _ 0 SG). f_equal. unfold ncur, cur_op.
      destruct (0 <? length addrs) eqn:E; [reflexivity|]. apply Nat.ltb_ge in E.
      apply nth_error_None. lia.
    + constructor; simpl; auto.
      * rewrite HD, norm_cur_len, <- LA. rewrite ncur_nth. destruct addrs; reflexivity.
      * rewrite norm_cur_len, <- LA. apply ncur_ok.
  - (* skip *)
    unfold pskip, askip. rewrite CU. destruct (a_cur a) as [i|] eqn:EC.
    + destruct (nth_error addrs i) as [cc|] eqn:EN; [|apply nth_error_None in EN; lia].
      destruct (nth_error_split _ _ EN) as (l1 & l2 & EA & EL).
      assert (NX : c_nxt (p_heap p cc) = nth_error addrs (S i)).
      { subst addrs. destruct (seg_mid _ _ _ _ _ _ SG) as (i1 & y & i2 & EI & L & C & _). rewrite C. cbn [c_nxt].
        subst i. symmetry. apply nth_succ_mid. }
      exists addrs. simpl. rewrite NX. split.
      * rewrite (seg_op_at _ _ _ (S i) SG). f_equal. rewrite norm_cur_len, <- LA. unfold ncur, cur_op.
        destruct (S i <? length addrs) eqn:E; [reflexivity|]. apply Nat.ltb_ge in E. apply nth_error_None. lia.
      * constructor; simpl; auto.
        -- rewrite norm_cur_len, <- LA. now rewrite ncur_nth.
        -- rewrite norm_cur_len, <- LA. apply ncur_ok.
    + exists addrs. simpl. split; [reflexivity|]. constructor; simpl; auto. now rewrite EC. now rewrite EC.
  - (* remove *)
    unfold premove, aremove. rewrite CU. destruct (a_cur a) as [i|] eqn:EC.
    2:{ exists addrs. simpl. split; [reflexivity|]. constructor; simpl; auto. now rewrite EC. now rewrite EC. }
    destruct (nth_error addrs i) as [cc|] eqn:EN; [|apply nth_error_None in EN; lia].
    destruct (nth_error_split _ _ EN) as (l1 & l2 & EA & EL).
    subst addrs. destruct (seg_mid _ _ _ _ _ _ SG) as (i1 & y & i2 & EI & L & C & SG2).
    set (P := last_or None l1) in *. set (N := hd_opt l2) in *.
    assert (HU : (let '(h', head', tail', cur') :=
                    match c_prv (p_heap p cc), c_nxt (p_heap p cc) with
                    | Some pp, Some n => (set_prv (set_nxt (p_heap p) pp (Some n)) n (Some pp), p_head p, p_tail p, Some n)
                    | Some pp, None => (set_nxt (p_heap p) pp None, p_head p, Some pp, None)
                    | None, Some n => (set_prv (p_heap p) n None, Some n, p_tail p, Some n)
                    | None, None => (p_heap p, None, None, None)
                    end in (h', head', tail', cur'))
                 = (unlink (p_heap p) P N, hd_opt (l1 ++ l2), last_or None (l1 ++ l2), N)).
    { rewrite C. cbn [c_prv c_nxt]. rewrite HD, TL. unfold unlink, P, N.
      destruct l1 as [|a1 l1']; destruct l2 as [|n l2']; simpl app; cbn [hd_opt last_or].
      - reflexivity.
      - reflexivity.
      - rewrite ?app_nil_r. destruct (last_or (Some a1) l1') as [pp|] eqn:EP;
          [rewrite ?last_or_cons_app, ?last_or_app2; cbn [last_or]; try rewrite EP; reflexivity
          |destruct (last_or_none _ _ EP) as [_ X]; discriminate].
      - destruct (last_or (Some a1) l1') as [pp|] eqn:EP;
          [rewrite ?last_or_cons_app, ?last_or_app2; cbn [last_or]; try rewrite EP; reflexivity
          |destruct (last_or_none _ _ EP) as [_ X]; discriminate]. }
    rewrite LN, EI, app_length. simpl length. replace (length i1 + S (length i2)) with (S (length i1 + length i2)) by lia.
    destruct (match c_prv (p_heap p cc), c_nxt (p_heap p cc) with
              | Some pp, Some n => (set_prv (set_nxt (p_heap p) pp (Some n)) n (Some pp), p_head p, p_tail p, Some n)
              | Some pp, None => (set_nxt (p_heap p) pp None, p_head p, Some pp, None)
              | None, Some n => (set_prv (p_heap p) n None, Some n, p_tail p, Some n)
              | None, None => (p_heap p, None, None, None)
              end) as [[[h' head'] tail'] cur'].
    inversion HU; subst h' head' tail' cur'. clear HU.
    assert (S' : seg (unlink (p_heap p) P N) None (l1 ++ l2) (i1 ++ i2)).
    { apply seg_unlink with (c := cc) (x := y); [rewrite <- EI; exact SG|lia|exact ND|intros pp E; discriminate]. }
    exists (l1 ++ l2). simpl.
    assert (RM : remove_nth i (i1 ++ y :: i2) = i1 ++ i2) by (apply remove_nth_app_len; lia).
    rewrite RM. split.
    + f_equal. rewrite norm_cur_len.
      assert (NI : N = nth_error (l1 ++ l2) i).
      { subst i. symmetry. apply nth_mid. }
      pose proof (seg_op_at _ _ _ i S') as OP. rewrite <- NI in OP. rewrite OP. unfold ncur, cur_op.
      destruct (i <? length (i1 ++ i2)) eqn:E; [reflexivity|]. apply Nat.ltb_ge in E. apply nth_error_None. exact E.
    + constructor; simpl; auto.
      * apply NoDup_remove_1 in ND. exact ND.
      * rewrite Forall_forall in *. intros z Iz. apply FR. apply in_app_or in Iz. apply in_or_app. destruct Iz; [now left|right; now right].
      * rewrite app_length. reflexivity.
      * rewrite norm_cur_len. rewrite <- (seg_length _ _ _ _ S'). rewrite ncur_nth.
        subst i. symmetry. apply nth_mid.
      * rewrite norm_cur_len, <- (seg_length _ _ _ _ S'). apply ncur_ok.
  - (* enqueue *)
    unfold penqueue, aenqueue. rewrite <- SH, <- CP, <- LN.
    destruct (p_shut p) eqn:ES.
    { exists addrs. simpl. split; [reflexivity|]. constructor; auto; congruence. }
    destruct (p_cap p <=? p_len p) eqn:EF.
    { exists addrs. simpl. split; [reflexivity|]. constructor; auto; congruence. }
    assert (FRE : ~ In (p_next p) addrs).
    { intro X. rewrite Forall_forall in FR. specialize (FR _ X). lia. }
    rewrite HD, TL.
    destruct addrs as [|a0 r].
    + (* empty list *)
      destruct (a_items a) as [|? ?] eqn:EI; [|simpl in SG; tauto].
      exists [p_next p]. simpl. split; [reflexivity|]. constructor; simpl; auto.
      * rewrite upd_same. auto.
      * constructor; [simpl; tauto|constructor].
      * rewrite CU. destruct (a_cur a) as [i|]; [simpl in CO; lia|reflexivity].
      * destruct (a_cur a) as [i|]; [simpl in CO; lia|exact I].
    + simpl hd_opt. cbv iota.
      destruct (last_or None (a0 :: r)) as [t|] eqn:ET.
      2:{ exfalso. clear - ET. simpl in ET. revert a0 ET. induction r; intros; simpl in *; [discriminate|eauto]. }
      exists ((a0 :: r) ++ [p_next p]). simpl fst. simpl snd. split; [reflexivity|].
      pose proof (seg_snoc (p_heap p) (p_next p) x (a0 :: r) None (a_items a) SG ltac:(discriminate) FRE ND) as SS.
      rewrite ET in SS.
      constructor; simpl p_heap; simpl p_next; simpl p_len; simpl p_cap; simpl p_head; simpl p_tail; simpl p_cursor; simpl p_shut;
        simpl a_items; simpl a_cur; simpl a_cap; simpl a_shut; auto.
      * apply nodup_snoc; assumption.
      * apply Forall_app. split; [eapply Forall_impl; [|exact FR]; intros; simpl in *; lia|constructor; [lia|constructor]].
      * symmetry. apply last_or_app.
      * rewrite app_length, LN. simpl. lia.
      * rewrite CU. destruct (a_cur a) as [i|]; [|reflexivity]. rewrite nth_error_app1; [reflexivity|exact CO].
      * destruct (a_cur a) as [i|]; [|exact I]. rewrite app_length. simpl in *. lia.
  - (* shutdown *)
    exists []. unfold pshutdown, ashutdown. simpl. split; [reflexivity|]. constructor; simpl; auto; constructor.
Qed.

(* every sequence of operations gives the same results and the same sizes at both levels *)
Theorem refine_run : forall cs p a addrs, R p a addrs -> prun p cs = arun a cs.
Proof.
  induction cs as [|c cs IH]; intros p a addrs H; simpl; [reflexivity|].
  destruct (refine_step p a addrs c H) as (addrs' & E & H').
  destruct (prun1 p c) as [p' r1] eqn:E1. destruct (arun1 a c) as [a' r2] eqn:E2. simpl in *.
  subst r2. f_equal.
  - f_equal. unfold psize. exact (r_len _ _ _ H').
  - eapply IH. exact H'.
Qed.

Corollary refine_from_empty cap cs : prun (pinit cap) cs = arun (ainit cap) cs.
Proof. apply (refine_run cs _ _ []). apply R_init. Qed.

(* the pointer-level buffer never holds more than its capacity and never panics *)
Definition no_panic (r : pres) : Prop := r <> RBufPanic.

Lemma abstract_no_panic a c : snd (arun1 a c) <> RBufPanic.
Proof.
  destruct c; simpl; unfold atop, askip, aremove, aenqueue, ashutdown;
    repeat match goal with |- context [match ?x with _ => _ end] => destruct x end; simpl; try discriminate.
Qed.

Theorem pointer_never_panics p a addrs c : R p a addrs -> snd (prun1 p c) <> RBufPanic.
Proof.
  intro H. destruct (refine_step p a addrs c H) as (addrs' & E & _). rewrite E. apply abstract_no_panic.
Qed.

Definition a_bounded (a : abuf) : Prop := length (a_items a) <= a_cap a.

Lemma remove_nth_length_le {A} : forall i (l : list A), length (remove_nth i l) <= length l.
Proof. induction i as [|i IH]; intros [|x l]; simpl; try lia. specialize (IH l). lia. Qed.

Lemma abstract_bounded a c : a_bounded a -> a_bounded (fst (arun1 a c)).
Proof.
  unfold a_bounded. intro H. destruct c; simpl; unfold atop, askip, aremove, aenqueue, ashutdown; simpl.
  - exact H.
  - destruct (a_cur a); simpl; exact H.
  - destruct (a_cur a); simpl; [|exact H]. pose proof (remove_nth_length_le n (a_items a)). lia.
  - destruct (a_shut a); simpl; [exact H|]. destruct (a_cap a <=? length (a_items a)) eqn:E; simpl; [exact H|].
    apply Nat.leb_gt in E. rewrite app_length. simpl. lia.
  - lia.
Qed.

Theorem pointer_bounded p a addrs c :
  R p a addrs -> p_len p <= p_cap p -> p_len (fst (prun1 p c)) <= p_cap (fst (prun1 p c)).
Proof.
  intros H B. destruct (refine_step p a addrs c H) as (addrs' & _ & H').
  rewrite (r_len _ _ _ H'), (r_cap _ _ _ H').
  apply abstract_bounded. unfold a_bounded. rewrite <- (r_len _ _ _ H), <- (r_cap _ _ _ H). exact B.
Qed.
