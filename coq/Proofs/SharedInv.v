(* Proofs/SharedInv.v — invariants of the shared-resource model (one instance):
   capacity formula and limits (C06), demand-driven acquisition without renewal (C07),
   life cycle and live reconfiguration (C17), counting only inside the lease (C04). *)
From Coq Require Import List ZArith Bool Lia.
From RecordUpdate Require Import RecordUpdate.
From GB Require Import Model.Allowance Model.Batcher Model.Shared Proofs.Tactics.
Import ListNotations.
Open Scope Z_scope.

Definition sreachable (c : scfg) (r sh : Z) (s : sstate) : Prop :=
  exists ls os, srun c (sinit c r sh) ls = Some (s, os).

Lemma srun_app c : forall ls1 ls2 s0 s1 o1 s2 o2,
  srun c s0 ls1 = Some (s1, o1) -> srun c s1 ls2 = Some (s2, o2) ->
  srun c s0 (ls1 ++ ls2) = Some (s2, o1 ++ o2).
Proof.
  induction ls1 as [|l ls1 IH]; intros ls2 s0 s1 o1 s2 o2 H1 H2; simpl in *.
  - inv H1. exact H2.
  - destruct (sstep c s0 l) as [[s' o']|] eqn:E; [|discriminate].
    destruct (srun c s' ls1) as [[s'' o'']|] eqn:E2; [|discriminate].
    inv H1. erewrite IH by eauto. now rewrite app_assoc.
Qed.

Lemma sreachable_inv c r sh (P : sstate -> Prop) :
  P (sinit c r sh) ->
  (forall s l s' o, P s -> sstep c s l = Some (s', o) -> P s') ->
  forall s, sreachable c r sh s -> P s.
Proof.
  intros Hi Hs s [ls [os H]]. revert H. generalize (sinit c r sh) Hi. clear Hi.
  induction ls as [|l ls IH] in os |- *; intros s0 H0 H; simpl in H.
  - inv H. exact H0.
  - destruct (sstep c s0 l) as [[s' o']|] eqn:E; [|discriminate].
    destruct (srun c s' ls) as [[s'' o'']|] eqn:E2; [|discriminate].
    inv H. eapply IH; [eapply Hs; eassumption|eassumption].
Qed.

Ltac unfold_sstep H :=
  unfold do_provision_v1, do_sstart, do_sstop, do_giveme, do_set_reserved, do_set_shared,
    do_loop_provision, do_create_ret, do_lease, do_lease_ret, do_expire, do_recalc, do_sloop_shutdown, do_stime, relax_loop, rest_loop in H.

(* ------------------------------------------------------------------ list facts *)

Definition heldn (l : list (option Z)) : nat :=
  length (filter (fun x => match x with Some _ => true | None => false end) l).

Lemma held_unfold s : held s = Z.of_nat (heldn (s_parts s)).
Proof. reflexivity. Qed.

Lemma heldn_le l : (heldn l <= length l)%nat.
Proof.
  unfold heldn. induction l as [|x l IH]; simpl; [lia|]. destruct x; simpl; lia.
Qed.

Lemma heldn_repeat_none n : heldn (repeat None n) = 0%nat.
Proof. induction n; simpl; auto. Qed.

Lemma set_nth_length {A} : forall n (v : A) l, length (set_nth n v l) = length l.
Proof. induction n as [|n IH]; intros v [|x l]; simpl; auto. Qed.

Lemma clear_part_cases c s p :
  clear_part c s p = set_nth p None (s_parts s) \/ clear_part c s p = s_parts s.
Proof.
  unfold clear_part. destruct (sc_gen c); [now left|].
  destruct (nth_error (s_parts s) p) as [[e|]|]; try (now right). destruct (e =? s_now s); [now left|now right].
Qed.

Lemma clear_part_length c s p : length (clear_part c s p) = length (s_parts s).
Proof. destruct (clear_part_cases c s p) as [E|E]; rewrite E; [apply set_nth_length|reflexivity]. Qed.

Lemma resize_length {A} : forall n (d : A) l, length (resize n d l) = n.
Proof. induction n as [|n IH]; intros d [|x l]; simpl; auto. Qed.

Lemma resize_prefix {A} : forall n (d : A) l i,
  (i < n)%nat -> (i < length l)%nat -> nth_error (resize n d l) i = nth_error l i.
Proof.
  induction n as [|n IH]; intros d l i Hn Hl; [lia|].
  destruct l as [|x l]; simpl in *; [lia|].
  destruct i as [|i]; simpl; [reflexivity|]. apply IH; lia.
Qed.

Lemma resize_new {A} : forall n (d : A) l i,
  (i < n)%nat -> (length l <= i)%nat -> nth_error (resize n d l) i = Some d.
Proof.
  induction n as [|n IH]; intros d l i Hn Hl; [lia|].
  destruct l as [|x l]; simpl in *.
  - destruct i as [|i]; simpl; [reflexivity|]. apply IH; simpl; lia.
  - destruct i as [|i]; simpl; [lia|]. apply IH; lia.
Qed.

(* ------------------------------------------------------------------ C06: capacity formula *)

(* the published capacity is factor x counted partitions: always in V2 (calc runs in the same
   step as every change), in V1 whenever no asynchronous recalculation is outstanding *)
Definition UninitInv (s : sstate) : Prop :=
  s_phase s = SUninit ->
  s_parts s = [] /\ s_capacity s = 0 /\ s_recalcs s = 0%nat /\ s_loop s = SOff /\ s_timers s = [].

Definition not_creating (s : sstate) : Prop := forall n, s_loop s <> SCreating n.

Definition CapInv (c : scfg) (s : sstate) : Prop :=
  UninitInv s /\
  ((sc_gen c = V2 \/ s_recalcs s = 0%nat) -> not_creating s -> s_capacity s = held s * s_factor s).

Lemma heldn_set_none : forall p l, (heldn (set_nth p None l) <= heldn l)%nat.
Proof.
  unfold heldn. induction p as [|p IH]; intros [|x l]; simpl; try lia.
  - destruct x; simpl; lia.
  - destruct x; simpl; specialize (IH l); lia.
Qed.

(* the second component, for steps that leave the capacity, the table and the factor alone *)
Ltac cap_keep HI :=
  let X := fresh "X" in let NC := fresh "NC" in
  intros X NC;
  first [ reflexivity
        | apply HI; [ destruct X as [X|X]; [left; congruence | right; assumption]
                    | unfold not_creating in *; simpl in *; intros n E; first [apply (NC n); congruence | congruence] ]
        | destruct X as [X|X]; congruence
        | exfalso; unfold not_creating in NC; simpl in NC; eapply NC; reflexivity ].

Lemma capinv_step c s l s' o : CapInv c s -> sstep c s l = Some (s', o) -> CapInv c s'.
Proof.
  intros [HU HI] H.
  destruct l; simpl in H; unfold_sstep H.
  all: try (cases_in H; try some_inv H; unfold CapInv, UninitInv, calc, held in *; simpl in *;
            (split; [first [exact HU | intros X; first [congruence | apply HU; assumption]]
                    | cap_keep HI]); fail).
  all: try (cases_in H; try some_inv H; unfold CapInv, UninitInv, calc, held in *; simpl in *;
            (split;
             [ intros X; destruct (HU X) as (U1 & U2 & U3 & U4 & U5); rewrite ?U1, ?U2, ?U3, ?U4, ?U5 in *; simpl in *;
               try congruence; repeat split; try assumption; try reflexivity; try lia
             | cap_keep HI]); fail).
  - (* v1 Provision *)
    destruct (sc_gen c) eqn:G; [|discriminate].
    destruct (s_phase s) eqn:P;
      try (some_inv H; split; [first [exact HU | intro; congruence]|intros [X|X] NC; [congruence|apply HI; [now right|exact NC]]]).
    destruct (HU P) as (U1 & U2 & U3 & U4 & U5).
    cases_in H; some_inv H; unfold CapInv, UninitInv, calc, held in *; simpl in *; rewrite ?U1, ?U2 in *; simpl;
      (split; [intros X; try congruence; repeat split; try assumption; reflexivity
              | intros _ _; try reflexivity;
                try (match goal with |- context [length (filter ?f (repeat None ?n))] =>
                       change (length (filter f (repeat None n))) with (heldn (repeat None n));
                       rewrite heldn_repeat_none end); simpl; lia]).
  - (* Start *)
    destruct (sc_gen c) eqn:G.
    + destruct (s_phase s) eqn:P; some_inv H;
        try (split; [first [exact HU | intro; congruence]|intros [X|X] NC; [congruence|apply HI; [now right|exact NC]]]).
      split; [intro; simpl in *; congruence|]. simpl. intros [X|X]; [congruence|discriminate].
    + destruct (s_phase s) eqn:P;
        try (some_inv H; split; [first [exact HU | intro; congruence]|intros _ NC; apply HI; [now left|exact NC]]).
      destruct (HU P) as (U1 & U2 & U3 & U4 & U5).
      cases_in H; some_inv H; unfold CapInv, UninitInv, calc, held in *; simpl in *; rewrite ?U1, ?U2 in *; simpl;
        (split; [intros X; try congruence; repeat split; assumption | intros _ _; simpl; try lia; reflexivity]).
  - (* v2 loop provisioning: the capacity is recomputed only when CreatePartitions has returned *)
    destruct (sc_gen c) eqn:G; [discriminate|].
    destruct (at_top s && s_prov_req s) eqn:E; [|discriminate]. bool_hyps. some_inv H.
    unfold at_top in *. destruct (s_loop s) eqn:EL; try discriminate.
    split; [|intros _ NC; exfalso; eapply NC; simpl; reflexivity].
    intro X. simpl in X. destruct (HU X) as (_ & _ & _ & U4 & _). congruence.
  - (* shutdown *)
    destruct (s_loop s) eqn:EL; try (rewrite andb_false_r in H; discriminate);
      cases_in H; some_inv H; (split; [intro X; simpl in X; congruence|]); simpl;
      intros X NC; unfold calc, held in *; simpl;
      (apply HI; [destruct X as [X|X]; [left; congruence|right; exact X]|intros n E; congruence]).
Qed.

Lemma capinv_init c r sh : CapInv c (sinit c r sh).
Proof. split; [intro; simpl; repeat split|]. intros _ _. simpl. reflexivity. Qed.

Theorem capinv_reachable c r sh s : sreachable c r sh s -> CapInv c s.
Proof.
  apply sreachable_inv; [apply capinv_init|]. intros s0 l s1 o HI HS. eapply capinv_step; eauto.
Qed.

(* ------------------------------------------------------------------ C06 / C17: partitions *)

(* at most 500 partitions, and the index of a lease call in flight is valid: the partition
   table is only replaced by the loop itself, between iterations *)
Definition RangeInv (s : sstate) : Prop :=
  (Z.of_nat (length (s_parts s)) <= max_partitions)
  /\ (forall p t, s_loop s = SCalling p t -> (p < length (s_parts s))%nat).

Lemma range_step c s l s' o : UninitInv s -> RangeInv s -> sstep c s l = Some (s', o) -> RangeInv s'.
Proof.
  intros HU [H1 H2] H.
  destruct l; simpl in H; unfold_sstep H.
  all: try (cases_in H; try some_inv H; unfold RangeInv, calc in *; simpl in *; rewrite ?set_nth_length, ?clear_part_length;
            (split; [assumption | intros; try congruence; eauto]); fail).
  - (* v1 Provision *)
    cases_in H; some_inv H; unfold RangeInv in *; simpl in *;
      (split; [first [assumption
                     | rewrite repeat_length;
                       match goal with E : (max_partitions <? _) = false |- _ => apply Z.ltb_ge in E end;
                       unfold max_partitions in *; lia]
              | intros; try congruence; eauto;
                match goal with E : s_phase s = SUninit, L : s_loop s = SCalling _ _ |- _ =>
                  destruct (HU E) as (_ & _ & _ & U4 & _); congruence end]).
  - (* v2 loop provisioning *)
    cases_in H; some_inv H; unfold RangeInv, calc; simpl; rewrite resize_length; (split; [|intros; congruence]);
      unfold max_partitions; lia.
  - (* lease *)
    cases_in H; some_inv H; unfold RangeInv; simpl; (split; [assumption|]); intros p0 t0 E; inv E;
      apply nth_error_Some; first [congruence | rewrite andb_false_r in *; discriminate].
Qed.

Theorem range_reachable c r sh s : sreachable c r sh s -> RangeInv s.
Proof.
  intro R. assert (G : CapInv c s /\ RangeInv s); [|tauto].
  revert s R. apply sreachable_inv.
  - split; [apply capinv_init|]. split; simpl; [unfold max_partitions; lia|intros; discriminate].
  - intros s0 l s1 o [HC HR] HS. split; [eapply capinv_step; eauto|].
    eapply range_step; eauto. exact (proj1 HC).
Qed.

(* the count of partitions provisioned is ceil(shared/factor), capped at 500 in V2 *)
Lemma provision_count_v2 c s s' o :
  sc_gen c = V2 -> sstep c s SILoopProvision = Some (s', o) ->
  length (s_parts s') = Z.to_nat (Z.min (partition_count (s_shared s) (s_factor s)) max_partitions)
  /\ In (SOLmCreate (Z.min (partition_count (s_shared s) (s_factor s)) max_partitions)) o
  /\ (max_partitions < partition_count (s_shared s) (s_factor s) -> In (SOEvError (partition_count (s_shared s) (s_factor s))) o)
  /\ (forall i, (i < length (s_parts s'))%nat -> (i < length (s_parts s))%nat -> nth_error (s_parts s') i = nth_error (s_parts s) i)
  /\ (forall i, (i < length (s_parts s'))%nat -> (length (s_parts s) <= i)%nat -> nth_error (s_parts s') i = Some None)
  /\ s_loop s' = SCreating (Z.min (partition_count (s_shared s) (s_factor s)) max_partitions).
Proof.
  intros G H. simpl in H. unfold do_loop_provision in H. rewrite G in H.
  destruct (at_top s && s_prov_req s); [|discriminate]. some_inv H. simpl.
  rewrite resize_length. repeat split.
  - apply in_or_app. right. simpl. tauto.
  - intro X. apply Z.ltb_lt in X. rewrite X. simpl. tauto.
  - intros i A B. rewrite ?resize_length in A. now apply resize_prefix.
  - intros i A B. rewrite ?resize_length in A. now apply resize_new.
Qed.

(* growth (and any resize that drops no counted partition) leaves the number of counted partitions alone: the
   published capacity stays exact while CreatePartitions runs; only a shrink that drops counted partitions makes
   it lag until CreatePartitions has returned (or the next expiry) *)
Lemma heldn_resize_grow : forall n l, (length l <= n)%nat -> heldn (resize n None l) = heldn l.
Proof.
  induction n as [|n IH]; intros [|x l] H; simpl in *; try lia; try reflexivity.
  - clear IH H. induction n as [|n IH]; simpl; [reflexivity|]. unfold heldn in *. simpl. exact IH.
  - unfold heldn in *. simpl. destruct x; simpl; rewrite (IH l) by lia; reflexivity.
Qed.

Lemma growth_keeps_capacity_exact c s s' o :
  sstep c s SILoopProvision = Some (s', o) -> (length (s_parts s) <= length (s_parts s'))%nat ->
  s_capacity s = held s * s_factor s -> s_capacity s' = held s' * s_factor s'.
Proof.
  simpl. unfold do_loop_provision. intros H L E. destruct (sc_gen c); [discriminate|].
  destruct (at_top s && s_prov_req s); [|discriminate]. some_inv H. simpl in *.
  rewrite resize_length in L. rewrite held_unfold in *. simpl. rewrite heldn_resize_grow by exact L. exact E.
Qed.

(* CreatePartitions returns: provisioning is done, the capacity is recomputed from the table as it is then *)
Lemma create_ret_effect c s s' o :
  sstep c s SICreateRet = Some (s', o) ->
  exists n, s_loop s = SCreating n /\ s_loop s' = STop (s_now s) /\ s_parts s' = s_parts s
    /\ s_capacity s' = held s' * s_factor s' /\ o = [SOEvProvisionDone n; SOEvCapacity (capacity s')].
Proof.
  simpl. unfold do_create_ret. intro H. destruct (s_loop s) eqn:L; try discriminate. some_inv H.
  exists n. unfold calc. simpl. repeat split; reflexivity.
Qed.

(* while CreatePartitions runs nothing is locked: a lease that expires meanwhile is cleared at once *)
Lemma expiry_during_create c s p n s' o :
  s_loop s = SCreating n -> sstep c s (SIExpire p) = Some (s', o) -> s_loop s' = SCreating n /\ In (SOEvReleased p) o.
Proof.
  simpl. unfold do_expire. intros L H. destruct (remove_timer p (s_now s) (s_timers s)); [|discriminate].
  destruct (sc_gen c); [some_inv H; simpl; split; [exact L|now left]|].
  destruct (s_stop_req s); [discriminate|]. some_inv H. unfold calc. simpl. split; [exact L|now left].
Qed.

Lemma provision_count_v1 c s a b s' o :
  sc_gen c = V1 -> s_phase s = SUninit -> sstep c s (SAProvision a b) = Some (s', o) -> s_phase s' = SProvisioned ->
  let f := if s_factor s =? 0 then 1 else s_factor s in
  partition_count (s_shared s) f <= max_partitions
  /\ length (s_parts s') = Z.to_nat (partition_count (s_shared s) f)
  /\ In (SOLmCreate (partition_count (s_shared s) f)) o.
Proof.
  intros G EP H P. simpl in H. unfold do_provision_v1 in H. rewrite G, EP in H.
  cases_in H; some_inv H; simpl in P; try congruence; simpl; rewrite repeat_length;
    (split; [now apply Z.ltb_ge|split; [reflexivity|tauto]]).
Qed.

Lemma provision_refused_v1 c s a b s' o :
  sc_gen c = V1 -> s_phase s = SUninit -> sc_has_mgr c = true -> 1 <= s_shared s -> a = true ->
  max_partitions < partition_count (s_shared s) (if s_factor s =? 0 then 1 else s_factor s) ->
  sstep c s (SAProvision a b) = Some (s', o) -> In (SOProvisionRet false 4) o /\ s_phase s' = SUninit.
Proof.
  intros G P M S A X H. simpl in H. unfold do_provision_v1 in H. rewrite G, P, M, A in H. simpl in H.
  assert (E1 : s_shared s <? 1 = false) by (apply Z.ltb_ge; lia). rewrite E1 in H.
  apply Z.ltb_lt in X. rewrite X in H. some_inv H. simpl. split; [tauto|exact P].
Qed.

(* ------------------------------------------------------------------ C07: acquisition on demand *)

Definition IssueInv (s : sstate) : Prop :=
  Forall (fun x => match x with (p, t, h, tg) => h < tg end) (s_issued s).

Lemma issue_step c s l s' o : IssueInv s -> sstep c s l = Some (s', o) -> IssueInv s'.
Proof.
  intros HI H.
  destruct l; simpl in H; unfold_sstep H.
  all: try (cases_in H; try some_inv H; unfold IssueInv, calc in *; simpl in *; try assumption; fail).
  cases_in H; some_inv H; unfold IssueInv in *; simpl; (constructor; [|assumption]); bool_hyps;
    first [now apply Z.ltb_lt | discriminate].
Qed.

Theorem issue_reachable c r sh s : sreachable c r sh s -> IssueInv s.
Proof.
  apply sreachable_inv; [constructor|]. intros s0 l s1 o HI HS. eapply issue_step; eauto.
Qed.

(* a lease request: only while fewer partitions are counted than wanted, only for an existing
   partition that is not counted *)
Lemma lease_guard c s p s' o :
  sstep c s (SILease p) = Some (s', o) ->
  held s < s_target s /\ nth_error (s_parts s) p = Some None /\ o = [SOLmLease p]
  /\ exists since, s_loop s = STop since.
Proof.
  simpl. unfold do_lease. intro H. destruct (s_loop s) eqn:L; try discriminate.
  destruct ((held s <? s_target s) && match nth_error (s_parts s) p with Some None => true | _ => false end) eqn:E; [|discriminate].
  some_inv H. bool_hyps. repeat split.
  - now apply Z.ltb_lt.
  - destruct (nth_error (s_parts s) p) as [[e|]|]; try discriminate. reflexivity.
  - eauto.
Qed.

Lemma no_lease_without_demand c s p : s_target s <= held s -> sstep c s (SILease p) = None.
Proof.
  intro H. simpl. unfold do_lease. destruct (s_loop s); try reflexivity.
  assert (E : held s <? s_target s = false) by (apply Z.ltb_ge; lia). now rewrite E.
Qed.

(* the number of partitions wanted changes only through GiveMe, which sets it to
   ceil(max 0 (asked - reserved) / factor) *)
Lemma giveme_target c s v s' o :
  sstep c s (SAGiveMe v) = Some (s', o) ->
  s_target s' = ceil_div (Z.max 0 (v - s_reserved s)) (if s_factor s =? 0 then 1 else s_factor s)
  /\ o = [SOEvTarget (Z.max 0 (v - s_reserved s))].
Proof. simpl. unfold do_giveme, wanted. intro H. some_inv H. simpl. split; reflexivity. Qed.

Lemma target_only_by_giveme c s l s' o :
  sstep c s l = Some (s', o) -> (forall v, l <> SAGiveMe v) -> s_target s' = s_target s.
Proof.
  intros H N. destruct l; simpl in H; unfold_sstep H; try (exfalso; eapply N; reflexivity);
    cases_in H; try some_inv H; reflexivity.
Qed.

Lemma ceil_div_zero b : 0 < b -> ceil_div 0 b = 0.
Proof. intro H. unfold ceil_div. apply Z.div_small. lia. Qed.

(* demand at or below the reserve wants no partition at all *)
Lemma giveme_below_reserve c s v s' o :
  sstep c s (SAGiveMe v) = Some (s', o) -> v <= s_reserved s -> 0 <= s_factor s -> s_target s' = 0.
Proof.
  intros H L F. destruct (giveme_target _ _ _ _ _ H) as [E _]. rewrite E.
  rewrite Z.max_l by lia. apply ceil_div_zero. destruct (s_factor s =? 0) eqn:X; [lia|]. apply Z.eqb_neq in X. lia.
Qed.

(* ------------------------------------------------------------------ C04 / C07: the lease is never outlived *)

(* when a granted lease is counted, it is counted until exactly issue time + lease time,
   whatever the latency of the call; and a lease whose time is already up is not counted *)
Lemma lease_ret_expiry c s lt s' o p issued :
  s_loop s = SCalling p issued -> sstep c s (SILeaseRet lt) = Some (s', o) ->
  (exists since, s_loop s' = STop since) /\
  ( (s_parts s' = s_parts s /\ s_timers s' = s_timers s /\ (lt <= 0 \/ issued + lt <= s_now s))
    \/ (0 < lt /\ s_now s < issued + lt /\ s_parts s' = set_nth p (Some (issued + lt)) (s_parts s)
        /\ s_timers s' = (p, issued + lt) :: s_timers s /\ In (SOEvAllocated p) o) ).
Proof.
  intros L H. simpl in H. unfold do_lease_ret in H. rewrite L in H.
  destruct (lt <=? 0) eqn:E1.
  - some_inv H. simpl. split; [eauto|]. left. apply Z.leb_le in E1. tauto.
  - unfold remaining in H. destruct (lt - (s_now s - issued) <=? 0) eqn:E2.
    + some_inv H. simpl. split; [eauto|]. left. apply Z.leb_le in E2. repeat split; try reflexivity. right. lia.
    + apply Z.leb_gt in E1, E2.
      assert (X : s_now s + (lt - (s_now s - issued)) = issued + lt) by lia.
      destruct (sc_gen c); some_inv H; unfold calc; simpl; rewrite X; (split; [eauto|]); right;
        repeat split; try reflexivity; try lia; tauto.
Qed.

(* every running expiry timer lies in the future (or now): time cannot pass it, so a counted
   partition stops being counted at its expiry; no step moves an expiry (no renewal) *)
Definition TimerInv (c : scfg) (s : sstate) : Prop :=
  (sc_gen c = V1 \/ s_stop_req s = false) -> Forall (fun x => s_now s <= snd x) (s_timers s).

Lemma remove_timer_in : forall p t l l', remove_timer p t l = Some l' ->
  forall x, In x l' -> In x l.
Proof.
  induction l as [|[q u] l IH]; simpl; intros l' H x I; [discriminate|].
  destruct (Nat.eqb p q && (t =? u)).
  - inv H. now right.
  - destruct (remove_timer p t l) as [r|] eqn:E; [|discriminate]. inv H.
    destruct I as [I|I]; [now left|right; eapply IH; eauto].
Qed.

Lemma timer_step c s l s' o : TimerInv c s -> sstep c s l = Some (s', o) -> TimerInv c s'.
Proof.
  intros HI H.
  destruct l; simpl in H; unfold_sstep H.
  all: try (cases_in H; try some_inv H; unfold TimerInv, calc in *; simpl in *; intros X;
            first [ apply HI; destruct X as [X|X]; [left; congruence | right; congruence]
                  | constructor ]; fail).
  - (* lease returns *)
    destruct (s_loop s) eqn:L; try discriminate.
    cases_in H; some_inv H; unfold TimerInv, calc, remaining in *; simpl in *; intros X;
      try (apply HI; destruct X as [X|X]; [left; congruence | right; congruence]).
    all: constructor; [simpl; match goal with E : (_ <=? 0) = false |- _ => apply Z.leb_gt in E end; lia
                      | apply HI; destruct X as [X|X]; [left; congruence | right; congruence]].
  - (* expiry *)
    destruct (remove_timer p (s_now s) (s_timers s)) as [tm|] eqn:E; [|discriminate].
    cases_in H; some_inv H; unfold TimerInv, calc in *; simpl in *; intros X;
      (assert (F : Forall (fun x => s_now s <= snd x) (s_timers s))
         by (apply HI; destruct X as [X|X]; [left; congruence | right; congruence]));
      rewrite Forall_forall in *; intros x I; apply F; eapply remove_timer_in; eauto.
  - (* time *)
    destruct ((s_now s <=? t) && expiries_ok c s t && pace_ok c s t) eqn:E; [|discriminate]. some_inv H.
    apply andb_prop in E. destruct E as [E _]. apply andb_prop in E. destruct E as [_ H0].
    unfold TimerInv, expiries_ok in *. simpl. intros X. rewrite forallb_forall in H0.
    apply Forall_forall. intros x I. specialize (H0 x I). apply orb_prop in H0. destruct H0 as [A|A].
    + now apply Z.leb_le.
    + destruct (sc_gen c); [discriminate|]. destruct X as [X|X]; congruence.
Qed.

Theorem timer_reachable c r sh s : sreachable c r sh s -> TimerInv c s.
Proof.
  apply sreachable_inv; [intros _; constructor|]. intros s0 l s1 o HI HS. eapply timer_step; eauto.
Qed.

(* ------------------------------------------------------------------ C17: life cycle *)

Definition sexited (s : sstate) : bool := match s_loop s with SExited => true | _ => false end.

Definition SLifeInv (s : sstate) : Prop :=
  s_shutdowns s = (if sexited s then 1 else 0)%nat
  /\ (sexited s = true -> s_phase s = SStopped).

Lemma slife_step c s l s' o : SLifeInv s -> sstep c s l = Some (s', o) -> SLifeInv s'.
Proof.
  intros [H1 H2] H.
  destruct l; simpl in H; unfold_sstep H.
  all: try (cases_in H; try some_inv H; unfold SLifeInv, sexited, calc, at_top, loop_running in *; simpl in *;
            bool_hyps; destruct (s_loop s) eqn:EL; simpl in *; try discriminate;
            (split; [first [assumption | lia | intuition congruence] | intros X; intuition congruence]); fail).
Qed.

Theorem slife_reachable c r sh s : sreachable c r sh s -> SLifeInv s.
Proof.
  apply sreachable_inv; [split; simpl; [reflexivity|discriminate]|].
  intros s0 l s1 o HI HS. eapply slife_step; eauto.
Qed.

(* Start succeeds only from the right phase, and only once *)
Lemma sstart_once c s a s' o :
  sstep c s (SAStart a) = Some (s', o) ->
  (In (SOStartRet 0) o ->
     s_phase s = (match sc_gen c with V1 => SProvisioned | V2 => SUninit end) /\ s_phase s' = SStarted)
  /\ (s_phase s <> (match sc_gen c with V1 => SProvisioned | V2 => SUninit end) -> o = [SOStartRet 1] /\ s' = s).
Proof.
  simpl. unfold do_sstart. intro H.
  destruct (sc_gen c); destruct (s_phase s) eqn:P; cases_in H; some_inv H; simpl;
    (split; [intro X; repeat (destruct X as [X|X]; try discriminate); try contradiction; split; reflexivity
            | intro X; try congruence; split; reflexivity]).
Qed.

(* a provisioning failure reported by Start leaves the resource not started (V2) *)
Lemma sstart_provision_failure_v2 c s s' o :
  sc_gen c = V2 -> sc_has_mgr c = true -> s_phase s = SUninit ->
  sstep c s (SAStart false) = Some (s', o) ->
  In (SOStartRet 5) o /\ s_phase s' = SUninit /\ s_loop s' = s_loop s.
Proof.
  intros G M P H. simpl in H. unfold do_sstart in H. rewrite G, P, M in H. some_inv H. simpl.
  repeat split; tauto.
Qed.

Lemma sprovision_failure_v1 c s b s' o :
  sc_gen c = V1 -> s_phase s = SUninit -> sstep c s (SAProvision false b) = Some (s', o) ->
  s_phase s' = SUninit /\ s_loop s' = s_loop s.
Proof.
  intros G P H. simpl in H. unfold do_provision_v1 in H. rewrite G, P in H.
  cases_in H; some_inv H; simpl in *; try discriminate; split; try assumption; reflexivity.
Qed.

(* no lease request once the loop has shut down *)
Lemma no_lease_after_shutdown c s p : s_loop s = SExited -> sstep c s (SILease p) = None.
Proof. intro L. simpl. unfold do_lease. now rewrite L. Qed.

Lemma exited_stays c s l s' o :
  s_loop s = SExited -> s_phase s = SStopped -> sstep c s l = Some (s', o) ->
  s_loop s' = SExited /\ s_phase s' = SStopped.
Proof.
  intros L P H. destruct l; simpl in H; unfold_sstep H; unfold at_top, loop_running in *; rewrite ?L, ?P in H;
    cases_in H; try some_inv H; simpl; try (split; assumption); try (split; reflexivity);
    try (split; [reflexivity|assumption]); try discriminate.
Qed.

(* V2 live reconfiguration *)
Lemma set_reserved_immediate c s v s' o :
  sc_gen c = V2 -> sstep c s (SASetReserved v) = Some (s', o) ->
  s_reserved s' = v /\ capacity s' = held s * s_factor s + v
  /\ max_capacity c s' = Z.min (s_shared s) (s_factor s * max_partitions) + v
  /\ s_parts s' = s_parts s.
Proof.
  intros G H. simpl in H. unfold do_set_reserved in H. rewrite G in H. some_inv H.
  unfold capacity, max_capacity, calc, held. rewrite G. simpl. repeat split; reflexivity.
Qed.

Lemma set_shared_without_manager c s v s' o :
  sc_gen c = V2 -> sc_has_mgr c = false -> sstep c s (SASetShared v) = Some (s', o) ->
  o = [SOSetSharedRet false] /\ s' = s.
Proof. intros G M H. simpl in H. unfold do_set_shared in H. rewrite G, M in H. some_inv H. split; reflexivity. Qed.

Lemma set_shared_requests_provision c s v s' o :
  sc_gen c = V2 -> sc_has_mgr c = true -> sstep c s (SASetShared v) = Some (s', o) ->
  o = [SOSetSharedRet true] /\ s_shared s' = v /\ s_prov_req s' = true /\ s_parts s' = s_parts s.
Proof.
  intros G M H. simpl in H. unfold do_set_shared in H. rewrite G, M in H. some_inv H. simpl. repeat split; reflexivity.
Qed.

(* ------------------------------------------------------------------ C06: limits *)

Lemma capacity_upper c r sh s :
  sreachable c r sh s -> (sc_gen c = V2 \/ s_recalcs s = 0%nat) -> not_creating s -> 0 <= s_factor s ->
  capacity s <= s_reserved s + s_factor s * Z.of_nat (length (s_parts s)).
Proof.
  intros R X NC F. destruct (capinv_reachable c r sh s R) as [_ HC]. unfold capacity. rewrite (HC X NC).
  rewrite held_unfold. pose proof (heldn_le (s_parts s)). nia.
Qed.

Lemma max_capacity_spec c s :
  max_capacity c s = match sc_gen c with
                     | V1 => s_shared s + s_reserved s
                     | V2 => Z.min (s_shared s) (s_factor s * max_partitions) + s_reserved s
                     end.
Proof. reflexivity. Qed.

Lemma ceil_div_exact a b : 0 < b -> (b | a) -> ceil_div a b * b = a.
Proof.
  intros Hb [k E]. subst a. unfold ceil_div.
  replace (k * b + b - 1) with (k * b + (b - 1)) by lia.
  rewrite Z.div_add_l by lia. rewrite Z.div_small by lia. lia.
Qed.

(* before Start succeeds there is no acquisition loop *)
Definition NotStartedInv (s : sstate) : Prop :=
  (s_phase s = SUninit \/ s_phase s = SProvisioned) -> s_loop s = SOff.

Lemma notstarted_step c s l s' o : NotStartedInv s -> sstep c s l = Some (s', o) -> NotStartedInv s'.
Proof.
  intros HI H.
  destruct l; simpl in H; unfold_sstep H.
  all: try (cases_in H; try some_inv H; unfold NotStartedInv, calc, at_top, loop_running in *; simpl in *;
            bool_hyps; intros X; try (destruct X; congruence); try (apply HI; assumption);
            try (apply HI; tauto); fail).
  all: cases_in H; try some_inv H; unfold NotStartedInv, calc, at_top, loop_running in *; simpl in *;
    bool_hyps; intros X; try (destruct X; congruence); try (apply HI; tauto);
    destruct (s_loop s) eqn:EL; try discriminate; try reflexivity;
    try (assert (Y : SOff = SOff) by reflexivity; specialize (HI X); congruence).
Qed.

Lemma notstarted_time c s t s' o : NotStartedInv s -> sstep c s (STime t) = Some (s', o) -> NotStartedInv s'.
Proof. apply notstarted_step. Qed.

Lemma lease_ret_frame c s lt s' o :
  sstep c s (SILeaseRet lt) = Some (s', o) ->
  s_now s' = s_now s /\ exists p t, s_loop s = SCalling p t.
Proof.
  simpl. unfold do_lease_ret. intro H. destruct (s_loop s) eqn:L; try discriminate.
  split; [|eauto]. cases_in H; some_inv H; unfold calc; reflexivity.
Qed.

(* ------------------------------------------------------------------ C17: stale timers (after the repair of D9) *)

(* the expiry timer of a partition that was dropped by a resize and acquired again (it then carries
   a later expiry) does not touch the new lease: the partition stays counted *)
Lemma stale_timer_keeps_new_lease c s p e s' o :
  sc_gen c = V2 -> nth_error (s_parts s) p = Some (Some e) -> e <> s_now s ->
  sstep c s (SIExpire p) = Some (s', o) -> s_parts s' = s_parts s.
Proof.
  intros G N D H. simpl in H. unfold do_expire in H.
  destruct (remove_timer p (s_now s) (s_timers s)); [|discriminate].
  rewrite G in H. destruct (s_stop_req s); [discriminate|]. inv H. unfold calc. simpl.
  unfold clear_part. rewrite G, N. destruct (e =? s_now s) eqn:E; [apply Z.eqb_eq in E; congruence|reflexivity].
Qed.

(* ... and the timer that belongs to the lease does clear it *)
Lemma own_timer_clears c s p s' o :
  nth_error (s_parts s) p = Some (Some (s_now s)) ->
  sstep c s (SIExpire p) = Some (s', o) -> nth_error (s_parts s') p = Some None.
Proof.
  intros N H. simpl in H. unfold do_expire in H.
  destruct (remove_timer p (s_now s) (s_timers s)); [|discriminate].
  assert (X : nth_error (clear_part c s p) p = Some None).
  { unfold clear_part. rewrite N, Z.eqb_refl. destruct (sc_gen c);
      (clear - N; revert N; generalize (s_parts s); induction p as [|p IH]; intros [|x l] N; simpl in *; try discriminate; auto). }
  destruct (sc_gen c); [inv H; simpl; exact X|].
  destruct (s_stop_req s); [discriminate|]. inv H. unfold calc. simpl. exact X.
Qed.
