(* Proofs/ProgressInv.v — operations are served in turn (C08, bounded progress).

   Without a limit on concurrent batches (and in V1) a cycle only ever takes the head of the buffer.
   rank id s   : 1 + the position of the operation with call number id in the buffer, 0 if it is not there;
   taken_total : the number of operations taken out of the buffer so far (raised or in a batch under construction).
   In every execution, from a state in which the operation is buffered at position i, once i + 1 further
   operations have been taken the operation itself has left the buffer (taken, or dropped by a V2 shutdown).
   With C08_head_progress (every cycle that has an allowance takes at least the head) this bounds the number of
   cycles an accepted operation can wait by its position in the buffer. *)
From Coq Require Import List ZArith Bool Lia Permutation.
From RecordUpdate Require Import RecordUpdate.
From GB Require Import Model.Allowance Model.Batcher Proofs.Tactics Proofs.C01Inv Proofs.BatcherInv3 Proofs.OrderInv.
Import ListNotations.

Local Opaque allowance.

Fixpoint pos_id (id : nat) (l : list op) : option nat :=
  match l with
  | [] => None
  | o :: r => if Nat.eqb (o_id o) id then Some 0%nat else option_map S (pos_id id r)
  end.

Definition rank (id : nat) (s : state) : nat :=
  match pos_id id (buffer s) with Some i => S i | None => 0%nat end.

Definition taken_total (s : state) : nat := (length (raised_ops s) + length (open_ops s))%nat.

Lemma pos_id_none id l : ~ In id (ids l) -> pos_id id l = None.
Proof.
  induction l as [|o l IH]; simpl; intro H; [reflexivity|].
  destruct (Nat.eqb (o_id o) id) eqn:E.
  - apply Nat.eqb_eq in E. exfalso. apply H. now left.
  - rewrite IH; [reflexivity|]. intro X. apply H. now right.
Qed.

Lemma pos_id_in id l i : pos_id id l = Some i -> In id (ids l).
Proof.
  revert i. induction l as [|o l IH]; simpl; intros i H; [discriminate|].
  destruct (Nat.eqb (o_id o) id) eqn:E; [apply Nat.eqb_eq in E; now left|].
  destruct (pos_id id l) eqn:P; [|discriminate]. right. eapply IH. reflexivity.
Qed.

Lemma pos_id_snoc id l x : o_id x <> id -> pos_id id (l ++ [x]) = pos_id id l.
Proof.
  intro N. induction l as [|o l IH]; simpl.
  - apply Nat.eqb_neq in N. now rewrite N.
  - destruct (Nat.eqb (o_id o) id); [reflexivity|]. now rewrite IH.
Qed.

(* ids of the buffer are among the inserted ones and pairwise distinct *)
Lemma buffer_ids c s : reachable c s -> NoDup (ids (buffer s)) /\ (forall x, In x (ids (buffer s)) -> In x (ids (g_inserted s))).
Proof.
  intro R. destruct (conserved_reachable c s R) as (P & _ & _). destruct (idinv_reachable c s R) as (N & _).
  unfold live_ids in N.
  apply nodup_app_inv in N. destruct N as (_ & N & _).
  apply nodup_app_inv in N. destruct N as (_ & N & _).
  apply nodup_app_inv in N. destruct N as (_ & N & _).
  apply nodup_app_inv in N. destruct N as (N & _ & _).
  assert (PI : Permutation (ids (g_inserted s)) (ids (buffer s) ++ ids (open_ops s ++ raised_ops s ++ g_discarded s))).
  { unfold ids. rewrite <- map_app. now apply Permutation_map. }
  split.
  - pose proof (Permutation_NoDup PI N) as N2. apply nodup_app_inv in N2. tauto.
  - intros x I. eapply Permutation_in; [symmetry; exact PI|]. apply in_or_app. now left.
Qed.

Lemma taken_perm s s' o :
  Permutation (open_ops s' ++ raised_ops s') (o :: open_ops s ++ raised_ops s) -> taken_total s' = S (taken_total s).
Proof.
  intro P. apply Permutation_length in P. unfold taken_total. simpl in P. rewrite !app_length in P. lia.
Qed.

Lemma rank_tail id o rest : NoDup (ids (o :: rest)) ->
  match pos_id id (o :: rest) with
  | Some 0%nat => pos_id id rest = None
  | Some (S i) => pos_id id rest = Some i
  | None => pos_id id rest = None
  end.
Proof.
  intro N. simpl. destruct (Nat.eqb (o_id o) id) eqn:E.
  - apply Nat.eqb_eq in E. apply pos_id_none. inversion N; subst. assumption.
  - destruct (pos_id id rest); reflexivity.
Qed.

Definition prog (id : nat) (s s' : state) : Prop :=
  (rank id s' = 0%nat \/ (rank id s' + taken_total s' <= rank id s + taken_total s)%nat)
  /\ In id (ids (g_inserted s'))
  /\ (rank id s = 0%nat -> rank id s' = 0%nat).

Lemma prog_same id s s' :
  In id (ids (g_inserted s)) ->
  buffer s' = buffer s -> g_inserted s' = g_inserted s -> cy_open s' = cy_open s -> g_raised s' = g_raised s ->
  prog id s s'.
Proof.
  intros I F1 F2 F3 F4. unfold prog, rank, taken_total, raised_ops, open_ops. rewrite F1, F2, F3, F4.
  split; [right; lia|]. split; [exact I|auto].
Qed.

Lemma prog_insert c id s s' x :
  reachable c s -> In id (ids (g_inserted s)) -> ~ In (o_id x) (ids (g_inserted s)) ->
  buffer s' = buffer s ++ [x] -> g_inserted s' = x :: g_inserted s -> cy_open s' = cy_open s -> g_raised s' = g_raised s ->
  prog id s s'.
Proof.
  intros R I NX F1 F2 F3 F4. unfold prog, rank, taken_total, raised_ops, open_ops. rewrite F1, F2, F3, F4.
  assert (NE : o_id x <> id) by (intro E; apply NX; now rewrite E).
  rewrite (pos_id_snoc id (buffer s) x NE).
  split; [right; lia|]. split; [simpl; now right|auto].
Qed.

(* a caller that is not yet in the buffer has a number that was never inserted *)
Lemma fresh_counted c s id o h : reachable c s -> find_call id (counted s) = Some (o, h) -> ~ In (o_id o) (ids (g_inserted s)).
Proof.
  intros R F. destruct (idinv_reachable c s R) as (N & _). unfold live_ids in N.
  destruct (find_call_perm _ _ _ _ F) as [E P].
  apply nodup_app_inv in N. destruct N as (_ & _ & D). intro X.
  apply (D (o_id o)).
  - eapply Permutation_in; [symmetry; exact P|]. rewrite E. now left.
  - apply in_or_app. right. apply in_or_app. right. apply in_or_app. now left.
Qed.

Lemma fresh_woken c s id o : reachable c s -> find_op id (woken s) = Some o -> ~ In (o_id o) (ids (g_inserted s)).
Proof.
  intros R F. destruct (idinv_reachable c s R) as (N & _). unfold live_ids in N.
  destruct (find_op_perm _ _ _ F) as [E P].
  rewrite app_assoc, app_assoc in N. apply nodup_app_inv in N. destruct N as (N1 & _ & D).
  rewrite <- app_assoc in N1. apply nodup_app_inv in N1. destruct N1 as (_ & N1 & _).
  intro X. apply (D (o_id o)).
  - apply in_or_app. right. eapply Permutation_in; [symmetry; exact P|]. rewrite E. now left.
  - apply in_or_app. now left.
Qed.

Lemma fresh_waiting c s x r : reachable c s -> waiting s = x :: r -> ~ In (o_id x) (ids (g_inserted s)).
Proof.
  intros R F. destruct (idinv_reachable c s R) as (N & _). unfold live_ids in N. rewrite F in N.
  apply nodup_app_inv in N. destruct N as (_ & N & _). apply nodup_app_inv in N. destruct N as (_ & _ & D).
  intro X. apply (D (o_id x)); [simpl; now left|]. apply in_or_app. right. apply in_or_app. now left.
Qed.

(* taking the head *)
Lemma prog_take_head c id s s' o rest extra :
  reachable c s -> In id (ids (g_inserted s)) -> buffer s = o :: rest ->
  (forall x, In x extra -> ~ In (o_id x) (ids (g_inserted s))) ->
  buffer s' = rest ++ extra -> ids (g_inserted s') = ids (rev extra) ++ ids (g_inserted s) ->
  taken_total s' = S (taken_total s) ->
  prog id s s'.
Proof.
  intros R I B FX F1 F2 FT. destruct (buffer_ids c s R) as [N _]. rewrite B in N.
  unfold prog, rank. rewrite F1, B, FT.
  assert (PE : pos_id id (rest ++ extra) = pos_id id rest).
  { clear - FX I. induction extra as [|x extra IH] using rev_ind; [now rewrite app_nil_r|].
    rewrite app_assoc, pos_id_snoc.
    - apply IH. intros y Y. apply FX. apply in_or_app. now left.
    - intro E. apply (FX x); [apply in_or_app; right; now left|now rewrite E]. }
  rewrite PE. pose proof (rank_tail id o rest N) as RT.
  split; [|split].
  - destruct (pos_id id (o :: rest)) as [[|i]|]; rewrite RT; [now left|right; lia|now left].
  - rewrite F2. apply in_or_app. now right.
  - destruct (pos_id id (o :: rest)) as [[|i]|]; try discriminate. intros _. now rewrite RT.
Qed.

Lemma fprog_step c id s l s' o :
  fifo c = true -> reachable c s -> In id (ids (g_inserted s)) -> step c s l = Some (s', o) -> prog id s s'.
Proof.
  intros FF R I H.
  pose proof (conserved_reachable c s R) as (_ & HC & _).
  destruct l; simpl in H; unfold_step H.
  all: try (cases_in H; try some_inv H; apply prog_same; simpl; solve [assumption | reflexivity]).
  - (* insert *)
    destruct (find_call call (counted s)) as [[o1 h]|] eqn:EF; [|discriminate].
    destruct h; [discriminate|].
    pose proof (fresh_counted c s call o1 false R EF) as FR.
    cases_in H; some_inv H; try (apply prog_same; simpl; solve [assumption | reflexivity]).
    apply (prog_insert c id s _ o1 R I FR); simpl; reflexivity.
  - (* retry *)
    destruct (c_gen c) eqn:EG; [discriminate|].
    destruct (find_op call (woken s)) as [o1|] eqn:EF; [|discriminate].
    pose proof (fresh_woken c s call o1 R EF) as FR.
    cases_in H; some_inv H; try (apply prog_same; simpl; solve [assumption | reflexivity]).
    apply (prog_insert c id s _ o1 R I FR); simpl; reflexivity.
  - (* shutdown *)
    cases_in H; some_inv H; try (apply prog_same; simpl; solve [assumption | reflexivity]).
    unfold prog, rank. simpl. split; [now left|]. split; [exact I|reflexivity].
  - (* cycle begin *)
    destruct (loop_idle s && flush_tok s) eqn:E; [|discriminate]. some_inv H.
    assert (EO : open_ops s = []).
    { apply HC. unfold in_cycle, loop_idle in *. destruct (loop s); try reflexivity; simpl in E; discriminate. }
    unfold prog, rank, taken_total, raised_ops, open_ops in *. simpl. rewrite EO.
    split; [right; simpl; lia|]. split; [exact I|auto].
  - (* visit *)
    unfold do_cycle_visit in H. destruct (loop s) eqn:EL; try discriminate.
    destruct (c_gen c) eqn:EG.
    + unfold visit_v1 in H.
      destruct (c_limiter c && (cy_allow s <? cy_consumed s))%Z.
      { some_inv H. apply prog_same; simpl; solve [assumption | reflexivity]. }
      destruct (buffer s) as [|o0 rest] eqn:EB.
      { some_inv H. apply prog_same; simpl; try assumption; try reflexivity; try (now rewrite EB). }
      destruct (waiting s) as [|x r] eqn:EW.
      * destruct (take_op c (s <| buffer := rest |>) o0) as [s2 ev] eqn:ET. some_inv H.
        pose proof (take_op_frame _ _ _ _ _ ET) as (T1 & T2 & _ & _ & _ & _ & _ & _ & _ & _ & _ & TP). simpl in T1, T2, TP.
        apply (prog_take_head c id s s2 o0 rest [] R I EB); [intros x []|now rewrite app_nil_r|simpl; now rewrite T1|].
        now apply taken_perm with (o := o0).
      * destruct (take_op c (s <| buffer := rest ++ [x] |> <| waiting := r |>
                               <| g_inserted := x :: g_inserted s |>) o0) as [s2 ev] eqn:ET.
        some_inv H.
        pose proof (take_op_frame _ _ _ _ _ ET) as (T1 & T2 & _ & _ & _ & _ & _ & _ & _ & _ & _ & TP). simpl in T1, T2, TP.
        pose proof (fresh_waiting c s x r R EW) as FR.
        apply (prog_take_head c id s s2 o0 rest [x] R I EB).
        -- intros y [Y|[]]. now subst.
        -- exact T2.
        -- rewrite T1. reflexivity.
        -- now apply taken_perm with (o := o0).
    + unfold visit_v2 in H.
      assert (MC : c_maxconc c = 0%nat).
      { unfold fifo in FF. rewrite EG in FF. now apply Nat.eqb_eq in FF. }
      destruct (finv_reachable c s FF R) as [_ CUR].
      destruct (cy_cur s) as [i|] eqn:EC.
      2:{ some_inv H. apply prog_same; simpl; solve [assumption | reflexivity]. }
      assert (i = 0%nat) by (destruct (CUR EG) as [X|X]; congruence). subst i.
      destruct (nth_error (buffer s) 0) as [o0|] eqn:EN.
      2:{ some_inv H. apply prog_same; simpl; solve [assumption | reflexivity]. }
      destruct (buffer s) as [|o1 rest] eqn:EB; [discriminate|]. simpl in EN. inv EN.
      destruct (c_limiter c && (cy_allow s <=? cy_consumed s))%Z.
      { some_inv H. apply prog_same; simpl; try assumption; try reflexivity; try (now rewrite EB). }
      match type of H with match ?r with _ => _ end = _ => destruct r as [s1|] eqn:ER end.
      2:{ exfalso. revert ER. unfold try_reserve. rewrite MC. simpl.
          destruct (o_batchable o0); [destruct (get_open (cy_open s) (o_w o0))|]; discriminate. }
      assert (s1 = s).
      { revert ER. unfold try_reserve. rewrite MC. simpl.
        destruct (o_batchable o0); [destruct (get_open (cy_open s) (o_w o0))|]; intro X; inv X; reflexivity. }
      subst s1.
      destruct (take_op c (remove_at s 0) o0) as [s2 ev] eqn:ET. some_inv H.
      pose proof (take_op_frame _ _ _ _ _ ET) as (T1 & T2 & _ & _ & _ & _ & _ & _ & _ & _ & _ & TP).
      destruct (remove_at_frame s 0) as (R1 & R2 & _ & _ & R5 & R6 & _).
      apply (prog_take_head c id s s2 o0 rest [] R I EB); [intros x []| |simpl; now rewrite T1, R1|].
      * rewrite T2, R2, EB, app_nil_r. reflexivity.
      * apply taken_perm with (o := o0). unfold open_ops, raised_ops in *. rewrite R5, R6 in TP. exact TP.
  - (* cycle raise *)
    destruct (loop s) eqn:EL; try discriminate.
    destruct (get_open (cy_open s) w) as [|o1 l1] eqn:EG; [discriminate|].
    unfold raise in H. some_inv H. unfold prog, rank, taken_total, raised_ops, open_ops. simpl.
    pose proof (set_open_perm (cy_open s) w []) as P. simpl in P. rewrite EG in P.
    apply Permutation_length in P. rewrite !app_length in *. simpl in *.
    split; [right; lia|]. split; [exact I|auto].
  - (* cycle end *)
    destruct (loop s) eqn:EL; try discriminate.
    destruct (open_empty (cy_open s)) eqn:EO; [|discriminate].
    some_inv H. unfold prog, rank, taken_total, raised_ops, open_ops. simpl.
    rewrite (open_empty_nil (cy_open s) EO). split; [right; simpl; lia|]. split; [exact I|auto].
Qed.

Lemma rank_zero_stays c id : forall ls s s' os,
  fifo c = true -> reachable c s -> In id (ids (g_inserted s)) -> rank id s = 0%nat ->
  run c s ls = Some (s', os) -> rank id s' = 0%nat.
Proof.
  induction ls as [|l ls IH]; intros s s' os FF R I Z H; simpl in H.
  - inv H. exact Z.
  - destruct (step c s l) as [[s1 o1]|] eqn:E; [|discriminate].
    destruct (run c s1 ls) as [[s2 o2]|] eqn:E2; [|discriminate]. inv H.
    destruct (fprog_step c id s l s1 o1 FF R I E) as (_ & P2 & P3).
    eapply IH; [exact FF|eapply reachable_step; eauto|exact P2|exact (P3 Z)|exact E2].
Qed.

Theorem fifo_progress c id : forall ls s s' os,
  fifo c = true -> reachable c s -> In id (ids (g_inserted s)) -> run c s ls = Some (s', os) ->
  rank id s' = 0%nat \/ (rank id s' + taken_total s' <= rank id s + taken_total s)%nat.
Proof.
  induction ls as [|l ls IH]; intros s s' os FF R I H; simpl in H.
  - inv H. right. lia.
  - destruct (step c s l) as [[s1 o1]|] eqn:E; [|discriminate].
    destruct (run c s1 ls) as [[s2 o2]|] eqn:E2; [|discriminate]. inv H.
    destruct (fprog_step c id s l s1 o1 FF R I E) as (P1 & P2 & P3).
    pose proof (reachable_step c s l s1 o1 R E) as R1.
    destruct P1 as [P1|P1].
    + left. eapply rank_zero_stays; eauto.
    + destruct (IH s1 s' o2 FF R1 P2 E2) as [X|X]; [now left|right; lia].
Qed.

(* an operation buffered at position i has left the buffer once i + 1 further operations have been taken *)
Corollary served_in_turn c id ls s s' os i :
  fifo c = true -> reachable c s -> pos_id id (buffer s) = Some i -> run c s ls = Some (s', os) ->
  (taken_total s + i + 1 <= taken_total s')%nat -> pos_id id (buffer s') = None.
Proof.
  intros FF R P H T.
  assert (I : In id (ids (g_inserted s))).
  { destruct (buffer_ids c s R) as [_ S]. apply S. eapply pos_id_in; eauto. }
  destruct (fifo_progress c id ls s s' os FF R I H) as [X|X]; unfold rank in *; rewrite ?P in *;
    destruct (pos_id id (buffer s')); try reflexivity; try discriminate; lia.
Qed.
