(* Proofs/Tactics.v — small proof automation shared by the invariant proofs. *)
From Coq Require Import List ZArith Bool Lia Permutation PeanoNat.
From RecordUpdate Require Import RecordUpdate.
From GB Require Import Model.Allowance Model.Batcher.
Import ListNotations.

Ltac inv H := inversion H; subst; clear H.

(* destruct the scrutinee of one match/if in hypothesis H *)
Ltac case_in H :=
  match type of H with
  | context [match ?x with _ => _ end] =>
      match x with
      | context [match _ with _ => _ end] => fail 1
      | _ => destruct x eqn:?
      end
  | context [if ?x then _ else _] =>
      match x with
      | context [if _ then _ else _] => fail 1
      | _ => destruct x eqn:?
      end
  end.

Ltac cases_in H := repeat (case_in H; try discriminate H).

(* turn [Some (a, b) = Some (s', o)] into equations, eliminating the right-hand variables *)
Ltac some_inv H :=
  match type of H with
  | Some (_, _) = Some (?a, ?b) =>
      let E1 := fresh "E" in let E2 := fresh "E" in
      injection H as E1 E2; try subst a; try subst b
  | Some _ = Some _ => inversion H; subst; clear H
  | None = Some _ => discriminate H
  | Some _ = None => discriminate H
  end.

Ltac bool_hyps :=
  repeat match goal with
  | H : _ && _ = true |- _ => apply andb_prop in H; destruct H
  | H : _ || _ = false |- _ => apply orb_false_elim in H; destruct H
  | H : negb _ = true |- _ => apply negb_true_iff in H
  | H : negb _ = false |- _ => apply negb_false_iff in H
  end.

(* permutation goals over lists of operations, decided by counting occurrences:
   every Permutation hypothesis becomes an equation between counts, ++ and :: become
   sums, and lia finishes *)
Definition op_eq_dec : forall a b : op, {a = b} + {a <> b}.
Proof.
  decide equality; try apply Z.eq_dec; try apply Nat.eq_dec; try apply Bool.bool_dec.
Defined.

Ltac perm_hyps_with dec z :=
  repeat match goal with
  | H : Permutation ?a ?b |- _ =>
      let E := fresh "PE" in
      pose proof (proj1 (Permutation_count_occ dec a b) H z) as E; clear H
  end.

Ltac perm_norm :=
  repeat first [ rewrite count_occ_app in * | rewrite map_app in * | rewrite flat_map_app in *
               | progress (simpl count_occ in * ) | progress (simpl map in * ) ].

Ltac perm_with dec :=
  apply (proj2 (Permutation_count_occ dec _ _)); let z := fresh "z" in intro z; perm_hyps_with dec z;
  perm_norm;
  repeat match goal with
  | |- context [dec ?a ?b] => destruct (dec a b)
  | H : context [dec ?a ?b] |- _ => destruct (dec a b)
  end;
  perm_norm; try lia.

Ltac perm := perm_with op_eq_dec.
Ltac perm_nat := perm_with Nat.eq_dec.

Lemma nodup_app_inv {A} (l1 l2 : list A) :
  NoDup (l1 ++ l2) -> NoDup l1 /\ NoDup l2 /\ (forall x, In x l1 -> ~ In x l2).
Proof.
  induction l1 as [|a l1 IH]; simpl; intro N.
  - repeat split; [constructor|exact N|intros x []].
  - inversion N as [|? ? N1 N2]; subst. destruct (IH N2) as (I1 & I2 & I3). repeat split.
    + constructor; [|exact I1]. intro X. apply N1. apply in_or_app. now left.
    + exact I2.
    + intros x [X|X] Y; [subst; apply N1; apply in_or_app; now right | exact (I3 x X Y)].
Qed.

(* reachability *)
Definition reachable (c : cfg) (s : state) : Prop :=
  exists ls os, run c (init c) ls = Some (s, os).

Lemma run_app c : forall ls1 ls2 s0 s1 o1 s2 o2,
  run c s0 ls1 = Some (s1, o1) -> run c s1 ls2 = Some (s2, o2) ->
  run c s0 (ls1 ++ ls2) = Some (s2, o1 ++ o2).
Proof.
  induction ls1 as [|l ls1 IH]; intros ls2 s0 s1 o1 s2 o2 H1 H2; simpl in *.
  - inv H1. exact H2.
  - destruct (step c s0 l) as [[s' o']|] eqn:E; [|discriminate].
    destruct (run c s' ls1) as [[s'' o'']|] eqn:E2; [|discriminate].
    inv H1. erewrite IH by eauto. now rewrite app_assoc.
Qed.

Lemma run_inv c (P : state -> Prop) :
  (forall s l s' o, P s -> step c s l = Some (s', o) -> P s') ->
  forall ls s0 s os, P s0 -> run c s0 ls = Some (s, os) -> P s.
Proof.
  intros Hstep. induction ls as [|l ls IH]; intros s0 s os H0 H; simpl in H.
  - inv H. exact H0.
  - destruct (step c s0 l) as [[s' o']|] eqn:E; [|discriminate].
    destruct (run c s' ls) as [[s'' o'']|] eqn:E2; [|discriminate].
    inv H. eapply IH; [eapply Hstep; eassumption | eassumption].
Qed.

Lemma reachable_inv c (P : state -> Prop) :
  P (init c) ->
  (forall s l s' o, reachable c s -> P s -> step c s l = Some (s', o) -> P s') ->
  forall s, reachable c s -> P s.
Proof.
  intros Hi Hs s [ls [os H]].
  assert (G : reachable c s /\ P s).
  { eapply (run_inv c (fun s => reachable c s /\ P s)); [| |exact H].
    - intros s1 l s2 o [R1 P1] E. split.
      + destruct R1 as [ls1 [os1 R1]]. exists (ls1 ++ [l]), (os1 ++ o).
        eapply run_app; eauto. simpl. rewrite E. now rewrite app_nil_r.
      + eapply Hs; eauto.
    - split; [exists [], []; reflexivity | exact Hi]. }
  tauto.
Qed.

Lemma reachable_step c s l s' o : reachable c s -> step c s l = Some (s', o) -> reachable c s'.
Proof.
  intros [ls [os R]] E. exists (ls ++ [l]), (os ++ o).
  eapply run_app; eauto. simpl. rewrite E. now rewrite app_nil_r.
Qed.
