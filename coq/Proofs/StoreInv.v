(* Proofs/StoreInv.v — C04: instances never share a partition.  Invariant of the composition
   of N instance models with the lease store (Model/Store.v). *)
From Coq Require Import List ZArith Bool Lia.
From RecordUpdate Require Import RecordUpdate.
From GB Require Import Model.Allowance Model.Batcher Model.Shared Model.Store Proofs.Tactics Proofs.SharedInv.
Import ListNotations.
Open Scope Z_scope.

(* ------------------------------------------------------------------ facts about own steps *)

Lemma nth_repeat_none : forall n p (e : Z), nth_error (repeat (@None Z) n) p = Some (Some e) -> False.
Proof. induction n as [|n IH]; intros [|p] e X; simpl in X; try discriminate. eauto. Qed.

Lemma nth_resize_some : forall n (l : list (option Z)) p e,
  nth_error (resize n None l) p = Some (Some e) -> nth_error l p = Some (Some e).
Proof.
  induction n as [|n IH]; intros l p e X; simpl in X; [destruct p; discriminate|].
  destruct l as [|x l]; destruct p as [|p]; simpl in *; try discriminate; try assumption.
  - exfalso. apply IH in X. destruct p; discriminate.
  - eauto.
Qed.

Lemma nth_set_none : forall p (l : list (option Z)) q e,
  nth_error (set_nth p None l) q = Some (Some e) -> nth_error l q = Some (Some e).
Proof.
  induction p as [|p IH]; intros [|x l] [|q] e X; simpl in X; try discriminate; try assumption; simpl; eauto.
Qed.

Lemma nth_clear_part c s p q e :
  nth_error (clear_part c s p) q = Some (Some e) -> nth_error (s_parts s) q = Some (Some e).
Proof.
  destruct (clear_part_cases c s p) as [E|E]; rewrite E; [apply nth_set_none|auto].
Qed.

Lemma own_step_frame c s l s' o :
  NotStartedInv s -> own_label l = true -> sstep c s l = Some (s', o) ->
  s_now s' = s_now s
  /\ (forall p t, s_loop s = SCalling p t -> s_loop s' = SCalling p t)
  /\ (forall p t, s_loop s' = SCalling p t -> (s_loop s = SCalling p t \/ (t = s_now s /\ exists since, s_loop s = STop since)))
  /\ (forall p e, nth_error (s_parts s') p = Some (Some e) -> nth_error (s_parts s) p = Some (Some e)).
Proof.
  intros NS O H.
  destruct l; simpl in O; try discriminate; simpl in H; unfold_sstep H.
  all: try (cases_in H; try some_inv H; unfold calc, at_top in *; simpl in *;
            repeat split; intros; try congruence; try assumption; try (left; assumption);
            try (exfalso; eapply nth_repeat_none; eassumption);
            try (eapply nth_resize_some; eassumption); try (eapply nth_set_none; eassumption);
            try (eapply nth_clear_part; eassumption); fail).
  - (* Start *)
    assert (X : forall p t, s_loop s = SCalling p t -> s_phase s = SStarted \/ s_phase s = SStopped).
    { intros p t L. destruct (s_phase s) eqn:P; auto; exfalso; unfold NotStartedInv in NS; rewrite L in NS;
        (assert (Y : SCalling p t = SOff) by (apply NS; auto)); discriminate. }
    cases_in H; some_inv H; unfold calc; simpl; repeat split; intros; try congruence; try assumption; try (left; assumption);
      try (match goal with L : s_loop s = SCalling _ _ |- _ => destruct (X _ _ L); congruence end).
  - (* v2 loop provisioning *)
    destruct (sc_gen c); [discriminate|].
    destruct (at_top s && s_prov_req s) eqn:E; [|discriminate]. some_inv H. unfold calc. simpl.
    bool_hyps. unfold at_top in *. destruct (s_loop s) eqn:L; try discriminate.
    repeat split; intros; try congruence. eapply nth_resize_some; eassumption.
  - (* lease *)
    destruct (s_loop s) eqn:L; try discriminate.
    cases_in H; some_inv H; simpl; repeat split; intros; try congruence; try assumption.
    all: match goal with X : SCalling _ _ = SCalling _ _ |- _ => inv X end; right; split; [reflexivity|eauto].
  - (* shutdown *)
    destruct (s_loop s) eqn:L; try (rewrite andb_false_r in H; discriminate);
      cases_in H; some_inv H; simpl; repeat split; intros; try congruence; try assumption.
Qed.

Lemma time_step_frame c s t s' o :
  sstep c s (STime t) = Some (s', o) ->
  s_now s <= t /\ s_now s' = t /\ (forall p i, s_loop s' = SCalling p i <-> s_loop s = SCalling p i)
  /\ s_parts s' = s_parts s /\ s_timers s' = s_timers s
  /\ s_stop_req s' = s_stop_req s.
Proof.
  simpl. unfold do_stime. intro H. destruct ((s_now s <=? t) && expiries_ok c s t && pace_ok c s t) eqn:E; [|discriminate].
  some_inv H. apply andb_prop in E. destruct E as [E _]. apply andb_prop in E. destruct E as [E _].
  simpl. repeat split; try reflexivity; try (now apply Z.leb_le);
    unfold rest_loop; destruct (s_loop s); try (destruct (must_act s)); congruence.
Qed.

(* ------------------------------------------------------------------ the invariant *)

Definition holds (y : sys) (i p : nat) (E : Z) : Prop :=
  store_get (y_store y) p = Some (i, E) \/ E <= y_now y.

Definition YInv (y : sys) : Prop :=
  (* clocks in step, issue times in the past *)
  (forall i s, nth_error (y_insts y) i = Some s ->
     s_now s = y_now y /\ (forall p t, s_loop s = SCalling p t -> t <= y_now y))
  /\ (forall i s, nth_error (y_insts y) i = Some s -> NotStartedInv s)
  (* a counted partition is covered by a store lease of the same instance that ends no earlier,
     unless that lease is already over *)
  /\ (forall i s p e, nth_error (y_insts y) i = Some s -> nth_error (s_parts s) p = Some (Some e) ->
        exists E, e <= E /\ holds y i p E)
  (* the same for a grant that is still on its way back to the caller *)
  /\ (forall i E, pending_get (y_pending y) i = Some (Some E) ->
        exists s p t, nth_error (y_insts y) i = Some s /\ s_loop s = SCalling p t /\ t + lease <= E /\ holds y i p E).

Lemma nth_upd_same {A} : forall (l : list A) i x, (i < length l)%nat -> nth_error (upd l i x) i = Some x.
Proof.
  unfold upd. induction l as [|a l IH]; intros [|i] x H; simpl in *; try lia; [reflexivity|]. apply IH. lia.
Qed.

Lemma nth_upd_other {A} : forall (l : list A) i j x, i <> j -> nth_error (upd l i x) j = nth_error l j.
Proof.
  unfold upd. induction l as [|a l IH]; intros [|i] [|j] x H; simpl; try reflexivity; try congruence.
  apply IH. congruence.
Qed.

Lemma pending_del_other : forall l i j, i <> j -> pending_get (pending_del l i) j = pending_get l j.
Proof.
  induction l as [|[k d] l IH]; intros i j H; simpl; [reflexivity|].
  destruct (Nat.eqb i k) eqn:E1.
  - apply Nat.eqb_eq in E1. subst k. destruct (Nat.eqb j i) eqn:E2; [apply Nat.eqb_eq in E2; congruence|]. now apply IH.
  - simpl. destruct (Nat.eqb j k); [reflexivity|]. now apply IH.
Qed.

Lemma pending_del_same : forall l i, pending_get (pending_del l i) i = None.
Proof.
  induction l as [|[k d] l IH]; intros i; simpl; [reflexivity|].
  destruct (Nat.eqb i k) eqn:E1; [apply IH|]. simpl. rewrite E1. apply IH.
Qed.

Lemma advance_all_spec c t : forall l l', advance_all c t l = Some l' ->
  length l' = length l /\
  forall i s', nth_error l' i = Some s' -> exists s o, nth_error l i = Some s /\ sstep c s (STime t) = Some (s', o).
Proof.
  induction l as [|s l IH]; intros l' H; cbn [advance_all] in H.
  - inv H. split; [reflexivity|]. intros [|i] s' X; discriminate.
  - destruct (sstep c s (STime t)) as [[s1 o1]|] eqn:E; [|discriminate].
    destruct (advance_all c t l) as [r|] eqn:E2; [|discriminate]. inv H.
    destruct (IH r eq_refl) as [L F]. split; [simpl; now rewrite L|].
    intros [|i] s' X; simpl in X.
    + inv X. exists s, o1. split; [reflexivity|exact E].
    + destruct (F i s' X) as (s0 & o0 & A & B). exists s0, o0. split; assumption.
Qed.

Ltac ysplit := unfold YInv, holds; simpl; split; [|split; [|split]].

Lemma yinv_step c y l y' : YInv y -> ystep c y l = Some y' -> YInv y'.
Proof.
  intros (I1 & I0 & I2 & I3) H. destruct l; cbn [ystep] in H.
  - (* an instance's own step *)
    destruct (own_label l) eqn:O; [|discriminate].
    destruct (nth_error (y_insts y) i) as [s|] eqn:EN; [|discriminate].
    destruct (sstep c s l) as [[s' o]|] eqn:ES; [|discriminate]. inv H.
    destruct (own_step_frame c s l s' o (I0 i s EN) O ES) as (F1 & F2 & F3 & F4).
    assert (Li : (i < length (y_insts y))%nat) by (apply nth_error_Some; congruence).
    ysplit.
    + intros i0 s0 H. destruct (Nat.eq_dec i i0) as [->|N].
      * rewrite nth_upd_same in H by assumption. inv H. split; [rewrite F1; apply (I1 i0 s EN)|].
        intros p t L. destruct (F3 p t L) as [X|[X _]]; [apply (proj2 (I1 i0 s EN) p t X)|].
        subst t. rewrite (proj1 (I1 i0 s EN)). lia.
      * rewrite nth_upd_other in H by assumption. apply (I1 i0 s0 H).
    + intros i0 s0 H. destruct (Nat.eq_dec i i0) as [->|N].
      * rewrite nth_upd_same in H by assumption. inv H. eapply notstarted_step; [apply (I0 i0 s EN)|exact ES].
      * rewrite nth_upd_other in H by assumption. apply (I0 i0 s0 H).
    + intros i0 s0 p e A B. destruct (Nat.eq_dec i i0) as [->|N].
      * rewrite nth_upd_same in A by assumption. inv A. apply (I2 i0 s p e EN). now apply F4.
      * rewrite nth_upd_other in A by assumption. apply (I2 i0 s0 p e A B).
    + intros i0 E A. destruct (I3 i0 E A) as (s0 & p & t & B1 & B2 & B3 & B4).
      destruct (Nat.eq_dec i i0) as [->|N].
      * exists s', p, t. rewrite nth_upd_same by assumption. rewrite EN in B1. inv B1.
        repeat split; try assumption. now apply F2.
      * exists s0, p, t. rewrite nth_upd_other by assumption. repeat split; assumption.
  - (* the store decides *)
    destruct (nth_error (y_insts y) i) as [s|] eqn:EN; [|discriminate].
    destruct (pending_get (y_pending y) i) eqn:EP; [discriminate|].
    unfold calling in H. destruct (s_loop s) eqn:L; try discriminate.
    assert (T : issued <= y_now y) by (apply (proj2 (I1 i s EN) p issued L)).
    assert (G : forall y2, (y2 = y <| y_store := store_set (y_store y) p i (y_now y + lease) |>
                                   <| y_pending := (i, Some (y_now y + lease)) :: y_pending y |>) ->
                (forall i0 E0, store_get (y_store y) p = Some (i0, E0) -> E0 <= y_now y) -> YInv y2).
    { intros y2 -> Hfree. ysplit.
      - exact I1.
      - exact I0.
      - intros i0 s0 p0 e A B. destruct (I2 i0 s0 p0 e A B) as (E & E1 & E2). exists E. split; [exact E1|].
        destruct (Nat.eqb p0 p) eqn:EQ.
        + apply Nat.eqb_eq in EQ. subst p0. destruct E2 as [E2|E2]; [|now right]. right. eapply Hfree; eauto.
        + destruct E2 as [E2|E2]; [left; exact E2|now right].
      - intros i0 E A. destruct (Nat.eqb i0 i) eqn:EQ.
        + apply Nat.eqb_eq in EQ. subst i0. inv A. exists s, p, issued. repeat split; try assumption; try lia.
          left. now rewrite Nat.eqb_refl.
        + destruct (I3 i0 E A) as (s0 & p0 & t0 & B1 & B2 & B3 & B4). exists s0, p0, t0. repeat split; try assumption.
          destruct (Nat.eqb p0 p) eqn:EQ2.
          * apply Nat.eqb_eq in EQ2. subst p0. destruct B4 as [B4|B4]; [|now right]. right. eapply Hfree; eauto.
          * destruct B4 as [B4|B4]; [left; exact B4|now right]. }
    assert (G2 : YInv (y <| y_pending := (i, None) :: y_pending y |>)).
    { ysplit; [exact I1|exact I0|exact I2|].
      intros i0 E A. destruct (Nat.eqb i0 i); [discriminate|]. apply (I3 i0 E A). }
    destruct (store_get (y_store y) p) as [[h e]|] eqn:ES.
    + destruct (e <=? y_now y) eqn:EL; inv H; [|exact G2].
      eapply G; [reflexivity|]. intros i0 E0 X. inv X. now apply Z.leb_le.
    + inv H. eapply G; [reflexivity|]. intros i0 E0 X. discriminate.
  - (* fault *)
    destruct (nth_error (y_insts y) i) as [s|] eqn:EN; [|discriminate].
    destruct (pending_get (y_pending y) i) eqn:EP; [discriminate|].
    destruct (calling s); [|discriminate]. inv H.
    ysplit; [exact I1|exact I0|exact I2|].
    intros i0 E A. destruct (Nat.eqb i0 i); [discriminate|]. apply (I3 i0 E A).
  - (* return *)
    destruct (nth_error (y_insts y) i) as [s|] eqn:EN; [|discriminate].
    destruct (pending_get (y_pending y) i) as [d|] eqn:EP; [|discriminate].
    destruct (sstep c s (SILeaseRet match d with Some _ => lease | None => 0 end)) as [[s' o]|] eqn:ES; [|discriminate].
    inv H.
    assert (Li : (i < length (y_insts y))%nat) by (apply nth_error_Some; congruence).
    destruct (lease_ret_frame c s _ s' o ES) as (Hnow & p & t & L0).
    destruct (lease_ret_expiry c s _ s' o p t L0 ES) as ((since & LT) & R).
    ysplit.
    + intros i0 s0 H. destruct (Nat.eq_dec i i0) as [->|N].
      * rewrite nth_upd_same in H by assumption. inv H. split; [rewrite Hnow; apply (I1 i0 s EN)|].
        intros p0 t0 L. congruence.
      * rewrite nth_upd_other in H by assumption. apply (I1 i0 s0 H).
    + intros i0 s0 H. destruct (Nat.eq_dec i i0) as [->|N].
      * rewrite nth_upd_same in H by assumption. inv H. eapply notstarted_step; [apply (I0 i0 s EN)|exact ES].
      * rewrite nth_upd_other in H by assumption. apply (I0 i0 s0 H).
    + intros i0 s0 p0 e A B. destruct (Nat.eq_dec i i0) as [->|N].
      * rewrite nth_upd_same in A by assumption. inv A.
        destruct R as [(R1 & _)|(R1 & R2 & R3 & _)].
        -- rewrite R1 in B. apply (I2 i0 s p0 e EN B).
        -- rewrite R3 in B.
           destruct (Nat.eq_dec p p0) as [->|NP].
           ++ destruct d as [E|]; [|lia].
              destruct (I3 i0 E EP) as (s1 & p1 & t1 & C1 & C2 & C3 & C4).
              rewrite EN in C1. inv C1. rewrite L0 in C2. inv C2.
              assert (X : forall l : list (option Z), nth_error (set_nth p1 (Some (t1 + lease)) l) p1 = Some (Some e) -> e = t1 + lease).
              { clear. induction p1 as [|p IH]; intros [|x l] X; simpl in X; try discriminate.
                - now inv X. - eauto. }
              rewrite (X _ B). exists E. split; [exact C3|exact C4].
           ++ assert (X : forall (l : list (option Z)) v, nth_error (set_nth p v l) p0 = nth_error l p0).
              { clear - NP. revert p0 NP. induction p as [|p IH]; intros [|p0] NP [|x l] v; simpl; try reflexivity; try congruence.
                apply IH. congruence. }
              rewrite X in B. apply (I2 i0 s p0 e EN B).
      * rewrite nth_upd_other in A by assumption. apply (I2 i0 s0 p0 e A B).
    + intros i0 E A. destruct (Nat.eq_dec i i0) as [->|N].
      * rewrite pending_del_same in A. discriminate.
      * rewrite pending_del_other in A by assumption.
        destruct (I3 i0 E A) as (s0 & p0 & t0 & B1 & B2 & B3 & B4). exists s0, p0, t0.
        rewrite nth_upd_other by assumption. repeat split; assumption.
  - (* time *)
    destruct (y_now y <=? t) eqn:ET; [|discriminate]. apply Z.leb_le in ET.
    destruct (advance_all c t (y_insts y)) as [l'|] eqn:EA; [|discriminate]. inv H.
    destruct (advance_all_spec c t _ _ EA) as [LL F].
    ysplit.
    + intros i s H. destruct (F i s H) as (s0 & o0 & A & B).
      destruct (time_step_frame c s0 t s o0 B) as (_ & T2 & T3 & _). split; [exact T2|].
      intros p t0 L. apply T3 in L. pose proof (proj2 (I1 i s0 A) p t0 L). lia.
    + intros i s H. destruct (F i s H) as (s0 & o0 & A & B). eapply notstarted_step; [apply (I0 i s0 A)|exact B].
    + intros i s p e A B. destruct (F i s A) as (s0 & o0 & A0 & B0).
      destruct (time_step_frame c s0 t s o0 B0) as (_ & _ & _ & T4 & _). rewrite T4 in B.
      destruct (I2 i s0 p e A0 B) as (E & E1 & E2). exists E. split; [exact E1|].
      destruct E2 as [E2|E2]; [now left|right; lia].
    + intros i E A. destruct (I3 i E A) as (s0 & p0 & t0 & B1 & B2 & B3 & B4).
      assert (X : exists s1, nth_error l' i = Some s1).
      { destruct (nth_error l' i) eqn:Y; [eauto|]. apply nth_error_None in Y. rewrite LL in Y.
        assert (i < length (y_insts y))%nat by (apply nth_error_Some; congruence). lia. }
      destruct X as (s1 & X). destruct (F i s1 X) as (s2 & o2 & A2 & B2').
      rewrite B1 in A2. inv A2. destruct (time_step_frame c s2 t s1 o2 B2') as (_ & _ & T3 & _).
      exists s1, p0, t0. repeat split; try assumption; [apply T3; exact B2|].
      destruct B4 as [B4|B4]; [now left|right; lia].
Qed.

Lemma yinv_init c cfgs : YInv (yinit c cfgs).
Proof.
  ysplit.
  - intros i s H. apply nth_error_In in H. apply in_map_iff in H. destruct H as (x & <- & _). split; [reflexivity|].
    intros p t L. discriminate.
  - intros i s H. apply nth_error_In in H. apply in_map_iff in H. destruct H as (x & <- & _). intros _. reflexivity.
  - intros i s p e A B. apply nth_error_In in A. apply in_map_iff in A. destruct A as (x & <- & _).
    simpl in B. destruct p; discriminate.
  - intros i E A. discriminate.
Qed.

Theorem yinv_run c : forall ls y y', YInv y -> yrun c y ls = Some y' -> YInv y'.
Proof.
  induction ls as [|l ls IH]; intros y y' HI H; simpl in H; [now inv H|].
  destruct (ystep c y l) as [y1|] eqn:E; [|discriminate]. eapply IH; [eapply yinv_step; eauto|exact H].
Qed.

(* no partition is counted by two instances at once (while both counts are still running) *)
Theorem exclusive c cfgs ls y i j si sj p ei ej :
  yrun c (yinit c cfgs) ls = Some y -> i <> j ->
  nth_error (y_insts y) i = Some si -> nth_error (y_insts y) j = Some sj ->
  nth_error (s_parts si) p = Some (Some ei) -> nth_error (s_parts sj) p = Some (Some ej) ->
  y_now y < ei -> y_now y < ej -> False.
Proof.
  intros R N Ai Aj Bi Bj Ti Tj.
  pose proof (yinv_run c ls _ _ (yinv_init c cfgs) R) as (_ & _ & I2 & _).
  destruct (I2 i si p ei Ai Bi) as (Ei & E1 & [X|X]); [|lia].
  destruct (I2 j sj p ej Aj Bj) as (Ej & E2 & [Y|Y]); [|lia].
  rewrite X in Y. inv Y. congruence.
Qed.

(* ------------------------------------------------------------------ C09: progress facts *)

(* from the top of the loop a lease request is enabled whenever fewer partitions are counted
   than wanted and some partition is not counted: no fault can take this away *)
Lemma lease_enabled c s p since :
  s_loop s = STop since -> held s < s_target s -> nth_error (s_parts s) p = Some None ->
  exists s', sstep c s (SILease p) = Some (s', [SOLmLease p]) /\ s_loop s' = SCalling p (s_now s).
Proof.
  intros L H N. simpl. unfold do_lease. rewrite L. apply Z.ltb_lt in H. rewrite H, N. simpl.
  eexists. split; reflexivity.
Qed.

(* whatever the outcome of a lease call (grant, refusal, error, a call slower than the lease),
   the loop is back at the top afterwards *)
Lemma lease_call_always_returns_to_top c s lt s' o :
  sstep c s (SILeaseRet lt) = Some (s', o) -> exists since, s_loop s' = STop since.
Proof.
  intro H. destruct (lease_ret_frame c s lt s' o H) as (_ & p & t & L).
  destruct (lease_ret_expiry c s lt s' o p t L H) as (X & _). exact X.
Qed.

Lemma lease_return_enabled c s p t lt :
  s_loop s = SCalling p t -> exists s' o, sstep c s (SILeaseRet lt) = Some (s', o).
Proof.
  intro L. simpl. unfold do_lease_ret. rewrite L.
  destruct (lt <=? 0); [eauto|]. destruct (remaining lt t (s_now s) <=? 0); [eauto|].
  destruct (sc_gen c); eauto.
Qed.

(* a refusal or error leaves the partition table, the capacity figure and the timers alone *)
Lemma failed_lease_changes_nothing c s s' o :
  sstep c s (SILeaseRet 0) = Some (s', o) ->
  s_parts s' = s_parts s /\ s_capacity s' = s_capacity s /\ s_timers s' = s_timers s /\ s_target s' = s_target s /\ o = [].
Proof.
  simpl. unfold do_lease_ret. intro H. destruct (s_loop s); try discriminate. simpl in H. some_inv H.
  simpl. repeat split; reflexivity.
Qed.

(* the store grants a partition as soon as the previous lease on it has run out: a dead
   holder frees its partitions by itself, one lease duration after its last grant *)
Lemma store_grants_when_free c y i s p t :
  nth_error (y_insts y) i = Some s -> pending_get (y_pending y) i = None -> s_loop s = SCalling p t ->
  (forall h e, store_get (y_store y) p = Some (h, e) -> e <= y_now y) ->
  exists y', ystep c y (YDecide i) = Some y' /\ pending_get (y_pending y') i = Some (Some (y_now y + lease))
             /\ store_get (y_store y') p = Some (i, y_now y + lease).
Proof.
  intros EN EP L F. cbn [ystep]. rewrite EN, EP. unfold calling. rewrite L.
  destruct (store_get (y_store y) p) as [[h e]|] eqn:ES.
  - specialize (F h e eq_refl). apply Z.leb_le in F. rewrite F. eexists. split; [reflexivity|].
    simpl. rewrite !Nat.eqb_refl. split; reflexivity.
  - eexists. split; [reflexivity|]. simpl. rewrite !Nat.eqb_refl. split; reflexivity.
Qed.

Lemma store_refuses_while_leased c y i s p t h e :
  nth_error (y_insts y) i = Some s -> pending_get (y_pending y) i = None -> s_loop s = SCalling p t ->
  store_get (y_store y) p = Some (h, e) -> y_now y < e ->
  exists y', ystep c y (YDecide i) = Some y' /\ pending_get (y_pending y') i = Some None
             /\ y_store y' = y_store y.
Proof.
  intros EN EP L ES T. cbn [ystep]. rewrite EN, EP. unfold calling. rewrite L, ES.
  apply Z.leb_gt in T. rewrite T. eexists. split; [reflexivity|]. simpl. rewrite Nat.eqb_refl. split; reflexivity.
Qed.
