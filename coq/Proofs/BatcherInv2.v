(* Proofs/BatcherInv2.v — further invariants of the Batcher model: bounded buffer (C15),
   slot bound (C10), single shutdown (C16), per-cycle accounting (C02). *)
From Coq Require Import List ZArith Bool Lia Permutation.
From RecordUpdate Require Import RecordUpdate.
From GB Require Import Model.Allowance Model.Batcher Proofs.Tactics Proofs.C01Inv Proofs.BatcherLocal.
Import ListNotations.
Open Scope Z_scope.

(* ------------------------------------------------------------------ C15: bounded buffer *)

Definition Bounded (c : cfg) (s : state) : Prop :=
  (length (buffer s) <= c_bufcap c)%nat
  /\ (c_gen c = V1 -> waiting s <> [] -> shut s = false -> length (buffer s) = c_bufcap c).

Lemma bounded_step c s l s' o :
  (0 < c_bufcap c)%nat -> Bounded c s -> step c s l = Some (s', o) -> Bounded c s'.
Proof.
  intros Hcap [HB HW] H.
  destruct l; simpl in H; unfold_step H.
  all: try (cases_in H; try some_inv H; unfold Bounded; simpl;
            (split; [assumption | first [assumption | intros; congruence | intros; apply HW; try reflexivity; assumption]]); fail).
  - (* insert *)
    cases_in H; some_inv H; unfold Bounded; simpl; rewrite ?app_length; simpl;
      repeat match goal with
             | E : (_ <? _)%nat = true |- _ => apply Nat.ltb_lt in E
             | E : (_ <? _)%nat = false |- _ => apply Nat.ltb_ge in E
             end;
      (split; [lia | intros G W S; try congruence; try (first [specialize (HW G W S) | specialize (HW G W eq_refl)]); try lia]).
  - (* retry *)
    cases_in H; some_inv H; unfold Bounded; simpl; rewrite ?app_length; simpl;
      repeat match goal with
             | E : (_ <? _)%nat = true |- _ => apply Nat.ltb_lt in E
             | E : (_ <? _)%nat = false |- _ => apply Nat.ltb_ge in E
             end;
      (split; [lia | intros G W S; try congruence; try (first [specialize (HW G W S) | specialize (HW G W eq_refl)]); try lia]).
  - (* shutdown *)
    cases_in H; some_inv H; unfold Bounded; simpl; split; try assumption; try lia; intros; congruence.
  - (* visit *)
    apply visit_cases in H.
    destruct H as [_ [[H _]|[(_ & i & _ & H & _)|[(G2 & i & o0 & s1 & _ & HN & _ & HR & HT)|(G1 & o0 & rest & HBuf & _ & HT)]]]].
    + subst. split; assumption.
    + subst. split; assumption.
    + apply take_op_frame in HT. destruct HT as (_ & T2 & _ & _ & T5 & _ & _ & _ & _ & T10 & _).
      destruct (remove_at_frame s1 i) as (_ & R2 & _).
      assert (E : buffer s1 = buffer s).
      { destruct HR as [HR|HR]; [now subst|]. apply try_reserve_frame in HR. tauto. }
      unfold Bounded. rewrite T2, R2, E. rewrite (remove_nth_length _ _ _ HN) in HB.
      split; [lia|intros; congruence].
    + destruct HT as [[HWt HT]|(x & r & ev' & HWt & _ & HT)]; apply take_op_frame in HT; simpl in HT;
        destruct HT as (_ & T2 & _ & _ & T5 & _ & _ & _ & _ & T10 & _); unfold Bounded; rewrite T2, T5, T10.
      * rewrite HBuf in HB. simpl in HB. split; [lia|]. simpl. intros. congruence.
      * rewrite HBuf in *. simpl in *. rewrite app_length. simpl.
        split; [lia|]. intros G W S. assert (X : x :: r <> []) by discriminate.
        rewrite HWt in HW. specialize (HW G X S). lia.
Qed.

Lemma bounded_init c : Bounded c (init c).
Proof. split; simpl; [lia|congruence]. Qed.

Theorem bounded_reachable c s : (0 < c_bufcap c)%nat -> reachable c s -> Bounded c s.
Proof.
  intro Hc. apply reachable_inv; [apply bounded_init|].
  intros s0 l s1 o _ HI HS. eapply bounded_step; eauto.
Qed.

(* ------------------------------------------------------------------ C10: slot bound *)

Definition TokBound (c : cfg) (s : state) : Prop :=
  (0 < c_maxconc c)%nat -> (tokens s <= c_maxconc c)%nat.

Lemma tokbound_step c s l s' o : TokBound c s -> step c s l = Some (s', o) -> TokBound c s'.
Proof.
  intros HB H.
  destruct l; simpl in H; unfold_step H.
  all: try (cases_in H; try some_inv H; unfold TokBound in *; simpl; intros; try (apply HB; assumption); lia).
  - (* visit *)
    apply visit_cases in H.
    destruct H as [_ [[H _]|[(_ & i & _ & H & _)|[(G2 & i & o0 & s1 & _ & HN & _ & HR & HT)|(G1 & o0 & rest & HBuf & _ & HT)]]]].
    + subst. exact HB.
    + subst. exact HB.
    + apply take_op_frame2 in HT. destruct HT as (_ & _ & T3 & _).
      destruct (remove_at_frame2 s1 i) as (_ & _ & R3 & _).
      unfold TokBound. rewrite T3, R3. intro P. specialize (HB P).
      destruct HR as [HR|HR]; [now subst|].
      unfold try_reserve in HR. cases_in HR; some_inv HR; simpl; try assumption.
      apply Nat.ltb_lt in Heqb0. lia.
    + destruct HT as [[_ HT]|(x & r & ev' & _ & _ & HT)]; apply take_op_frame2 in HT;
        destruct HT as (_ & _ & T3 & _); unfold TokBound; rewrite T3; exact HB.
Qed.

Theorem tokbound_reachable c s : reachable c s -> TokBound c s.
Proof.
  apply reachable_inv; [intro; simpl; lia|].
  intros s0 l s1 o _ HI HS. eapply tokbound_step; eauto.
Qed.

(* ------------------------------------------------------------------ C16: life cycle *)

Definition exited (s : state) : bool := match loop s with LExited => true | _ => false end.

Definition LifeInv (s : state) : Prop :=
  (phase_ s = PUninit -> loop s = LNotStarted)
  /\ (loop s = LNotStarted -> phase_ s = PUninit \/ phase_ s = PStopped)
  /\ g_shutdowns s = (if exited s then 1 else 0)%nat
  /\ (exited s = true -> shut s = true /\ tickers_on s = false)
  /\ (loop s = LNotStarted -> tickers_on s = false).

Ltac life_close s :=
  unfold LifeInv, exited, loop_idle in *; simpl in *; bool_hyps;
  destruct (loop s) eqn:?; simpl in *; try congruence;
  repeat split; intros; try congruence; try tauto; try (intuition congruence).

Lemma life_step c s l s' o : LifeInv s -> step c s l = Some (s', o) -> LifeInv s'.
Proof.
  intros HI H. pose proof HI as (H1 & H2 & H3 & H4 & H5).
  destruct l; simpl in H; unfold_step H.
  all: try (cases_in H; try some_inv H; try exact HI; life_close s; fail).
  - (* visit *)
    apply visit_cases in H.
    assert (F : loop s' = LCycle \/ loop s' = LCycleEnd -> phase_ s' = phase_ s -> g_shutdowns s' = g_shutdowns s ->
                shut s' = shut s -> tickers_on s' = tickers_on s -> loop s = LCycle -> LifeInv s').
    { intros L P G S T EL. unfold LifeInv, exited in *. rewrite P, G, S, T. rewrite EL in *.
      destruct L as [L|L]; rewrite L; repeat split; intros; try tauto; try congruence; try (intuition congruence). }
    destruct H as [EL [[H _]|[(_ & i & _ & H & _)|[(G2 & i & o0 & s1 & _ & HN & _ & HR & HT)|(G1 & o0 & rest & HBuf & _ & HT)]]]].
    + subst. apply F; auto.
    + subst. apply F; auto.
    + pose proof HT as HT2. apply take_op_frame in HT. apply take_op_frame2 in HT2.
      destruct HT as (_ & _ & _ & T4 & _ & _ & _ & _ & _ & T10 & T11 & _).
      destruct HT2 as (_ & _ & _ & _ & _ & _ & _ & _ & _ & _ & _ & T12 & _ & _ & _ & T16 & _).
      destruct (remove_at_frame s1 i) as (_ & _ & _ & R4 & _ & _ & _ & _ & _ & R10 & R11 & _).
      destruct (remove_at_frame2 s1 i) as (_ & _ & _ & _ & _ & _ & _ & _ & _ & _ & _ & R12 & _ & _ & R15 & _).
      assert (E : loop s1 = loop s /\ shut s1 = shut s /\ phase_ s1 = phase_ s /\ tickers_on s1 = tickers_on s
                  /\ g_shutdowns s1 = g_shutdowns s).
      { destruct HR as [HR|HR]; [subst; tauto|]. pose proof HR as HR2.
        apply try_reserve_frame in HR. apply try_reserve_frame2 in HR2. tauto. }
      destruct E as (E1 & E2 & E3 & E4 & E5).
      apply F; try congruence. left. congruence.
    + destruct HT as [[_ HT]|(x & r & ev' & _ & _ & HT)]; pose proof HT as HT2;
        apply take_op_frame in HT; apply take_op_frame2 in HT2; simpl in *;
        destruct HT as (_ & _ & _ & T4 & _ & _ & _ & _ & _ & T10 & T11 & _);
        destruct HT2 as (_ & _ & _ & _ & _ & _ & _ & _ & _ & _ & _ & T12 & _ & _ & _ & T16 & _);
        apply F; try congruence; left; congruence.
Qed.

Lemma life_init c : LifeInv (init c).
Proof. unfold LifeInv, exited. simpl. repeat split; intros; try tauto; try congruence. Qed.

Theorem life_reachable c s : reachable c s -> LifeInv s.
Proof.
  apply reachable_inv; [apply life_init|].
  intros s0 l s1 o _ HI HS. eapply life_step; eauto.
Qed.
