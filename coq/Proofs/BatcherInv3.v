(* Proofs/BatcherInv3.v — invariants for C02 (cycles are counted), C05 (batch shape) and the
   per-cycle accounting of consumed cost. *)
From Coq Require Import List ZArith Bool Lia Permutation.
From RecordUpdate Require Import RecordUpdate.
From GB Require Import Model.Allowance Model.Batcher Proofs.Tactics Proofs.C01Inv Proofs.BatcherLocal
  Proofs.BatcherLocal2.
Import ListNotations.
Open Scope Z_scope.

Definition b2n (b : bool) : nat := if b then 1%nat else 0%nat.

(* ------------------------------------------------------------------ C02: cycles are counted *)

(* every cycle consumed one flush request; every request came from a Flush() call or from a
   flush tick handled by the loop; every handled tick was delivered by the ticker *)
Definition CyclesInv (s : state) : Prop :=
  (g_cycles s + b2n (flush_tok s) <= g_flush_ticks s + g_flush_calls s)%nat
  /\ (g_flush_ticks s + b2n (t_pending (tk_flush s)) <= g_flush_fired s)%nat.

Lemma cycles_step c s l s' o : CyclesInv s -> step c s l = Some (s', o) -> CyclesInv s'.
Proof.
  intros [H1 H2] H.
  destruct l; simpl in H; unfold_step H.
  all: try (cases_in H; try some_inv H; unfold CyclesInv, b2n in *; simpl in *; bool_hyps;
            repeat match goal with
                   | E : ?x = true |- _ => rewrite E in *
                   | E : ?x = false |- _ => rewrite E in *
                   end; simpl in *;
            (split; [try lia; destruct (flush_tok s); lia | try lia; destruct (t_pending (tk_flush s)); lia]); fail).
  - (* visit *)
    apply visit_cases in H.
    destruct H as [_ [[H _]|[(_ & i & _ & H & _)|[(_ & i & o0 & s1 & _ & _ & _ & HR & HT)|(_ & o0 & rest & _ & _ & HT)]]]].
    + subst. split; assumption.
    + subst. split; assumption.
    + apply take_op_frame2 in HT.
      destruct HT as (_ & _ & _ & _ & _ & _ & _ & T8 & T9 & _ & _ & _ & _ & _ & _ & _ & _ & _ & T19 & T20 & T21 & T22 & _).
      destruct (remove_at_frame2 s1 i) as (_ & _ & _ & _ & _ & _ & _ & R8 & R9 & _ & _ & _ & _ & _ & _ & _ & _ & R18 & R19 & R20 & R21 & _).
      assert (E : flush_tok s1 = flush_tok s /\ tk_flush s1 = tk_flush s /\ g_cycles s1 = g_cycles s
                  /\ g_flush_ticks s1 = g_flush_ticks s /\ g_flush_calls s1 = g_flush_calls s
                  /\ g_flush_fired s1 = g_flush_fired s).
      { destruct HR as [HR|HR]; [subst; tauto|]. apply try_reserve_frame2 in HR. tauto. }
      destruct E as (E1 & E2 & E3 & E4 & E5 & E6).
      unfold CyclesInv. rewrite T8, T9, T19, T20, T21, T22, R8, R9, R18, R19, R20, R21, E1, E2, E3, E4, E5, E6.
      split; assumption.
    + destruct HT as [[_ HT]|(x & r & ev' & _ & _ & HT)]; apply take_op_frame2 in HT; simpl in HT;
        destruct HT as (_ & _ & _ & _ & _ & _ & _ & T8 & T9 & _ & _ & _ & _ & _ & _ & _ & _ & _ & T19 & T20 & T21 & T22 & _);
        unfold CyclesInv; rewrite T8, T9, T19, T20, T21, T22; split; assumption.
Qed.

Theorem cycles_reachable c s : reachable c s -> CyclesInv s.
Proof.
  apply reachable_inv; [split; simpl; lia|].
  intros s0 l s1 o _ HI HS. eapply cycles_step; eauto.
Qed.

(* ------------------------------------------------------------------ C02: consumed = cost taken *)

Definition guard (c : cfg) (consumed allow : Z) : Prop :=
  match c_gen c with V2 => consumed < allow | V1 => consumed <= allow end.

(* cy_consumed is the (wrapping) sum of the costs taken in the current cycle, and the most
   recently taken operation was taken while the guard held *)
Definition TakenInv (c : cfg) (s : state) : Prop :=
  cy_consumed s = (sum_cost (g_taken s)) mod u32
  /\ (c_limiter c = true ->
      match g_taken s with [] => True | o :: r => guard c ((sum_cost r) mod u32) (cy_allow s) end).

Lemma taken_step c s l s' o : TakenInv c s -> step c s l = Some (s', o) -> TakenInv c s'.
Proof.
  intros HI H. pose proof HI as [H1 H2].
  destruct l; simpl in H; unfold_step H.
  all: try (cases_in H; try some_inv H; try exact HI; unfold TakenInv in *; simpl in *;
            (split; [try assumption; try reflexivity | try assumption; intros; auto]); fail).
  - (* visit *)
    pose proof H as HV. apply visit_cases in H.
    destruct H as [_ [[H _]|[(_ & i & _ & H & _)|[(G2 & i & o0 & s1 & _ & _ & HG & HR & HT)|(G1 & o0 & rest & _ & HG & HT)]]]].
    + subst. exact HI.
    + subst. exact HI.
    + assert (TG : g_taken s' = o0 :: g_taken s).
      { apply take_op_frame2 in HT. destruct HT as (_ & _ & _ & _ & _ & _ & _ & _ & _ & _ & _ & _ & _ & _ & _ & _ & _ & _ & _ & _ & _ & _ & _ & _ & T).
        rewrite T. destruct (remove_at_frame2 s1 i) as (_ & _ & _ & _ & _ & _ & _ & _ & _ & _ & _ & _ & _ & _ & _ & _ & _ & _ & _ & _ & _ & _ & _ & RT & _).
        rewrite RT. f_equal. destruct HR as [HR|HR]; [now subst|]. apply try_reserve_frame2 in HR. tauto. }
      pose proof HT as HT2. apply take_op_frame2 in HT2.
      destruct HT2 as (_ & _ & _ & _ & _ & _ & _ & _ & _ & _ & _ & _ & _ & TA & _ & _ & _ & _ & _ & _ & _ & _ & _ & TC & _).
      destruct (remove_at_frame2 s1 i) as (_ & _ & _ & _ & _ & _ & _ & _ & _ & _ & _ & _ & RA & _ & _ & _ & _ & _ & _ & _ & _ & _ & RC & _).
      assert (E : cy_allow s1 = cy_allow s /\ cy_consumed s1 = cy_consumed s).
      { destruct HR as [HR|HR]; [subst; tauto|]. apply try_reserve_frame2 in HR. tauto. }
      destruct E as (EA & EC).
      unfold TakenInv. rewrite TG, TC, TA, RC, RA, EC, EA. split.
      * simpl. rewrite H1. rewrite Zplus_mod_idemp_l. f_equal. lia.
      * intro L. pose proof (visit_take_guard _ _ _ _ _ HV TG L) as VG. unfold guard. rewrite <- H1.
        rewrite G2 in *. exact VG.
    + assert (X : exists st ev', take_op c st o0 = (s', ev') /\ cy_consumed st = cy_consumed s
                    /\ cy_allow st = cy_allow s /\ g_taken st = g_taken s).
      { destruct HT as [[_ HT]|(x & r & ev' & _ & _ & HT)]; eexists; eexists; (split; [exact HT|]); simpl; tauto. }
      destruct X as (st & ev' & HT' & XC & XA & XT).
      apply take_op_frame2 in HT'.
      destruct HT' as (_ & _ & _ & _ & _ & _ & _ & _ & _ & _ & _ & _ & _ & TA & _ & _ & _ & _ & _ & _ & _ & _ & _ & TC & TG).
      rewrite XT in TG.
      unfold TakenInv. rewrite TG, TC, TA, XC, XA. split.
      * simpl. rewrite H1. rewrite Zplus_mod_idemp_l. f_equal. lia.
      * intro L. pose proof (visit_take_guard _ _ _ _ _ HV TG L) as VG. unfold guard. rewrite <- H1.
        rewrite G1 in *. exact VG.
Qed.

Theorem taken_reachable c s : reachable c s -> TakenInv c s.
Proof.
  apply reachable_inv; [split; simpl; [reflexivity|intros; exact I]|].
  intros s0 l s1 o _ HI HS. eapply taken_step; eauto.
Qed.

(* the bound of the property: a cycle releases less than (V1: at most) allowance + cost of
   the last operation, when the sums do not wrap *)
Lemma cycle_bound c s o r :
  TakenInv c s -> c_limiter c = true -> g_taken s = o :: r -> 0 <= sum_cost r < u32 ->
  match c_gen c with
  | V2 => sum_cost (o :: r) < cy_allow s + o_cost o
  | V1 => sum_cost (o :: r) <= cy_allow s + o_cost o
  end.
Proof.
  intros [_ H2] L T B. specialize (H2 L). rewrite T in H2. unfold guard in H2.
  rewrite Z.mod_small in H2 by lia. simpl. destruct (c_gen c); lia.
Qed.

(* V2: with a zero allowance nothing is released *)
Lemma zero_allowance_v2 c s :
  TakenInv c s -> c_gen c = V2 -> c_limiter c = true -> cy_allow s = 0 ->
  Forall (fun o => 0 <= o_cost o) (g_taken s) -> g_taken s = [].
Proof.
  intros [_ H2] G L A F. specialize (H2 L). destruct (g_taken s) as [|o r]; [reflexivity|].
  unfold guard in H2. rewrite G, A in H2.
  pose proof (Z.mod_pos_bound (sum_cost r) u32 ltac:(unfold u32; lia)). lia.
Qed.

(* ------------------------------------------------------------------ C05: batch shape *)

Definition shape_ok (c : cfg) (p : nat * list op) : Prop :=
  let mb := w_maxbatch (watcher c (fst p)) in
  ((0 < mb)%nat -> (length (snd p) <= mb)%nat)
  /\ (existsb (fun o => negb (o_batchable o)) (snd p) = true -> length (snd p) = 1%nat).

Definition ShapeInv (c : cfg) (s : state) : Prop :=
  (forall w, let mb := w_maxbatch (watcher c w) in
             forallb o_batchable (get_open (cy_open s) w) = true
             /\ ((0 < mb)%nat -> (length (get_open (cy_open s) w) < mb)%nat))
  /\ Forall (shape_ok c) (g_raised s).

Lemma forallb_batchable_existsb l :
  forallb o_batchable l = true -> existsb (fun o => negb (o_batchable o)) l = false.
Proof.
  induction l as [|o l IH]; simpl; intro H; [reflexivity|]. apply andb_prop in H. destruct H as [A B].
  rewrite A. simpl. auto.
Qed.

Lemma take_op_shape c s o s' ev : take_op c s o = (s', ev) -> ShapeInv c s -> ShapeInv c s'.
Proof.
  unfold take_op. intros H [S1 S2].
  destruct (o_batchable o) eqn:EB.
  - match type of H with (if ?b then _ else _) = _ => destruct b eqn:EF end.
    + unfold raise in H. inv H. split; simpl.
      * intro w. rewrite get_set_open. destruct (Nat.eqb (o_w o) w); [split; [reflexivity|intros; simpl; lia]|apply S1].
      * constructor; [|exact S2]. unfold shape_ok. simpl. destruct (S1 (o_w o)) as [A B]. split.
        -- intro P. rewrite app_length. simpl. specialize (B P). lia.
        -- intro X. exfalso. rewrite forallb_batchable_existsb in X; [discriminate|].
           rewrite forallb_app. rewrite A. simpl. now rewrite EB.
    + inv H. split; simpl; [|exact S2]. intro w. rewrite get_set_open.
      destruct (Nat.eqb (o_w o) w) eqn:EW; [|apply S1].
      apply Nat.eqb_eq in EW. subst w. destruct (S1 (o_w o)) as [A B]. split.
      * rewrite forallb_app. rewrite A. simpl. now rewrite EB.
      * intro P. rewrite app_length in *. simpl in *.
        apply andb_false_iff in EF. destruct EF as [EF|EF].
        -- apply Nat.ltb_ge in EF. lia.
        -- apply Nat.leb_gt in EF. exact EF.
  - unfold raise in H. inv H. split; simpl; [exact S1|].
    constructor; [|exact S2]. unfold shape_ok. simpl. split; intros; lia.
Qed.

Lemma shape_step c s l s' o : ShapeInv c s -> step c s l = Some (s', o) -> ShapeInv c s'.
Proof.
  intros HI H. pose proof HI as [S1 S2].
  destruct l; simpl in H; unfold_step H.
  all: try (cases_in H; try some_inv H; try exact HI; (split; simpl; [try exact S1|try exact S2]);
            try (intro w; split; [reflexivity|intros; simpl; lia]); fail).
  - (* visit *)
    apply visit_cases in H.
    destruct H as [_ [[H _]|[(_ & i & _ & H & _)|[(_ & i & o0 & s1 & _ & _ & _ & HR & HT)|(_ & o0 & rest & _ & _ & HT)]]]].
    + subst. exact HI.
    + subst. exact HI.
    + eapply take_op_shape; [exact HT|].
      destruct (remove_at_frame s1 i) as (_ & _ & _ & _ & R5 & R6 & _).
      assert (E : cy_open s1 = cy_open s /\ g_raised s1 = g_raised s).
      { destruct HR as [HR|HR]; [subst; tauto|]. apply try_reserve_frame in HR. tauto. }
      destruct E as (E1 & E2). unfold ShapeInv. rewrite R5, R6, E1, E2. exact HI.
    + destruct HT as [[_ HT]|(x & r & ev' & _ & _ & HT)]; (eapply take_op_shape; [exact HT|]); exact HI.
  - (* cycle raise *)
    destruct (loop s); try discriminate.
    destruct (get_open (cy_open s) w) as [|o1 l1] eqn:EG; [discriminate|].
    unfold raise in H. some_inv H. split; simpl.
    + intro w'. rewrite get_set_open. destruct (Nat.eqb w w'); [split; [reflexivity|intros; simpl; lia]|apply S1].
    + constructor; [|exact S2]. unfold shape_ok. simpl. destruct (S1 w) as [A B]. rewrite EG in A, B. split.
      * intro P. specialize (B P). simpl in *. lia.
      * intro X. change (existsb (fun o : op => negb (o_batchable o)) (o1 :: l1) = true) in X.
        rewrite forallb_batchable_existsb in X; [discriminate|exact A].
Qed.

Theorem shape_reachable c s : reachable c s -> ShapeInv c s.
Proof.
  apply reachable_inv.
  - split; simpl; [intro w; split; [reflexivity|intros; lia]|constructor].
  - intros s0 l s1 o _ HI HS. eapply shape_step; eauto.
Qed.
