(* Proofs/LeaseProofs.v — C18: properties of the lease-manager model, for every outcome of every
   storage call, every partition count and every position of a fault. *)
From Coq Require Import List ZArith Bool Lia.
From GB Require Import Model.Batcher Model.Lease Proofs.Tactics.
Import ListNotations.
Open Scope Z_scope.

Lemma lease_iff_acquired index r :
  (fst (lm_lease index r) = lease_ns <-> r = EOk) /\
  (r <> EOk -> fst (lm_lease index r) = 0) /\
  (r = ELeaseAlreadyPresent -> snd (lm_lease index r) = [LFailed index]) /\
  (r <> EOk -> r <> ELeaseAlreadyPresent -> snd (lm_lease index r) = [LError]) /\
  (r = EOk -> snd (lm_lease index r) = []).
Proof.
  unfold lease_ns. destruct r; simpl; repeat split; intros; try congruence; try discriminate; try reflexivity.
Qed.

Lemma provision_classes r :
  (fst (lm_provision r) = true <-> (r = EOk \/ r = EContainerAlreadyExists)) /\
  (r = EOk -> snd (lm_provision r) = [LCreatedContainer]) /\
  (r = EContainerAlreadyExists -> snd (lm_provision r) = [LVerifiedContainer]) /\
  (fst (lm_provision r) = false -> snd (lm_provision r) = []).
Proof.
  destruct r; simpl; repeat split; intros; try tauto; try congruence; try discriminate;
    try (destruct H; discriminate).
Qed.

(* the blobs attempted are i, i+1, ... in order; V2 attempts all n and never fails;
   V1 stops at the first upload that is neither created nor verified and returns that error *)
Lemma create_attempts g results : forall n i ok att ev,
  lm_create_from g results i n = (ok, att, ev) ->
  exists k, (k <= n)%nat /\ att = seq i k
            /\ (ok = true -> k = n)
            /\ (g = V2 -> ok = true)
            /\ (ok = false -> (0 < k)%nat /\ classify_upload (results (i + k - 1)%nat) = UFailed).
Proof.
  induction n as [|n IH]; intros i ok att ev H; simpl in H.
  - inv H. exists 0%nat. repeat split; try reflexivity; try lia; intros; discriminate.
  - assert (Step : forall ok1 att1 ev1 e0, lm_create_from g results (S i) n = (ok1, att1, ev1) ->
                     ok = ok1 -> att = i :: att1 -> ev = e0 :: ev1 ->
                     exists k, (k <= S n)%nat /\ att = seq i k /\ (ok = true -> k = S n) /\ (g = V2 -> ok = true)
                       /\ (ok = false -> (0 < k)%nat /\ classify_upload (results (i + k - 1)%nat) = UFailed)).
    { intros ok1 att1 ev1 e0 E -> -> ->. destruct (IH _ _ _ _ E) as (k & K1 & K2 & K3 & K4 & K5).
      exists (S k). subst att1. split; [lia|]. split; [reflexivity|]. split; [intro X; f_equal; auto|].
      split; [exact K4|]. intro X. destruct (K5 X) as (A & B). split; [lia|].
      replace (i + S k - 1)%nat with (S i + k - 1)%nat by lia. exact B. }
    destruct (classify_upload (results i)) eqn:C.
    + destruct (lm_create_from g results (S i) n) as [[ok1 att1] ev1] eqn:E. inv H. eapply Step; eauto.
    + destruct (lm_create_from g results (S i) n) as [[ok1 att1] ev1] eqn:E. inv H. eapply Step; eauto.
    + destruct g.
      * inv H. exists 1%nat. split; [lia|]. split; [reflexivity|]. split; [intro; discriminate|].
        split; [intro; discriminate|]. intros _. split; [lia|]. replace (i + 1 - 1)%nat with i by lia. exact C.
      * destruct (lm_create_from V2 results (S i) n) as [[ok1 att1] ev1] eqn:E. inv H. eapply Step; eauto.
Qed.

(* the k-th event is determined by the outcome of the k-th upload alone *)
Definition event_of (i : nat) (r : ecode) : levent :=
  match classify_upload r with
  | UCreated => LCreatedBlob i
  | UVerified => LVerifiedBlob i
  | UFailed => LError
  end.

Lemma create_events g results : forall n i ok att ev,
  lm_create_from g results i n = (ok, att, ev) ->
  forall k e, nth_error ev k = Some e -> e = event_of (i + k) (results (i + k)%nat).
Proof.
  induction n as [|n IH]; intros i ok att ev H k e N; simpl in H.
  - inv H. destruct k; discriminate.
  - unfold event_of in *. destruct (classify_upload (results i)) eqn:C.
    + destruct (lm_create_from g results (S i) n) as [[ok1 att1] ev1] eqn:E. inv H.
      destruct k as [|k]; simpl in N.
      * inv N. replace (i + 0)%nat with i by lia. now rewrite C.
      * replace (i + S k)%nat with (S i + k)%nat by lia. eapply IH; eauto.
    + destruct (lm_create_from g results (S i) n) as [[ok1 att1] ev1] eqn:E. inv H.
      destruct k as [|k]; simpl in N.
      * inv N. replace (i + 0)%nat with i by lia. now rewrite C.
      * replace (i + S k)%nat with (S i + k)%nat by lia. eapply IH; eauto.
    + destruct g.
      * inv H. destruct k; discriminate.
      * destruct (lm_create_from V2 results (S i) n) as [[ok1 att1] ev1] eqn:E. inv H.
        destruct k as [|k]; simpl in N.
        -- inv N. replace (i + 0)%nat with i by lia. now rewrite C.
        -- replace (i + S k)%nat with (S i + k)%nat by lia. eapply IH; eauto.
Qed.

(* V1 raises no event for the failing blob and none after it; V2 raises one event per blob *)
Lemma create_event_count g results : forall n i ok att ev,
  lm_create_from g results i n = (ok, att, ev) ->
  length ev = (if ok then length att else (length att - 1)%nat).
Proof.
  induction n as [|n IH]; intros i ok att ev H; simpl in H.
  - inv H. reflexivity.
  - assert (Step : forall ok1 att1 ev1 e0, lm_create_from g results (S i) n = (ok1, att1, ev1) ->
                     ok = ok1 -> att = i :: att1 -> ev = e0 :: ev1 ->
                     length ev = (if ok then length att else (length att - 1)%nat)).
    { intros ok1 att1 ev1 e0 E -> -> ->. simpl. rewrite (IH _ _ _ _ E). destruct ok1; [reflexivity|].
      destruct (create_attempts _ _ _ _ _ _ _ E) as (k & _ & A & _ & _ & B). destruct (B eq_refl) as (B1 & _).
      subst att1. rewrite seq_length. lia. }
    destruct (classify_upload (results i)) eqn:C.
    + destruct (lm_create_from g results (S i) n) as [[ok1 att1] ev1] eqn:E. inv H. eapply Step; eauto.
    + destruct (lm_create_from g results (S i) n) as [[ok1 att1] ev1] eqn:E. inv H. eapply Step; eauto.
    + destruct g.
      * inv H. reflexivity.
      * destruct (lm_create_from V2 results (S i) n) as [[ok1 att1] ev1] eqn:E. inv H. eapply Step; eauto.
Qed.

(* only blob-already-exists and lease-id-missing (blob leased) count as "verified" *)
Lemma upload_classes r :
  (classify_upload r = UCreated <-> r = EOk) /\
  (classify_upload r = UVerified <-> (r = EBlobAlreadyExists \/ r = ELeaseIdMissing)).
Proof.
  destruct r; simpl; split; split; intros; try tauto; try congruence; try discriminate;
    try (destruct H; discriminate).
Qed.
