(* Proofs/TokenInv.v — Inflight() is the number of batches in progress (C10, C19).

   V2 with a limit on concurrent batches: the slot count (len(inflight), what Inflight() returns)
   equals the number of raised batches that are not finished plus the number of batches under
   construction in the current cycle, and no batch goroutine is stuck on the slot channel —
   in every execution in which no audit reset a non-zero figure (ok_step, Proofs/TargetInv.v).
   Without a limit, and in V1, the count stays zero. *)
From Coq Require Import List ZArith Bool Lia Permutation.
From RecordUpdate Require Import RecordUpdate.
From GB Require Import Model.Allowance Model.Batcher Proofs.Tactics Proofs.C01Inv Proofs.TargetInv.
Import ListNotations.

Definition nonempty {A} (l : list A) : bool := match l with [] => false | _ => true end.
Definition b2n (b : bool) : nat := if b then 1%nat else 0%nat.

Definition nund (l : list batch) : nat := length (filter (fun b => negb (b_done b)) l).
Definition nopen (o : list (nat * list op)) : nat := length (filter (fun p => nonempty (snd p)) o).

Definition in_progress (s : state) : nat := (nund (batches s) + nopen (cy_open s))%nat.

Definition TokInv (c : cfg) (s : state) : Prop :=
  match c_gen c, c_maxconc c with
  | V2, S _ => leaked s = 0%nat /\ tokens s = in_progress s
  | _, _ => leaked s = 0%nat /\ tokens s = 0%nat
  end.

(* the audit leaves the slot count alone: it is zero when the audit resets it *)
Definition ok_step_tok (c : cfg) (s : state) (l : label) : Prop :=
  match l with
  | ILoopAuditConfirm => c_gen c = V2 -> tokens s = 0%nat
  | _ => True
  end.

Lemma nopen_set_open : forall o w l,
  (nopen (set_open o w l) + b2n (nonempty (get_open o w)) = nopen o + b2n (nonempty l))%nat.
Proof.
  induction o as [|[k l0] o IH]; intros w l; simpl.
  - unfold nopen. simpl. destruct (nonempty l); simpl; lia.
  - destruct (Nat.eqb k w) eqn:E; unfold nopen in *; simpl.
    + destruct (nonempty l), (nonempty l0); simpl; lia.
    + specialize (IH w l). destruct (nonempty l0); simpl; lia.
Qed.

Lemma nopen_open_ops o : flat_map snd o = [] -> nopen o = 0%nat.
Proof.
  induction o as [|[k l] o IH]; simpl; intro H; [reflexivity|].
  apply app_eq_nil in H. destruct H as [H1 H2]. subst l. unfold nopen in *. simpl. auto.
Qed.

Lemma nund_app l1 l2 : nund (l1 ++ l2) = (nund l1 + nund l2)%nat.
Proof. unfold nund. now rewrite filter_app, app_length. Qed.

Lemma nund_update : forall l id b b',
  find_batch id l = Some b -> b_id b' = id -> b_done b' = b_done b -> nund (update_batch b' l) = nund l.
Proof.
  induction l as [|a l IH]; intros id b b' F I D; [reflexivity|].
  simpl in F. rewrite update_batch_unfold, I.
  destruct (Nat.eqb (b_id a) id) eqn:E.
  - inv F. unfold nund. simpl. rewrite D. destruct (negb (b_done b)); reflexivity.
  - pose proof (IH id b b' F I D) as IH'. unfold nund in *. simpl.
    destruct (negb (b_done a)); simpl; rewrite IH'; reflexivity.
Qed.

Lemma nund_returned : forall l id b b',
  find_batch id l = Some b -> b_id b' = id -> b_done b' = b_done b -> nund (settle_batch b' l) = nund l.
Proof.
  intros l id b b' F I D. unfold settle_batch. destruct (b_done b' && b_returned b') eqn:E.
  - apply andb_prop in E. destruct E as [E _]. rewrite D in E. rewrite I.
    revert F. induction l as [|a l IH]; intro F; [reflexivity|].
    simpl in F. simpl drop_batch.
    destruct (Nat.eqb (b_id a) id) eqn:E1.
    + inv F. unfold nund. simpl. rewrite E. reflexivity.
    + specialize (IH F). unfold nund in *. simpl. destruct (negb (b_done a)); simpl; now rewrite IH.
  - eapply nund_update; eauto.
Qed.

Lemma nund_done : forall l id b b',
  find_batch id l = Some b -> b_done b = false -> b_id b' = id -> b_done b' = true ->
  nund l = S (nund (settle_batch b' l)).
Proof.
  intros l id b b' F D I D'. unfold settle_batch. rewrite D', I. simpl andb.
  revert F. induction l as [|a l IH]; intro F; [discriminate|].
  simpl in F. simpl drop_batch. rewrite update_batch_unfold, I.
  destruct (Nat.eqb (b_id a) id) eqn:E.
  - inv F. unfold nund. simpl. rewrite D. simpl.
    destruct (b_returned b'); simpl; [reflexivity|]. rewrite D'. reflexivity.
  - specialize (IH F). unfold nund in *.
    destruct (b_returned b'); simpl; destruct (negb (b_done a)); simpl; lia.
Qed.

Definition needs_slot (s : state) (o : op) : bool :=
  if o_batchable o then negb (nonempty (get_open (cy_open s) (o_w o))) else true.

Lemma raise_counts c s w ops s' ev :
  raise c s w ops = (s', ev) ->
  tokens s' = tokens s /\ leaked s' = leaked s /\ cy_open s' = cy_open s
  /\ nund (batches s') = S (nund (batches s)).
Proof.
  unfold raise. intro H. inv H. simpl. repeat (split; [reflexivity|]).
  rewrite nund_app. unfold nund at 2. simpl. lia.
Qed.

Lemma take_op_counts c s o s' ev :
  take_op c s o = (s', ev) ->
  tokens s' = tokens s /\ leaked s' = leaked s
  /\ in_progress s' = (in_progress s + b2n (needs_slot s o))%nat.
Proof.
  unfold take_op, in_progress, needs_slot. intro H.
  destruct (o_batchable o).
  - match type of H with (if ?b then _ else _) = _ => destruct b end.
    + apply raise_counts in H. simpl in H. destruct H as (H1 & H2 & H3 & H4).
      rewrite H1, H2, H3, H4. repeat (split; [reflexivity|]).
      pose proof (nopen_set_open (cy_open s) (o_w o) []) as P. simpl in P.
      destruct (nonempty (get_open (cy_open s) (o_w o))); simpl in *; lia.
    + inv H. simpl. repeat (split; [reflexivity|]).
      pose proof (nopen_set_open (cy_open s) (o_w o) (get_open (cy_open s) (o_w o) ++ [o])) as P.
      assert (N : nonempty (get_open (cy_open s) (o_w o) ++ [o]) = true) by (destruct (get_open (cy_open s) (o_w o)); reflexivity).
      rewrite N in P. destruct (nonempty (get_open (cy_open s) (o_w o))); simpl in *; lia.
  - apply raise_counts in H. simpl in H. destruct H as (H1 & H2 & H3 & H4).
    rewrite H1, H2, H3, H4. repeat (split; [reflexivity|]). simpl. lia.
Qed.

Lemma remove_at_counts s i :
  tokens (remove_at s i) = tokens s /\ leaked (remove_at s i) = leaked s
  /\ batches (remove_at s i) = batches s /\ cy_open (remove_at s i) = cy_open s.
Proof. unfold remove_at, signal_one. simpl. destruct (waiting s); simpl; repeat split; reflexivity. Qed.

Ltac tok_same s :=
  match goal with HI : TokInv _ s |- _ =>
    unfold TokInv, in_progress in *; simpl in *;
    repeat match goal with |- context [match ?g with V1 => _ | V2 => _ end] => destruct g end;
    repeat match goal with |- context [match ?n with O => _ | S _ => _ end] => destruct n end;
    try exact HI; try (destruct HI; split; assumption)
  end.

Lemma tokinv_step c s l s' o :
  Conserved s -> TokInv c s -> ok_step_tok c s l -> step c s l = Some (s', o) -> TokInv c s'.
Proof.
  intros (_ & HC & _) HI OK H.
  destruct l; simpl in H; unfold_step H.
  all: try (cases_in H; try some_inv H; tok_same s; fail).
  - (* audit confirm *)
    simpl in OK. destruct (loop s); try discriminate. some_inv H.
    unfold TokInv, in_progress in *. simpl.
    destruct (c_gen c); [exact HI|]. specialize (OK eq_refl).
    destruct (c_maxconc c); [split; [exact (proj1 HI)|reflexivity]|].
    destruct HI as [H1 H2]. split; [exact H1|]. rewrite <- H2. symmetry. exact OK.
  - (* cycle begin *)
    assert (EO : nopen (cy_open s) = 0%nat).
    { apply nopen_open_ops. apply HC. unfold in_cycle, loop_idle in *.
      destruct (loop s); try reflexivity; simpl in H; discriminate. }
    cases_in H; some_inv H; unfold TokInv, in_progress in *; simpl;
      destruct (c_gen c); try exact HI; destruct (c_maxconc c); try exact HI;
      unfold nopen at 1; simpl; rewrite EO in HI; exact HI.
  - (* visit *)
    unfold do_cycle_visit in H. destruct (loop s) eqn:EL; try discriminate.
    destruct (c_gen c) eqn:EG.
    + unfold visit_v1 in H.
      destruct (c_limiter c && (cy_allow s <? cy_consumed s))%Z.
      { some_inv H. unfold TokInv in *. rewrite EG in *. exact HI. }
      destruct (buffer s) as [|o0 rest] eqn:EB.
      { some_inv H. unfold TokInv in *. rewrite EG in *. exact HI. }
      destruct (waiting s) as [|x r] eqn:EW.
      * destruct (take_op c (s <| buffer := rest |>) o0) as [s2 ev] eqn:ET. some_inv H.
        apply take_op_counts in ET. destruct ET as (T1 & T2 & _).
        unfold TokInv in *. rewrite EG in *. rewrite T1, T2. exact HI.
      * destruct (take_op c (s <| buffer := rest ++ [x] |> <| waiting := r |>
                               <| g_inserted := x :: g_inserted s |>) o0) as [s2 ev] eqn:ET.
        some_inv H. apply take_op_counts in ET. destruct ET as (T1 & T2 & _).
        unfold TokInv in *. rewrite EG in *. rewrite T1, T2. exact HI.
    + unfold visit_v2 in H.
      destruct (cy_cur s) as [i|] eqn:EC.
      2:{ some_inv H. unfold TokInv in *. rewrite EG in *. exact HI. }
      destruct (nth_error (buffer s) i) as [o0|] eqn:EN.
      2:{ some_inv H. unfold TokInv in *. rewrite EG in *. exact HI. }
      destruct (c_limiter c && (cy_allow s <=? cy_consumed s))%Z.
      { some_inv H. unfold TokInv in *. rewrite EG in *. exact HI. }
      match type of H with match ?r with _ => _ end = _ => destruct r as [s1|] eqn:ER end.
      2:{ some_inv H. unfold TokInv in *. rewrite EG in *. exact HI. }
      destruct (take_op c (remove_at s1 i) o0) as [s2 ev] eqn:ET. some_inv H.
      apply take_op_counts in ET. destruct ET as (T1 & T2 & T3).
      destruct (remove_at_counts s1 i) as (R1 & R2 & R3 & R4).
      unfold TokInv in *. rewrite EG in *. rewrite T1, T2, T3, R1, R2.
      unfold in_progress, needs_slot in *. rewrite R3, R4.
      assert (NS : (if o_batchable o0 then negb (nonempty (get_open (cy_open s) (o_w o0))) else true)
                   = (if o_batchable o0 then match get_open (cy_open s) (o_w o0) with [] => true | _ => false end else true)).
      { destruct (o_batchable o0); [|reflexivity]. destruct (get_open (cy_open s) (o_w o0)); reflexivity. }
      destruct (c_maxconc c) eqn:EM.
      * (* no limit: try_reserve changes nothing *)
        assert (s1 = s).
        { revert ER. unfold try_reserve. rewrite EM. simpl.
          destruct (o_batchable o0); [destruct (get_open (cy_open s) (o_w o0))|]; intro X; inv X; reflexivity. }
        subst s1. exact HI.
      * destruct HI as [L0 TK].
        revert ER. unfold try_reserve. rewrite EM, L0. simpl.
        destruct (o_batchable o0) eqn:EBt.
        -- destruct (get_open (cy_open s) (o_w o0)) eqn:EGo; intro ER.
           ++ destruct (tokens s <? S n)%nat; [|discriminate]. inv ER. simpl. split; [exact L0|].
              rewrite EGo. simpl. lia.
           ++ inv ER. split; [exact L0|]. rewrite EGo. simpl. lia.
        -- intro ER. destruct (tokens s <? S n)%nat; [|discriminate]. inv ER. simpl. split; [exact L0|]. lia.
  - (* cycle raise *)
    destruct (loop s) eqn:EL; try discriminate.
    destruct (get_open (cy_open s) w) as [|o1 l1] eqn:EG; [discriminate|].
    destruct (raise c (s <| cy_open := set_open (cy_open s) w [] |>) w (o1 :: l1)) as [s2 ev] eqn:ER.
    some_inv H. apply raise_counts in ER. simpl in ER. destruct ER as (T1 & T2 & T3 & T4).
    unfold TokInv, in_progress in *. rewrite T1, T2, T3, T4.
    pose proof (nopen_set_open (cy_open s) w []) as P. rewrite EG in P. simpl in P.
    destruct (c_gen c); [exact HI|]. destruct (c_maxconc c); [exact HI|].
    destruct HI as [L0 TK]. split; [exact L0|]. lia.
  - (* cycle end *)
    destruct (loop s) eqn:EL; try discriminate.
    destruct (open_empty (cy_open s)) eqn:EO; [|discriminate].
    some_inv H. unfold TokInv, in_progress in *. simpl.
    rewrite (nopen_open_ops _ (open_empty_nil _ EO)) in HI.
    destruct (c_gen c); [exact HI|]. destruct (c_maxconc c); [exact HI|]. unfold nopen at 1. simpl. exact HI.
  - (* batch start *)
    destruct (find_batch b (batches s)) as [b0|] eqn:EF; [|discriminate].
    destruct (nth_error (b_ops b0) (b_bumped b0)); [|discriminate]. some_inv H.
    unfold TokInv, in_progress in *. simpl.
    erewrite nund_update; [exact HI|exact EF|exact (proj2 (find_batch_in _ _ _ EF))|reflexivity].
  - (* callback enter *)
    destruct (find_batch b (batches s)) as [b0|] eqn:EF; [|discriminate].
    destruct (b_started b0 && negb (b_entered b0)); [|discriminate]. some_inv H.
    unfold TokInv, in_progress in *. simpl.
    erewrite nund_update; [exact HI|exact EF|exact (proj2 (find_batch_in _ _ _ EF))|reflexivity].
  - (* callback return *)
    destruct (find_batch b (batches s)) as [b0|] eqn:EF; [|discriminate].
    destruct (b_entered b0 && negb (b_returned b0) && (b_ret_at b0 =? now s))%Z; [|discriminate]. some_inv H.
    unfold TokInv, in_progress in *. simpl.
    erewrite nund_returned; [exact HI|exact EF|exact (proj2 (find_batch_in _ _ _ EF))|reflexivity].
  - (* batch done *)
    destruct (find_batch b (batches s)) as [b0|] eqn:EF; [|discriminate].
    destruct (b_started b0 && negb (b_done b0) && (b_returned b0 || (b_deadline b0 <=? now s))%Z) eqn:EG; [|discriminate].
    bool_hyps.
    assert (PD : nund (batches s) = S (nund (settle_batch (b0 <| b_done := true |>) (batches s)))).
    { eapply nund_done; [exact EF|assumption|exact (proj2 (find_batch_in _ _ _ EF))|reflexivity]. }
    unfold TokInv, in_progress in *.
    destruct (c_gen c) eqn:EGen.
    + some_inv H. simpl. exact HI.
    + destruct (c_maxconc c) eqn:EM; simpl in H.
      * some_inv H. simpl. exact HI.
      * destruct HI as [L0 TK]. destruct (tokens s) eqn:ETk; [lia|]. some_inv H. simpl. split; [exact L0|]. lia.
Qed.

Lemma tokinv_init c : TokInv c (init c).
Proof. unfold TokInv, in_progress. simpl. destruct (c_gen c); [split; reflexivity|]. destruct (c_maxconc c); split; reflexivity. Qed.

(* executions in which every audit found both figures zero *)
Inductive creach2 (c : cfg) : state -> Prop :=
| cr2_init : creach2 c (init c)
| cr2_step s l s' o : creach2 c s -> ok_step c s l -> ok_step_tok c s l -> step c s l = Some (s', o) -> creach2 c s'.

Lemma creach2_creach c s : creach2 c s -> creach c s.
Proof. induction 1; [constructor|econstructor; eauto]. Qed.

Theorem tokinv_creach2 c s : creach2 c s -> TokInv c s.
Proof.
  induction 1 as [|s l s' o R IH OK1 OK2 E]; [apply tokinv_init|].
  eapply tokinv_step; eauto. apply (conserved_reachable c). apply creach_reachable. now apply creach2_creach.
Qed.

(* the slot count only needs the audit to have left the slot count alone *)
Inductive treach (c : cfg) : state -> Prop :=
| tr_init : treach c (init c)
| tr_step s l s' o : treach c s -> ok_step_tok c s l -> step c s l = Some (s', o) -> treach c s'.

Lemma treach_reachable c s : treach c s -> reachable c s.
Proof. induction 1 as [|s l s' o _ IH _ E]; [exists [], []; reflexivity|]. eapply reachable_step; eauto. Qed.

Theorem tokinv_treach c s : treach c s -> TokInv c s.
Proof.
  induction 1 as [|s l s' o R IH OK E]; [apply tokinv_init|].
  eapply tokinv_step; eauto. apply (conserved_reachable c). now apply treach_reachable.
Qed.

Theorem inflight_exact c s n :
  treach c s -> c_gen c = V2 -> c_maxconc c = S n -> inflight s = in_progress s /\ leaked s = 0%nat.
Proof.
  intros R G M. pose proof (tokinv_treach c s R) as T. unfold TokInv in T. rewrite G, M in T.
  unfold inflight. tauto.
Qed.
