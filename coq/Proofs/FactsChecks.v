(* Proofs/FactsChecks.v — computations over the facts regenerated from the Go sources
   (Gen/Facts.v, written by tools/facts on every run): lock discipline of the event API and of
   the public methods.  The domain is the finite generated table, so a check by computation is a
   proof about exactly what the translator extracted (the translator is in the trusted base). *)
From Coq Require Import List String Ascii Bool ZArith.
From GB Require Import Gen.Facts.
Import ListNotations.
Open Scope string_scope.

Definition fgen_eqb (a b : fgen) : bool := match a, b with FV1, FV1 | FV2, FV2 => true | _, _ => false end.

Definition has_held (f : fact) (l : string) : bool := existsb (String.eqb l) (f_held f).

(* the type a function belongs to: "Type.method" -> "Type" *)
Fixpoint before_dot (s : string) : string :=
  match s with
  | EmptyString => EmptyString
  | String c r => if Ascii.eqb c "."%char then EmptyString else String c (before_dot r)
  end.

Fixpoint after_last_dot_aux (s acc : string) : string :=
  match s with
  | EmptyString => acc
  | String c r => if Ascii.eqb c "."%char then after_last_dot_aux r EmptyString else after_last_dot_aux r (acc ++ String c EmptyString)
  end.
Definition after_last_dot (s : string) : string := after_last_dot_aux s EmptyString.

(* listeners are invoked while the read lock is held, in both generations *)
Definition emit_under_rlock (g : fgen) (fn : string) : bool :=
  existsb (fun f => fgen_eqb (f_gen f) g && String.eqb (f_fn f) fn && String.eqb (f_action f) "listener"
                    && has_held f "listenerMutex:R") facts.

(* AddListener / RemoveListener change the map under the write lock *)
Definition mutates_under_wlock (g : fgen) (fn target : string) : bool :=
  existsb (fun f => fgen_eqb (f_gen f) g && String.eqb (f_fn f) fn && String.eqb (f_target f) target
                    && has_held f "listenerMutex:W") facts.

(* no lock is held across a blocking wait, except the condition variable's own lock and v1's
   AzureSharedResource.Stop (whose loop never takes the phase mutex) *)
Definition wait_allowed (f : fact) : bool :=
  (String.eqb (f_fn f) "buffer.enqueue" && String.eqb (f_target f) "b.notFull.Wait")
  || (String.eqb (f_fn f) "AzureSharedResource.Stop" && String.eqb (f_target f) "r.shutdown.Wait").

Definition no_hold_while_waiting : bool :=
  forallb (fun f => negb (String.eqb (f_action f) "wait") || wait_allowed f) facts.

(* nothing the translator could not classify *)
Definition no_unknown : bool := forallb (fun f => negb (String.eqb (f_action f) "unknown")) facts.

(* lock order: an edge A -> B when a function holding A calls a function (resolved by method name within
   the same generation) that acquires B; the relation must have no cycle, in particular no self-edge *)
Definition qual (f : fact) (l : string) : string := before_dot (f_fn f) ++ "/" ++ before_dot l.

(* split "r.buffer.shutdown" into its components *)
Fixpoint split_dots_aux (s acc : string) : list string :=
  match s with
  | EmptyString => [acc]
  | String c r => if Ascii.eqb c "."%char then acc :: split_dots_aux r EmptyString
                  else split_dots_aux r (acc ++ String c EmptyString)
  end.
Definition split_dots (s : string) : list string := split_dots_aux s EmptyString.

Definition has_fn (g : fgen) (ty m : string) : bool :=
  existsb (fun f => fgen_eqb (f_gen f) g && String.eqb (f_fn f) (ty ++ "." ++ m)) facts.

(* the locks a callee acquires; the callee is resolved syntactically:
   "r.m"    -> method m of the caller's own type, or of the embedded event API if it has none;
   "r.f.m"  -> method m of the type named like the field f (e.g. r.buffer.shutdown -> buffer.shutdown);
   anything else (packages, interfaces: lease manager, rate limiter, watcher) is external *)
Definition callee_types (g : fgen) (caller_ty : string) (target : string) : list (string * string) :=
  match split_dots target with
  | [_; m] => if has_fn g caller_ty m then [(caller_ty, m)]
              else [("eventer", m); ("EventerBase", m)]
  | [_; f; m] => [(f, m)]
  | _ => []
  end.

Definition acquires (g : fgen) (ty m : string) : list string :=
  flat_map (fun f => if fgen_eqb (f_gen f) g && String.eqb (f_fn f) (ty ++ "." ++ m)
                     then map (qual f) (f_held f) else []) facts.

Definition edges : list (string * string) :=
  flat_map (fun f =>
              if String.eqb (f_action f) "call" then
                flat_map (fun tm =>
                            flat_map (fun h => map (fun b => (qual f h, b)) (acquires (f_gen f) (fst tm) (snd tm))) (f_held f))
                         (callee_types (f_gen f) (before_dot (f_fn f)) (f_target f))
              else []) facts.

Fixpoint reach (fuel : nat) (from : string) (seen : list string) : list string :=
  match fuel with
  | O => seen
  | S n =>
      let next := flat_map (fun e => if String.eqb (fst e) from && negb (existsb (String.eqb (snd e)) seen)
                                     then [snd e] else []) edges in
      fold_left (fun acc x => reach n x (x :: acc)) next seen
  end.

(* embedded event API: "Batcher/listenerMutex" and "eventer/listenerMutex" are the same lock; an emit under
   another lock reaches only the listener lock, which is a leaf (listeners are user code) *)
Definition lock_order_acyclic : bool :=
  forallb (fun e => negb (existsb (String.eqb (fst e)) (reach 12 (snd e) [snd e]))) edges.

(* calc(): the count of the partition table and the store of the result both happen while the partition lock is
   held (read or write), so no writer can change the table between them: the model's atomic calc is faithful *)
Definition calc_store_locked (g : fgen) (fn : string) : bool :=
  existsb (fun f => fgen_eqb (f_gen f) g && String.eqb (f_fn f) fn && String.eqb (f_target f) "atomic.StoreUint32") facts
  && forallb (fun f => negb (fgen_eqb (f_gen f) g && String.eqb (f_fn f) fn && String.eqb (f_target f) "atomic.StoreUint32")
                       || has_held f "partlock:R" || has_held f "partlock:W") facts.

(* shared fields are only touched under their mutex: writes under the write lock, reads under the read or the
   write lock (the partition table under partlock, the listener map under listenerMutex, the phase under
   phaseMutex, the linked list of the v2 buffer under its lock) *)
Definition lock_of (field : string) : string :=
  if String.eqb field "partitions" then "partlock"
  else if String.eqb field "listeners" then "listenerMutex"
  else if String.eqb field "phase" then "phaseMutex"
  else "lock".

Definition access_guarded (f : fact) : bool :=
  if String.eqb (f_action f) "write" then has_held f (lock_of (f_target f) ++ ":W")
  else if String.eqb (f_action f) "read" then has_held f (lock_of (f_target f) ++ ":W") || has_held f (lock_of (f_target f) ++ ":R")
  else true.

Definition fields_guarded : bool := forallb access_guarded facts.

(* ... and the check is not vacuous: the translator does see such accesses *)
Definition field_accesses_seen : nat :=
  List.length (filter (fun f => String.eqb (f_action f) "write" || String.eqb (f_action f) "read") facts).
