(* Proofs/BatcherLocal.v — facts about single steps of the Batcher model (guards and
   effects of each label), used by the property files.  Each holds for every state, so
   in particular for every reachable one. *)
From Coq Require Import List ZArith Bool Lia Permutation.
From RecordUpdate Require Import RecordUpdate.
From GB Require Import Model.Allowance Model.Batcher Proofs.Tactics Proofs.C01Inv.
Import ListNotations.
Open Scope Z_scope.

(* ------------------------------------------------------------------ C14: admission *)

(* the decision table of Enqueue, in the order of the code *)
Lemma validate_spec c s e :
  validate c s e =
    if e_nil e then VReject RNoOp
    else match e_watcher e with
         | None => VReject RNoWatcher
         | Some w =>
             if c_limiter c && (maxcap_now s <? e_cost e) then VReject RTooExpensive
             else if (0 <? w_maxattempts (watcher c w))%nat
                     && (w_maxattempts (watcher c w) <=? get_attempt (attempts s) (e_obj e))%nat
                  then VReject RTooManyAttempts else VAccept w
         end.
Proof. reflexivity. Qed.

Lemma validate_accepts c s e w :
  e_nil e = false -> e_watcher e = Some w ->
  (c_limiter c = false \/ e_cost e <= maxcap_now s) ->
  (w_maxattempts (watcher c w) = 0%nat \/
   (get_attempt (attempts s) (e_obj e) < w_maxattempts (watcher c w))%nat) ->
  validate c s e = VAccept w.
Proof.
  intros H1 H2 H3 H4. unfold validate. rewrite H1, H2.
  assert (E1 : c_limiter c && (maxcap_now s <? e_cost e) = false).
  { destruct H3 as [H3|H3]; [now rewrite H3|]. apply andb_false_iff. right. apply Z.ltb_ge. exact H3. }
  rewrite E1.
  assert (E2 : (0 <? w_maxattempts (watcher c w))%nat
               && (w_maxattempts (watcher c w) <=? get_attempt (attempts s) (e_obj e))%nat = false).
  { destruct H4 as [H4|H4]; [rewrite H4; reflexivity|]. apply andb_false_iff. right.
    apply Nat.leb_gt. exact H4. }
  now rewrite E2.
Qed.

Lemma validate_too_expensive c s e w :
  e_nil e = false -> e_watcher e = Some w -> c_limiter c = true -> maxcap_now s < e_cost e ->
  validate c s e = VReject RTooExpensive.
Proof.
  intros H1 H2 H3 H4. unfold validate. rewrite H1, H2, H3.
  apply Z.ltb_lt in H4. now rewrite H4.
Qed.

Lemma validate_too_many c s e w :
  e_nil e = false -> e_watcher e = Some w ->
  (c_limiter c = false \/ e_cost e <= maxcap_now s) ->
  (0 < w_maxattempts (watcher c w))%nat ->
  (w_maxattempts (watcher c w) <= get_attempt (attempts s) (e_obj e))%nat ->
  validate c s e = VReject RTooManyAttempts.
Proof.
  intros H1 H2 H3 H4 H5. unfold validate. rewrite H1, H2.
  assert (E1 : c_limiter c && (maxcap_now s <? e_cost e) = false).
  { destruct H3 as [H3|H3]; [now rewrite H3|]. apply andb_false_iff. right. apply Z.ltb_ge. exact H3. }
  rewrite E1. apply Nat.ltb_lt in H4. apply Nat.leb_le in H5. now rewrite H4, H5.
Qed.

(* a rejected call changes neither the buffer nor the demand figure, nor anything else a
   later step can see: only the call counter and the ghost log of failed calls move *)
Lemma reject_no_side_effect c s e r s' o :
  validate c s e = VReject r -> step c s (AEnqueue e) = Some (s', o) ->
  o = [OEnqRet (next_call s) r] /\ buffer s' = buffer s /\ target s' = target s
  /\ counted s' = counted s /\ waiting s' = waiting s /\ woken s' = woken s
  /\ tokens s' = tokens s /\ batches s' = batches s /\ attempts s' = attempts s
  /\ loop s' = loop s /\ phase_ s' = phase_ s.
Proof.
  intros V H. simpl in H. unfold do_enqueue in H. rewrite V in H. some_inv H. simpl.
  repeat split; reflexivity.
Qed.

(* an accepted call adds exactly its cost to the demand figure and is on its way to the buffer *)
Lemma accept_counts c s e w s' o :
  validate c s e = VAccept w -> step c s (AEnqueue e) = Some (s', o) ->
  o = [] /\ target s' = target_add (target s) (e_cost e) /\ buffer s' = buffer s
  /\ exists op, counted s' = counted s ++ [(op, e_hold e)] /\ o_id op = next_call s
               /\ o_w op = w /\ o_cost op = e_cost e /\ o_obj op = e_obj e.
Proof.
  intros V H. simpl in H. unfold do_enqueue in H. rewrite V in H. some_inv H. simpl.
  repeat split; try reflexivity. eexists. repeat split; reflexivity.
Qed.

(* MakeAttempt: one step of a batch goroutine raises the counter of exactly one object by one *)
Lemma get_bump a obj obj' :
  get_attempt (bump_attempt a obj) obj' =
    if Nat.eqb obj obj' then S (get_attempt a obj') else get_attempt a obj'.
Proof.
  induction a as [|[k v] a IH]; simpl.
  - destruct (Nat.eqb obj obj') eqn:E; simpl; rewrite ?E; reflexivity.
  - destruct (Nat.eqb k obj) eqn:E1; simpl.
    + apply Nat.eqb_eq in E1. subst k. destruct (Nat.eqb obj obj'); reflexivity.
    + destruct (Nat.eqb k obj') eqn:E2.
      * destruct (Nat.eqb obj obj') eqn:E3; [|reflexivity].
        apply Nat.eqb_eq in E2, E3. subst. rewrite Nat.eqb_refl in E1. discriminate.
      * apply IH.
Qed.

Lemma batch_start_attempt s b s' o :
  step_notime (mkCfg V2 0 false false 0 0 0 0 0 0 [] 0 0 0 0) s (IBatchStart b) = Some (s', o) ->
  exists bt op, find_batch b (batches s) = Some bt /\ nth_error (b_ops bt) (b_bumped bt) = Some op
    /\ forall obj, get_attempt (attempts s') obj =
         if Nat.eqb (o_obj op) obj then S (get_attempt (attempts s) obj) else get_attempt (attempts s) obj.
Proof.
  simpl. unfold do_batch_start. intro H.
  destruct (find_batch b (batches s)) as [bt|] eqn:EF; [|discriminate].
  destruct (nth_error (b_ops bt) (b_bumped bt)) as [op|] eqn:EN; [|discriminate].
  some_inv H. exists bt, op. split; [reflexivity|]. split; [exact EN|]. intro obj. simpl. apply get_bump.
Qed.

(* what take_op / remove_at / try_reserve leave alone *)
Lemma take_op_frame2 c s o s' ev :
  take_op c s o = (s', ev) ->
  attempts s' = attempts s /\ target s' = target s /\ tokens s' = tokens s /\ leaked s' = leaked s
  /\ now s' = now s /\ stop_req s' = stop_req s /\ pause_tok s' = pause_tok s
  /\ flush_tok s' = flush_tok s /\ tk_flush s' = tk_flush s /\ tk_cap s' = tk_cap s
  /\ tk_audit s' = tk_audit s /\ tickers_on s' = tickers_on s /\ cy_cur s' = cy_cur s
  /\ cy_allow s' = cy_allow s /\ stoppers s' = stoppers s /\ g_shutdowns s' = g_shutdowns s
  /\ capacity_now s' = capacity_now s /\ maxcap_now s' = maxcap_now s
  /\ g_cycles s' = g_cycles s /\ g_flush_ticks s' = g_flush_ticks s
  /\ g_flush_calls s' = g_flush_calls s /\ g_flush_fired s' = g_flush_fired s
  /\ g_started s' = g_started s
  /\ cy_consumed s' = (cy_consumed s + o_cost o) mod u32 /\ g_taken s' = o :: g_taken s.
Proof.
  unfold take_op, raise. intro H.
  repeat match type of H with context [if ?b then _ else _] => destruct b end;
    inv H; simpl; repeat split; reflexivity.
Qed.

Lemma remove_at_frame2 s i :
  let s' := remove_at s i in
  attempts s' = attempts s /\ target s' = target s /\ tokens s' = tokens s /\ leaked s' = leaked s
  /\ now s' = now s /\ stop_req s' = stop_req s /\ pause_tok s' = pause_tok s
  /\ flush_tok s' = flush_tok s /\ tk_flush s' = tk_flush s /\ tk_cap s' = tk_cap s
  /\ tk_audit s' = tk_audit s /\ tickers_on s' = tickers_on s
  /\ cy_allow s' = cy_allow s /\ stoppers s' = stoppers s /\ g_shutdowns s' = g_shutdowns s
  /\ capacity_now s' = capacity_now s /\ maxcap_now s' = maxcap_now s
  /\ g_cycles s' = g_cycles s /\ g_flush_ticks s' = g_flush_ticks s
  /\ g_flush_calls s' = g_flush_calls s /\ g_flush_fired s' = g_flush_fired s
  /\ g_started s' = g_started s /\ cy_consumed s' = cy_consumed s /\ g_taken s' = g_taken s
  /\ batches s' = batches s /\ last_flush s' = last_flush s /\ next_bid s' = next_bid s.
Proof. unfold remove_at, signal_one. simpl. destruct (waiting s); simpl; repeat split; reflexivity. Qed.

Lemma try_reserve_frame2 c s s' :
  try_reserve c s = Some s' ->
  attempts s' = attempts s /\ target s' = target s
  /\ now s' = now s /\ stop_req s' = stop_req s /\ pause_tok s' = pause_tok s
  /\ flush_tok s' = flush_tok s /\ tk_flush s' = tk_flush s /\ tk_cap s' = tk_cap s
  /\ tk_audit s' = tk_audit s /\ tickers_on s' = tickers_on s
  /\ cy_allow s' = cy_allow s /\ stoppers s' = stoppers s /\ g_shutdowns s' = g_shutdowns s
  /\ capacity_now s' = capacity_now s /\ maxcap_now s' = maxcap_now s
  /\ g_cycles s' = g_cycles s /\ g_flush_ticks s' = g_flush_ticks s
  /\ g_flush_calls s' = g_flush_calls s /\ g_flush_fired s' = g_flush_fired s
  /\ g_started s' = g_started s /\ cy_consumed s' = cy_consumed s /\ g_taken s' = g_taken s
  /\ batches s' = batches s /\ last_flush s' = last_flush s /\ next_bid s' = next_bid s.
Proof. unfold try_reserve. intro H. cases_in H; some_inv H; simpl; repeat split; reflexivity. Qed.

(* the shape of a visit: either the cycle stops, or an operation is skipped, or the
   operation at the cursor / the head of the channel is taken by take_op *)
Inductive visit_kind := VStop | VSkip | VTake (o : op).

Lemma visit_cases c s s' ev :
  do_cycle_visit c s = Some (s', ev) ->
  loop s = LCycle /\
  ( (s' = s <| loop := LCycleEnd |> /\ ev = [])
    \/ (c_gen c = V2 /\ exists i, cy_cur s = Some i /\ s' = s <| cy_cur := next_cursor s (S i) |> /\ ev = []
        /\ try_reserve c s = None)
    \/ (c_gen c = V2 /\ exists i o s1, cy_cur s = Some i /\ nth_error (buffer s) i = Some o
        /\ (c_limiter c && (cy_allow s <=? cy_consumed s) = false)
        /\ (s1 = s \/ try_reserve c s = Some s1) /\ take_op c (remove_at s1 i) o = (s', ev))
    \/ (c_gen c = V1 /\ exists o rest, buffer s = o :: rest
        /\ (c_limiter c && (cy_allow s <? cy_consumed s) = false)
        /\ ((waiting s = [] /\ take_op c (s <| buffer := rest |>) o = (s', ev))
            \/ exists x r ev', waiting s = x :: r /\ ev = OEnqRet (o_id x) ROk :: ev'
                /\ take_op c (s <| buffer := rest ++ [x] |> <| waiting := r |>
                                <| g_inserted := x :: g_inserted s |>) o = (s', ev')))).
Proof.
  unfold do_cycle_visit. intro H. destruct (loop s) eqn:EL; try discriminate. split; [reflexivity|].
  destruct (c_gen c) eqn:EG.
  - unfold visit_v1 in H.
    destruct (c_limiter c && (cy_allow s <? cy_consumed s)) eqn:EC; [some_inv H; left; split; reflexivity|].
    destruct (buffer s) as [|o0 rest] eqn:EB; [some_inv H; left; split; reflexivity|].
    right. right. right. split; [reflexivity|]. exists o0, rest. split; [reflexivity|]. split; [reflexivity|].
    destruct (waiting s) as [|x r] eqn:EW.
    + destruct (take_op c (s <| buffer := rest |>) o0) as [s2 ev2] eqn:ET. some_inv H. left. split; reflexivity.
    + destruct (take_op c _ o0) as [s2 ev2] eqn:ET. some_inv H. right. exists x, r, ev2.
      repeat split; try reflexivity. exact ET.
  - unfold visit_v2 in H.
    destruct (cy_cur s) as [i|] eqn:EC; [|some_inv H; left; split; reflexivity].
    destruct (nth_error (buffer s) i) as [o0|] eqn:EN; [|some_inv H; left; split; reflexivity].
    destruct (c_limiter c && (cy_allow s <=? cy_consumed s)) eqn:EA; [some_inv H; left; split; reflexivity|].
    match type of H with match ?r with _ => _ end = _ => destruct r as [s1|] eqn:ER end.
    + right. right. left. split; [reflexivity|].
      destruct (take_op c (remove_at s1 i) o0) as [s2 ev2] eqn:ET. some_inv H.
      exists i, o0, s1. repeat split; try reflexivity; try assumption.
      revert ER. destruct (o_batchable o0); [destruct (get_open (cy_open s) (o_w o0))|]; intro ER;
        try (right; exact ER). left. now inv ER.
    + some_inv H. right. left. split; [reflexivity|]. exists i. repeat split; try reflexivity.
      revert ER. destruct (o_batchable o0); [destruct (get_open (cy_open s) (o_w o0))|]; intro ER;
        try exact ER. discriminate.
Qed.

(* only MakeAttempt steps change attempt counters *)
Lemma attempts_only_by_start c s l s' o :
  step c s l = Some (s', o) -> (forall b, l <> IBatchStart b) -> attempts s' = attempts s.
Proof.
  intros H N.
  destruct l; simpl in H; unfold_step H; try (exfalso; eapply N; reflexivity).
  all: try (cases_in H; try some_inv H; reflexivity).
  - (* visit *)
    apply visit_cases in H. destruct H as [_ [[H _]|[(_ & i & _ & H & _)|[(_ & i & o0 & s1 & _ & _ & _ & HR & HT)|(_ & o0 & rest & _ & _ & HT)]]]].
    + subst. reflexivity.
    + subst. reflexivity.
    + apply take_op_frame2 in HT. destruct HT as (A & _). rewrite A.
      destruct (remove_at_frame2 s1 i) as (B & _). rewrite B.
      destruct HR as [HR|HR]; [now subst|]. apply try_reserve_frame2 in HR. tauto.
    + destruct HT as [[_ HT]|(x & r & ev' & _ & _ & HT)]; apply take_op_frame2 in HT;
        destruct HT as (A & _); rewrite A; reflexivity.
Qed.

(* ------------------------------------------------------------------ C15: the buffer *)

Lemma remove_nth_length {A} : forall i (l : list A) x,
  nth_error l i = Some x -> length l = S (length (remove_nth i l)).
Proof.
  induction i as [|i IH]; intros [|y l] x H; simpl in *; try discriminate; [reflexivity|].
  f_equal. eapply IH; eauto.
Qed.
