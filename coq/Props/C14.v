(* Props/C14.v — C14: Enqueue admits exactly the valid operations; rejections have no side effects. *)
From Coq Require Import List ZArith Bool Lia Permutation.
From Coq Require String.
From RecordUpdate Require Import RecordUpdate.
From GB Require Import Model.Allowance Model.Batcher Proofs.Tactics Proofs.C01Inv Proofs.BatcherLocal
  Proofs.BatcherLocal2 Proofs.BatcherInv2 Proofs.BatcherInv3.
From GB Require Import Gen.Facts.
Import ListNotations.
Open Scope Z_scope.
(* the specific error, in the order of the code: no operation, no watcher, too expensive, too many attempts *)
Theorem C14_decision_table : forall c s e, validate c s e =
    if e_nil e then VReject RNoOp
    else match e_watcher e with
         | None => VReject RNoWatcher
         | Some w =>
             if c_limiter c && (maxcap_now s <? e_cost e) then VReject RTooExpensive
             else if (0 <? w_maxattempts (watcher c w))%nat
                     && (w_maxattempts (watcher c w) <=? get_attempt (attempts s) (e_obj e))%nat
                  then VReject RTooManyAttempts else VAccept w
         end.
Proof. exact validate_spec. Qed.
Print Assumptions C14_decision_table.

(* including cost = MaxCapacity() and any cost when no limiter is attached *)
Theorem C14_accepts_every_other_operation : forall c s e w, e_nil e = false -> e_watcher e = Some w ->
  (c_limiter c = false \/ e_cost e <= maxcap_now s) ->
  (w_maxattempts (watcher c w) = 0%nat \/ (get_attempt (attempts s) (e_obj e) < w_maxattempts (watcher c w))%nat) ->
  validate c s e = VAccept w.
Proof. exact validate_accepts. Qed.
Print Assumptions C14_accepts_every_other_operation.

Theorem C14_too_expensive : forall c s e w, e_nil e = false -> e_watcher e = Some w -> c_limiter c = true -> maxcap_now s < e_cost e ->
  validate c s e = VReject RTooExpensive.
Proof. exact validate_too_expensive. Qed.
Print Assumptions C14_too_expensive.

(* re-enqueueing after the MaxAttempts-th delivery is refused *)
Theorem C14_too_many_attempts : forall c s e w, e_nil e = false -> e_watcher e = Some w ->
  (c_limiter c = false \/ e_cost e <= maxcap_now s) -> (0 < w_maxattempts (watcher c w))%nat ->
  (w_maxattempts (watcher c w) <= get_attempt (attempts s) (e_obj e))%nat ->
  validate c s e = VReject RTooManyAttempts.
Proof. exact validate_too_many. Qed.
Print Assumptions C14_too_many_attempts.

Theorem C14_rejection_has_no_side_effect : forall c s e r s' o, validate c s e = VReject r -> step c s (AEnqueue e) = Some (s', o) ->
  o = [OEnqRet (next_call s) r] /\ buffer s' = buffer s /\ target s' = target s
  /\ counted s' = counted s /\ waiting s' = waiting s /\ woken s' = woken s
  /\ tokens s' = tokens s /\ batches s' = batches s /\ attempts s' = attempts s
  /\ loop s' = loop s /\ phase_ s' = phase_ s.
Proof. exact reject_no_side_effect. Qed.
Print Assumptions C14_rejection_has_no_side_effect.

(* MakeAttempt raises the counter of exactly one operation of the batch by exactly one (the step does not depend on the configuration) *)
Theorem C14_each_delivery_counts_one_attempt : forall s b s' o, step_notime (mkCfg V2 0 false false 0 0 0 0 0 0 [] 0 0 0 0) s (IBatchStart b) = Some (s', o) ->
  exists bt op, find_batch b (batches s) = Some bt /\ nth_error (b_ops bt) (b_bumped bt) = Some op
    /\ forall obj, get_attempt (attempts s') obj =
         if Nat.eqb (o_obj op) obj then S (get_attempt (attempts s) obj) else get_attempt (attempts s) obj.
Proof. exact batch_start_attempt. Qed.
Print Assumptions C14_each_delivery_counts_one_attempt.

Theorem C14_only_deliveries_change_attempts : forall c s l s' o, step c s l = Some (s', o) -> (forall b, l <> IBatchStart b) -> attempts s' = attempts s.
Proof. exact attempts_only_by_start. Qed.
Print Assumptions C14_only_deliveries_change_attempts.


(* the order of the validation tests in the source is the order of the model's decision table *)
Module Src.
Import String.
Theorem C14_source_order :
  V2_enqueue_errors = ["NoOperationError"; "NoWatcherError"; "TooExpensiveError"; "TooManyAttemptsError"]%string
  /\ V1_enqueue_errors = ["NoOperationError"; "NoWatcherError"; "TooExpensiveError"; "TooManyAttemptsError"; "BufferFullError"]%string.
Proof. split; reflexivity. Qed.
End Src.
