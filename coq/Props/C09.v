(* Props/C09.v — C09: needed capacity is acquired, dead peers' capacity reclaimed; faults only
   delay.  What is proved: every invariant of C04/C06/C07 holds along executions with any
   number of faults (faults are ordinary labels of the models, so the invariants' theorems
   already quantify over them); a lease call of any outcome brings the loop back to its top;
   from there a request is enabled whenever demand exceeds what is counted; a failed call
   changes nothing; the store grants as soon as the previous lease has run out, so a dead
   holder frees its partitions one lease duration after its last grant.  The numeric bound
   "one lease + partitions x (MaxInterval + latency)" involves the random sleeps of the loop,
   which the model abstracts (they are not observable); it is decided on recorded histories
   by the monitor (c09:not-acquired), DESIGN.md section 5. *)
From Coq Require Import List ZArith Bool Lia.
From RecordUpdate Require Import RecordUpdate.
From GB Require Import Model.Allowance Model.Batcher Model.Shared Model.Store Proofs.Tactics Proofs.SharedInv Proofs.StoreInv.
From GB Require Import Gen.Facts Model.Lease Proofs.LeaseProofs Proofs.PaceInv.
Import ListNotations.
Open Scope Z_scope.

Theorem C09_loop_survives_every_outcome : forall c s lt s' o,
  sstep c s (SILeaseRet lt) = Some (s', o) -> exists since, s_loop s' = STop since.
Proof. exact lease_call_always_returns_to_top. Qed.
Print Assumptions C09_loop_survives_every_outcome.

Theorem C09_every_call_can_return : forall c s p t lt,
  s_loop s = SCalling p t -> exists s' o, sstep c s (SILeaseRet lt) = Some (s', o).
Proof. exact lease_return_enabled. Qed.
Print Assumptions C09_every_call_can_return.

Theorem C09_request_enabled_while_short : forall c s p since,
  s_loop s = STop since -> held s < s_target s -> nth_error (s_parts s) p = Some None ->
  exists s', sstep c s (SILease p) = Some (s', [SOLmLease p]) /\ s_loop s' = SCalling p (s_now s).
Proof. exact lease_enabled. Qed.
Print Assumptions C09_request_enabled_while_short.

Theorem C09_failed_call_changes_nothing : forall c s s' o,
  sstep c s (SILeaseRet 0) = Some (s', o) ->
  s_parts s' = s_parts s /\ s_capacity s' = s_capacity s /\ s_timers s' = s_timers s /\ s_target s' = s_target s /\ o = [].
Proof. exact failed_lease_changes_nothing. Qed.
Print Assumptions C09_failed_call_changes_nothing.

Theorem C09_capacity_figure_never_corrupted : forall c r sh s, sreachable c r sh s ->
  (sc_gen c = V2 \/ s_recalcs s = 0%nat) -> not_creating s -> capacity s = s_reserved s + s_factor s * held s.
Proof.
  intros c r sh s R X NC. destruct (capinv_reachable c r sh s R) as [_ HC]. unfold capacity. rewrite (HC X NC). lia.
Qed.
Print Assumptions C09_capacity_figure_never_corrupted.

Theorem C09_store_grants_when_free : forall c y i s p t,
  nth_error (y_insts y) i = Some s -> pending_get (y_pending y) i = None -> s_loop s = SCalling p t ->
  (forall h e, store_get (y_store y) p = Some (h, e) -> e <= y_now y) ->
  exists y', ystep c y (YDecide i) = Some y' /\ pending_get (y_pending y') i = Some (Some (y_now y + lease))
             /\ store_get (y_store y') p = Some (i, y_now y + lease).
Proof. exact store_grants_when_free. Qed.
Print Assumptions C09_store_grants_when_free.

Theorem C09_invariants_hold_under_faults : forall c cfgs ls y,
  yrun c (yinit c cfgs) ls = Some y -> YInv y.
Proof. intros c cfgs ls y R. exact (yinv_run c ls _ _ (yinv_init c cfgs) R). Qed.
Print Assumptions C09_invariants_hold_under_faults.

(* the pace on which the property's bound rests ("partitions x (MaxInterval + lease-call latency)"): between two
   iterations the loop sleeps rand.Intn(MaxInterval) ms, so in every reachable state a loop that has something to do -
   fewer partitions counted than wanted and one it does not count (pollable), a stop request, a re-provisioning
   request - went to sleep at most MaxInterval - 1 ms ago, whatever the outcomes of the earlier calls were *)
Theorem C09_loop_acts_within_max_interval : forall c r sh s since,
  sreachable c r sh s -> s_loop s = STop since -> must_act s = true ->
  since <= s_now s <= since + (eff_maxint c - 1) * 1000000.
Proof. exact loop_acts_within_max_interval. Qed.
Print Assumptions C09_loop_acts_within_max_interval.

(* ... time cannot pass that deadline ... *)
Theorem C09_time_stops_at_the_deadline : forall c s t s' o since,
  s_loop s = STop since -> must_act s = true -> sstep c s (STime t) = Some (s', o) ->
  t <= since + (eff_maxint c - 1) * 1000000 /\ s_loop s' = STop since.
Proof. exact time_stops_at_the_deadline. Qed.
Print Assumptions C09_time_stops_at_the_deadline.

(* ... and what is enabled then is the next lease request *)
Theorem C09_due_poll_is_enabled : forall c s since,
  s_loop s = STop since -> pollable s = true ->
  exists p s', sstep c s (SILease p) = Some (s', [SOLmLease p]) /\ s_loop s' = SCalling p (s_now s).
Proof. exact due_poll_is_enabled. Qed.
Print Assumptions C09_due_poll_is_enabled.

(* the guard is not vacuous the other way round: with nothing due any amount of time may pass *)
Theorem C09_idle_loop_lets_time_pass : forall c s t since,
  s_loop s = STop since -> must_act s = false -> s_now s <= t -> expiries_ok c s t = true ->
  exists s', sstep c s (STime t) = Some (s', []) /\ s_loop s' = STop t.
Proof. exact idle_loop_lets_time_pass. Qed.
Print Assumptions C09_idle_loop_lets_time_pass.

(* non-vacuity of the pace theorems: demand at 0 with MaxInterval 100: 99 ms may pass, 100 ms may not; a refused
   call later the same holds again (no back-off) *)
Example C09_pace_nonvacuous :
  let c := mkSCfg V2 1 100 true in
  let pre := [SAStart true; SILoopProvision; SICreateRet; SAGiveMe 1] in
  (exists s o, srun c (sinit c 0 1) (pre ++ [STime 99000000]) = Some (s, o) /\ must_act s = true)
  /\ srun c (sinit c 0 1) (pre ++ [STime 100000000]) = None
  /\ (exists s o, srun c (sinit c 0 1) (pre ++ [STime 99000000; SILease 0; SILeaseRet 0; STime 198000000]) = Some (s, o))
  /\ srun c (sinit c 0 1) (pre ++ [STime 99000000; SILease 0; SILeaseRet 0; STime 198000001]) = None.
Proof. vm_compute. repeat split; eexists; eexists; repeat split. Qed.

(* the blob lease manager turns every failure of AcquireLease - the lease already held by a peer, any other service
   code, an error that is no service error at all - into an event and a zero lease time; only a success is a lease
   (Model/Lease.v, compared with the real managers of both generations over all SDK service codes on every run) *)
Theorem C09_lease_manager_errors_are_events_and_zero_lease_time : forall index r, r <> EOk ->
  fst (lm_lease index r) = 0 /\ (snd (lm_lease index r) = [LFailed index] \/ snd (lm_lease index r) = [LError]).
Proof.
  intros index r H. destruct (lease_iff_acquired index r) as (_ & Z0 & F & E & _). split; [exact (Z0 H)|].
  destruct r; try (left; reflexivity); try (right; reflexivity). congruence.
Qed.
Print Assumptions C09_lease_manager_errors_are_events_and_zero_lease_time.

Theorem C09_source_constants :
  V1_default_maxinterval = 500 /\ V2_default_maxinterval = 500 /\ V1_lease_seconds = lease_seconds /\ V2_lease_seconds = lease_seconds.
Proof. repeat split; reflexivity. Qed.

(* non-vacuity: a refusal, an error-like fault, then success; the peer that held the partition is gone *)
Definition ex_c : scfg := mkSCfg V1 1 0 true.
Example C09_nonvacuous :
  exists y, yrun ex_c (yinit ex_c [(0, 1); (0, 1)])
    [YInst 0 (SAProvision true true); YInst 1 (SAProvision true true); YInst 0 (SAStart true); YInst 1 (SAStart true);
     YInst 1 (SAGiveMe 1); YInst 1 (SILease 0); YDecide 1; YReturn 1;
     YTime 14700000000;
     YInst 0 (SAGiveMe 1); YInst 0 (SILease 0); YDecide 0; YReturn 0;
     YInst 0 (SILease 0); YFault 0; YReturn 0;
     YTime (15 * sec); YInst 1 (SIExpire 0);
     YInst 0 (SILease 0); YDecide 0; YReturn 0] = Some y
    /\ map (fun s => held s) (y_insts y) = [1; 0].
Proof. eexists. vm_compute. split; reflexivity. Qed.
