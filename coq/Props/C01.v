(* Props/C01.v — C01: every accepted operation is delivered exactly once, to its own watcher.

   Statements only; each is closed by a lemma of Proofs/C01Inv.v.  "reachable c s" means:
   s is the state after some finite sequence of labels from init — any workload, any
   interleaving of callers with the loop, ticks, Flush/Pause calls, capacity profile,
   slot limit and buffer size, in either generation (c_gen c).

   Reading guide.  g_inserted s = every Enqueue instance that went into the buffer (i.e.
   every accepted operation, one entry per successful call); g_raised s = every batch ever
   raised; g_started s = numbers of the batches whose callback was entered; g_failed s =
   numbers of the calls that returned an error; g_discarded s = what a V2 shutdown dropped. *)
From Coq Require Import List ZArith Bool Permutation.
From GB Require Import Model.Allowance Model.Batcher Proofs.Tactics Proofs.C01Inv.
Import ListNotations.

(* an accepted operation is at all times in the buffer, in a batch being assembled, in a
   raised batch, or (after shutdown) discarded — as multisets: nothing lost, nothing invented *)
Theorem C01_conservation : forall c s, reachable c s ->
  Permutation (g_inserted s) (buffer s ++ open_ops s ++ raised_ops s ++ g_discarded s).
Proof. intros c s R. exact (proj1 (conserved_reachable c s R)). Qed.
Print Assumptions C01_conservation.

(* ... and in exactly one of those places: instance numbers never repeat across them, so an
   operation is never in two raised batches and never both buffered and raised *)
Theorem C01_exactly_one_place : forall c s, reachable c s ->
  NoDup (ids (buffer s ++ open_ops s ++ raised_ops s ++ g_discarded s)).
Proof. exact places_nodup. Qed.
Print Assumptions C01_exactly_one_place.

(* never another Watcher's: every raised batch is non-empty and holds only operations of the
   watcher whose callback receives it *)
Theorem C01_own_watcher : forall c s, reachable c s -> Forall batch_ok (g_raised s).
Proof. intros c s R. exact (proj2 (watcher_reachable c s R)). Qed.
Print Assumptions C01_own_watcher.

(* never two: the callback of a raised batch is entered at most once *)
Theorem C01_callback_at_most_once : forall c s, reachable c s -> NoDup (g_started s).
Proof. intros c s R. destruct (batchinv_reachable c s R) as (_ & _ & N & _). exact N. Qed.
Print Assumptions C01_callback_at_most_once.

(* never none: whenever the system has settled (no goroutine can move without time passing)
   every batch that was raised and is still in progress has had its callback entered *)
Theorem C01_callback_at_least_once : forall c s b, reachable c s ->
  quiescent c s = true -> In b (batches s) -> b_entered b = true.
Proof.
  intros c s b R Q I. destruct (batchinv_reachable c s R) as (N & _).
  exact (quiescent_entered c s b Q I N).
Qed.
Print Assumptions C01_callback_at_least_once.

(* an Enqueue that returned an error never leads to a delivery (nor to a buffered entry) *)
Theorem C01_error_never_delivered : forall c s id, reachable c s -> In id (g_failed s) ->
  ~ In id (ids (buffer s ++ open_ops s ++ raised_ops s ++ g_discarded s)).
Proof. exact failed_never_placed. Qed.
Print Assumptions C01_error_never_delivered.

(* operations still buffered at shutdown are discarded: once the loop has exited no batch is
   raised any more, along any continuation *)
Theorem C01_nothing_after_shutdown : forall c s ls s' os, reachable c s -> loop s = LExited ->
  run c s ls = Some (s', os) -> g_raised s' = g_raised s.
Proof.
  intros c s ls s' os R L H. destruct (conserved_reachable c s R) as (_ & _ & HP).
  apply (exited_run c ls s s' os); [|exact L|exact H]. intro X. specialize (HP X). congruence.
Qed.
Print Assumptions C01_nothing_after_shutdown.

(* non-vacuity: a concrete execution (two watchers, a full batch, a singleton, a partial
   batch, one rejected call) reaches a state in which all of the above talk about something *)
Definition ex_cfg : cfg :=
  mkCfg V2 10 false false 0 0 0 0 0 0 [mkW 2 0 0; mkW 0 0 0] 0 0 0 0.
Definition ex_enq (w obj : nat) (b : bool) : label :=
  AEnqueue (mkE false (Some w) obj 1 1 b 0 false).
Definition ex_trace : list label :=
  [AStart; ex_enq 0 1 true; IEnqInsert 0; ex_enq 0 2 true; IEnqInsert 1; ex_enq 0 3 true; IEnqInsert 2;
   ex_enq 1 4 false; IEnqInsert 3; AEnqueue (mkE true None 0 0 0 false 0 false);
   AFlush; ICycleBegin; ICycleVisit; ICycleVisit; ICycleVisit; ICycleVisit; ICycleVisit;
   ICycleRaise 0; ICycleEnd].
Example C01_nonvacuous :
  exists s os, run ex_cfg (init ex_cfg) ex_trace = Some (s, os)
    /\ length (g_raised s) = 3%nat /\ length (g_inserted s) = 4%nat /\ g_failed s = [4%nat].
Proof. eexists. eexists. vm_compute. repeat split. Qed.
