(* Props/C05.v — C05: batches respect watcher, batchability, size limit and order.
   Order: ins s lists the operations in the order in which they entered the buffer (enqueue order as
   the Batcher sees it); sub l1 l2 says l1 is a subsequence of l2 (same relative order); rel s is
   everything released so far in the order of release. *)
From Coq Require Import List ZArith Bool Lia Permutation.
From RecordUpdate Require Import RecordUpdate.
From GB Require Import Model.Allowance Model.Batcher Proofs.Tactics Proofs.C01Inv Proofs.BatcherLocal
  Proofs.BatcherLocal2 Proofs.BatcherInv2 Proofs.BatcherInv3 Proofs.OrderInv.
Import ListNotations.
Open Scope Z_scope.
(* every batch ever raised is non-empty and contains only operations of the watcher that receives it *)
Theorem C05_single_watcher_nonempty : forall c s, reachable c s -> Forall batch_ok (g_raised s).
Proof. intros c s R. exact (proj2 (watcher_reachable c s R)). Qed.
Print Assumptions C05_single_watcher_nonempty.

(* no raised batch exceeds its watcher's MaxBatchSize (when > 0), and a batch that contains a non-batchable operation has exactly one element *)
Theorem C05_size_limit_and_nonbatchable_alone : forall c s, reachable c s -> Forall (shape_ok c) (g_raised s).
Proof. intros c s R. exact (proj2 (shape_reachable c s R)). Qed.
Print Assumptions C05_size_limit_and_nonbatchable_alone.

(* a batch under construction holds only batchable operations and is strictly below the limit: reaching the limit raises it at once, which is why a watcher gets a second batch in a cycle only after a full one *)
Theorem C05_open_batches_below_limit : forall c s w, reachable c s ->
  forallb o_batchable (get_open (cy_open s) w) = true
  /\ ((0 < w_maxbatch (watcher c w))%nat -> (length (get_open (cy_open s) w) < w_maxbatch (watcher c w))%nat).
Proof. intros c s w R. exact (proj1 (shape_reachable c s R) w). Qed.
Print Assumptions C05_open_batches_below_limit.

(* a batch that is not full is raised only when the cycle has stopped visiting *)
Theorem C05_partial_batches_only_at_cycle_end : forall c s w s' o, step c s (ICycleRaise w) = Some (s', o) -> loop s = LCycleEnd /\ get_open (cy_open s) w <> [].
Proof. intros c s w s' o H. simpl in H. unfold do_cycle_raise in H. destruct (loop s); try discriminate. split; [reflexivity|]. destruct (get_open (cy_open s) w); [discriminate|discriminate]. Qed.
Print Assumptions C05_partial_batches_only_at_cycle_end.

(* operations keep enqueue order inside every batch ever raised — with or without a slot limit, whatever the cycle skips *)
Theorem C05_order_inside_batches : forall c s w ops, reachable c s -> In (w, ops) (g_raised s) -> sub ops (ins s).
Proof. exact batches_in_enqueue_order. Qed.
Print Assumptions C05_order_inside_batches.

(* the buffer itself never reorders (removals from the head, the middle or the tail included) *)
Theorem C05_buffer_keeps_order : forall c s, reachable c s -> sub (buffer s) (ins s).
Proof. exact buffer_in_enqueue_order. Qed.
Print Assumptions C05_buffer_keeps_order.

(* without a concurrency limit (and in V1) each watcher's batchable operations (class CB w), and all non-batchable
   operations (class CN), are released in enqueue order across batches and cycles *)
Theorem C05_release_order_without_slot_limit : forall c s k,
  fifo c = true -> reachable c s -> sub (filter (inclass k) (rel s)) (ins s).
Proof. exact released_in_enqueue_order. Qed.
Print Assumptions C05_release_order_without_slot_limit.

(* non-vacuity: the README's mixed example — two watchers, batchable and not *)
Definition ex_cfg : cfg := mkCfg V1 10 false false 0 0 0 0 0 0 [mkW 2 0 0; mkW 0 0 0] 0 0 0 0.
Definition ex_enq (w obj : nat) (b : bool) : label := AEnqueue (mkE false (Some w) obj 1 1 b 0 false).
Example C05_nonvacuous :
  exists s os, run ex_cfg (init ex_cfg)
     [AStart; ex_enq 0 1 true; IEnqInsert 0; ex_enq 1 2 false; IEnqInsert 1; ex_enq 0 3 true; IEnqInsert 2;
      ex_enq 0 4 true; IEnqInsert 3; ex_enq 1 5 true; IEnqInsert 4;
      AFlush; ICycleBegin; ICycleVisit; ICycleVisit; ICycleVisit; ICycleVisit; ICycleVisit; ICycleVisit;
      ICycleRaise 0; ICycleRaise 1; ICycleEnd] = Some (s, os)
    /\ map (fun p => (fst p, objs_of (snd p))) (rev (g_raised s)) = [(1, [2]); (0, [1; 3]); (0, [4]); (1, [5])]%nat.
Proof. eexists. eexists. vm_compute. split; reflexivity. Qed.
