(* Props/C07.v — C07: shared capacity is acquired only on demand, never renewed, and decays. *)
From Coq Require Import List ZArith Bool Lia.
From RecordUpdate Require Import RecordUpdate.
From GB Require Import Model.Allowance Model.Batcher Model.Shared Proofs.Tactics Proofs.SharedInv.
Import ListNotations.
Open Scope Z_scope.

Theorem C07_lease_request_guard : forall c s p s' o,
  sstep c s (SILease p) = Some (s', o) ->
  held s < s_target s /\ nth_error (s_parts s) p = Some None /\ o = [SOLmLease p]
  /\ exists since, s_loop s = STop since.
Proof. exact lease_guard. Qed.
Print Assumptions C07_lease_request_guard.

(* along every execution, every lease request ever issued was issued with counted < wanted *)
Theorem C07_every_request_had_demand : forall c r sh s, sreachable c r sh s ->
  Forall (fun x => match x with (p, t, h, tg) => h < tg end) (s_issued s).
Proof. exact issue_reachable. Qed.
Print Assumptions C07_every_request_had_demand.

Theorem C07_wanted_is_set_by_GiveMe : forall c s v s' o,
  sstep c s (SAGiveMe v) = Some (s', o) ->
  s_target s' = ceil_div (Z.max 0 (v - s_reserved s)) (if s_factor s =? 0 then 1 else s_factor s)
  /\ o = [SOEvTarget (Z.max 0 (v - s_reserved s))].
Proof. exact giveme_target. Qed.
Print Assumptions C07_wanted_is_set_by_GiveMe.

Theorem C07_wanted_changes_only_by_GiveMe : forall c s l s' o,
  sstep c s l = Some (s', o) -> (forall v, l <> SAGiveMe v) -> s_target s' = s_target s.
Proof. exact target_only_by_giveme. Qed.
Print Assumptions C07_wanted_changes_only_by_GiveMe.

Theorem C07_no_request_without_demand : forall c s p, s_target s <= held s -> sstep c s (SILease p) = None.
Proof. exact no_lease_without_demand. Qed.
Print Assumptions C07_no_request_without_demand.

Theorem C07_demand_within_reserve_wants_nothing : forall c s v s' o,
  sstep c s (SAGiveMe v) = Some (s', o) -> v <= s_reserved s -> 0 <= s_factor s -> s_target s' = 0.
Proof. exact giveme_below_reserve. Qed.
Print Assumptions C07_demand_within_reserve_wants_nothing.

(* never renewed: a grant is counted until exactly issue time + lease time (C06_counted_until_expiry);
   running timers always lie in the future, time cannot pass one, and no step moves one *)
Theorem C07_timers_are_never_passed : forall c r sh s, sreachable c r sh s ->
  (sc_gen c = V1 \/ s_stop_req s = false) -> Forall (fun x => s_now s <= snd x) (s_timers s).
Proof. exact timer_reachable. Qed.
Print Assumptions C07_timers_are_never_passed.

Example C07_nonvacuous :
  exists s os, srun (mkSCfg V1 1 0 true) (sinit (mkSCfg V1 1 0 true) 2 3)
     [SAProvision true true; SAStart true; SIRecalc; SAGiveMe 4; SILease 2; SILeaseRet (15 * sec); SIRecalc;
      SAGiveMe 1; STime (15 * sec); SIExpire 2; SIRecalc] = Some (s, os)
    /\ capacity s = 2 /\ s_target s = 0 /\ length (s_issued s) = 1%nat.
Proof. eexists. eexists. vm_compute. repeat split. Qed.
