(* Props/C15.v — C15: bounded buffer, backpressure, no loss, no wedging. *)
From Coq Require Import List ZArith Bool Lia Permutation.
From RecordUpdate Require Import RecordUpdate.
From GB Require Import Model.Allowance Model.Batcher Proofs.Tactics Proofs.C01Inv Proofs.BatcherLocal
  Proofs.BatcherLocal2 Proofs.BatcherInv2 Proofs.BatcherInv3.
From GB Require Import Gen.Facts.
From GB Require Import Model.BufferPtr Proofs.BufferRefine.
Import ListNotations.
Open Scope Z_scope.
(* OperationsInBuffer() never exceeds the configured size *)
Theorem C15_bounded : forall c s, (0 < c_bufcap c)%nat -> reachable c s -> (length (buffer s) <= c_bufcap c)%nat.
Proof. intros c s P R. exact (proj1 (bounded_reachable c s P R)). Qed.
Print Assumptions C15_bounded.

(* V1: a caller is blocked only while the channel is full (a freed slot is handed to the first blocked sender at once) *)
Theorem C15_blocked_only_when_full_v1 : forall c s, (0 < c_bufcap c)%nat -> reachable c s -> c_gen c = V1 -> waiting s <> [] -> shut s = false ->
  length (buffer s) = c_bufcap c.
Proof. intros c s P R. exact (proj2 (bounded_reachable c s P R)). Qed.
Print Assumptions C15_blocked_only_when_full_v1.

(* BufferFullError / BufferIsShutdown: the cost counted before the insert is given back (after the repair of D1) *)
Theorem C15_error_mode_leaves_no_trace : forall t cst, 0 <= t -> 0 <= cst -> t + cst < u32 -> target_sub (target_add t cst) cst = t.
Proof. exact error_mode_no_trace. Qed.
Print Assumptions C15_error_mode_leaves_no_trace.

(* V2 (after the repair of D4): every caller blocked on a full buffer is woken by the shutdown and returns BufferIsShutdown *)
Theorem C15_blocked_caller_released_by_shutdown_v2 : forall c s id op, c_gen c = V2 -> shut s = true -> find_op id (woken s) = Some op ->
  exists s', step c s (IEnqRetry id) = Some (s', [OEnqRet id RShutdown])
             /\ buffer s' = buffer s /\ target s' = target_sub (target s) (o_cost op).
Proof. exact retry_after_shutdown_v2. Qed.
Print Assumptions C15_blocked_caller_released_by_shutdown_v2.

Theorem C15_shutdown_wakes_every_waiter_v2 : forall c s s' o, step c s ILoopShutdown = Some (s', o) -> c_gen c = V2 -> buffer s' = [] /\ waiting s' = [].
Proof. intros c s s' o H G. destruct (shutdown_step_effect c s s' o H) as (_ & _ & _ & _ & _ & _ & X). exact (X G). Qed.
Print Assumptions C15_shutdown_wakes_every_waiter_v2.

Theorem C15_late_caller_gets_error_v2 : forall c s id op, c_gen c = V2 -> shut s = true -> find_call id (counted s) = Some (op, false) ->
  exists s', step c s (IEnqInsert id) = Some (s', [OEnqRet id RShutdown])
             /\ buffer s' = buffer s /\ target s' = target_sub (target s) (o_cost op).
Proof. exact insert_after_shutdown_v2. Qed.
Print Assumptions C15_late_caller_gets_error_v2.

(* V1: known finding D2 — the closed channel makes blocked and later senders panic *)
(* ---- the linked list of v2/buffer.go ----
   Model/BufferPtr.v is the buffer at pointer level: cells with prv/nxt pointers in a heap, head, tail and cursor
   pointers, the length counter, the four cases of remove().  R p a addrs relates it to the list-with-cursor view
   (the one the Batcher model uses).  Every operation on related states returns the same result and leads to
   related states, hence every sequence of operations from the empty buffer gives the same results and sizes at
   both levels; the pointer level never exceeds its capacity and never reaches one of its two "coding error"
   panics.  The real buffer is compared with the extracted pointer-level model on every run (harness/buffer.go:
   all sequences of up to 5 (thorough: 6) operations for capacities 1..3, and long random ones). *)
Theorem C15_linked_list_refines_list : forall p a addrs c,
  R p a addrs ->
  exists addrs', snd (prun1 p c) = snd (arun1 a c) /\ R (fst (prun1 p c)) (fst (arun1 a c)) addrs'.
Proof. exact refine_step. Qed.
Print Assumptions C15_linked_list_refines_list.

Theorem C15_linked_list_same_behaviour : forall cap cs, prun (pinit cap) cs = arun (ainit cap) cs.
Proof. exact refine_from_empty. Qed.
Print Assumptions C15_linked_list_same_behaviour.

Theorem C15_linked_list_bounded : forall p a addrs c,
  R p a addrs -> (p_len p <= p_cap p)%nat -> (p_len (fst (prun1 p c)) <= p_cap (fst (prun1 p c)))%nat.
Proof. exact pointer_bounded. Qed.
Print Assumptions C15_linked_list_bounded.

Theorem C15_linked_list_never_panics : forall p a addrs c, R p a addrs -> snd (prun1 p c) <> RBufPanic.
Proof. exact pointer_never_panics. Qed.
Print Assumptions C15_linked_list_never_panics.

Example C15_linked_list_nonvacuous :
  prun (pinit 3) [BEnqueue 1 true; BEnqueue 2 true; BEnqueue 3 true; BEnqueue 4 true; BTop; BSkip; BRemove; BEnqueue 5 false; BTop; BRemove; BSkip; BRemove; BRemove]
  = [(RBufOk, 1); (RBufOk, 2); (RBufOk, 3); (RBufFull, 3); (RBufOp (Some 1), 3); (RBufOp (Some 2), 3); (RBufOp (Some 3), 2);
     (RBufOk, 3); (RBufOp (Some 1), 3); (RBufOp (Some 3), 2); (RBufOp (Some 5), 2); (RBufOp None, 1); (RBufOp None, 1)]%nat.
Proof. vm_compute. reflexivity. Qed.

Definition d2_cfg : cfg := mkCfg V1 1 false false 0 0 0 0 0 0 [mkW 0 0 0] 0 0 0 0.
Definition d2_enq (obj : nat) : label := AEnqueue (mkE false (Some 0%nat) obj 1 1 true 0 false).
Theorem C15_shutdown_releases_v1_refuted :
  exists s os, run d2_cfg (init d2_cfg)
    [AStart; d2_enq 1; IEnqInsert 0; d2_enq 2; IEnqInsert 1; AStop; ILoopShutdown] = Some (s, os)
    /\ In (OEnqRet 1 RPanic) os.
Proof. eexists. eexists. vm_compute. split; [reflexivity|]. simpl. tauto. Qed.
Print Assumptions C15_shutdown_releases_v1_refuted.

Theorem C15_source_constants : V1_default_buffer = 10000 /\ V2_default_buffer = 10000.
Proof. split; reflexivity. Qed.
