(* Props/C12.v — C12: the limiter is told the current demand every CapacityInterval. *)
From Coq Require Import List ZArith Bool Lia Permutation.
From RecordUpdate Require Import RecordUpdate.
From GB Require Import Model.Allowance Model.Batcher Proofs.Tactics Proofs.C01Inv Proofs.BatcherLocal
  Proofs.BatcherLocal2 Proofs.BatcherInv2 Proofs.BatcherInv3.
From GB Require Import Gen.Facts.
Import ListNotations.
Open Scope Z_scope.
(* a GiveMe call (and request event) comes only from the idle loop consuming a capacity tick, only with a limiter, with the current NeedsCapacity(): so never during a pause (loop asleep), never after shutdown (loop exited) *)
Theorem C12_request_value_and_origin : forall c s l s' o x, step c s l = Some (s', o) -> In x o -> is_giveme x = true ->
  l = ILoopCap /\ loop s = LIdle /\ c_limiter c = true /\ t_pending (tk_cap s) = true
  /\ o = [OEvRequest (target s); OGiveMe (target s)].
Proof. exact giveme_only_from_cap. Qed.
Print Assumptions C12_request_value_and_origin.

(* handling a tick makes exactly one request (zero included) when a limiter is attached, none otherwise, and consumes the tick *)
Theorem C12_one_request_per_tick : forall c s s' o, step c s ILoopCap = Some (s', o) ->
  target s' = target s /\ t_pending (tk_cap s') = false
  /\ o = if c_limiter c then [OEvRequest (target s); OGiveMe (target s)] else [].
Proof. exact cap_tick_requests. Qed.
Print Assumptions C12_one_request_per_tick.

(* while the loop is running and not paused no capacity tick is left unanswered at a settled instant *)
Theorem C12_every_tick_answered_before_time_moves : forall c s, quiescent c s = true -> loop s = LIdle -> t_pending (tk_cap s) = false.
Proof. intros c s Q L. exact (proj1 (quiescent_idle_nothing_pending c s Q L)). Qed.
Print Assumptions C12_every_tick_answered_before_time_moves.

Theorem C12_default_interval : forall c, c_capint c <= 0 -> eff_capint c = 100 * ms.
Proof. intros c H. unfold eff_capint, dflt. apply Z.leb_le in H. now rewrite H. Qed.
Print Assumptions C12_default_interval.


Theorem C12_source_constants :
  V1_default_capacityInterval = default_capint /\ V2_default_capacityInterval = default_capint.
Proof. split; reflexivity. Qed.
