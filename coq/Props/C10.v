(* Props/C10.v — C10: MaxConcurrentBatches. *)
From Coq Require Import List ZArith Bool Lia Permutation.
From RecordUpdate Require Import RecordUpdate.
From GB Require Import Model.Allowance Model.Batcher Proofs.Tactics Proofs.C01Inv Proofs.BatcherLocal
  Proofs.BatcherLocal2 Proofs.BatcherInv2 Proofs.BatcherInv3 Proofs.TargetInv Proofs.TokenInv.
Import ListNotations.
Open Scope Z_scope.
(* Inflight() never exceeds the limit *)
Theorem C10_never_more_than_n_slots : forall c s, reachable c s -> (0 < c_maxconc c)%nat -> (tokens s <= c_maxconc c)%nat.
Proof. intros c s R. exact (tokbound_reachable c s R). Qed.
Print Assumptions C10_never_more_than_n_slots.

(* a batch is opened / a single operation raised only by taking a free slot *)
Theorem C10_slot_needed_to_raise : forall c s s', try_reserve c s = Some s' -> (0 < c_maxconc c)%nat -> leaked s = 0%nat ->
  (tokens s < c_maxconc c)%nat /\ tokens s' = S (tokens s).
Proof. intros c s s' H P L. unfold try_reserve in H. destruct (c_maxconc c =? 0)%nat eqn:E; [apply Nat.eqb_eq in E; lia|]. rewrite L in H. destruct (tokens s <? c_maxconc c)%nat eqn:E2; [|discriminate]. inv H. simpl. apply Nat.ltb_lt in E2. split; [exact E2|reflexivity]. Qed.
Print Assumptions C10_slot_needed_to_raise.

(* operations that cannot get a slot stay buffered *)
Theorem C10_skipped_operation_stays_buffered : forall c s s' ev i, c_gen c = V2 -> do_cycle_visit c s = Some (s', ev) -> cy_cur s = Some i ->
  buffer s' = buffer s -> loop s' = LCycle -> try_reserve c s = None /\ g_taken s' = g_taken s.
Proof. exact visit_skip_reason. Qed.
Print Assumptions C10_skipped_operation_stays_buffered.

(* every slot is given back when its batch returns or times out, exactly once (the step is not enabled again: C11_written_off_once) *)
Theorem C10_slot_given_back_at_completion : forall c s id s' o, step c s (IBatchDone id) = Some (s', o) -> c_gen c = V2 -> (0 < c_maxconc c)%nat ->
  (0 < tokens s)%nat -> tokens s' = pred (tokens s).
Proof. intros c s id s' o H G P T. destruct (batch_done_effect c s id s' o H) as (b & _ & _ & _ & _ & _ & _ & X & _). exact (X G P T). Qed.
Print Assumptions C10_slot_given_back_at_completion.

(* at a settled instant every batch in progress has entered its callback, so it will return or time out and free its slot *)
Theorem C10_no_slot_leak_when_settled : forall c s b, reachable c s -> quiescent c s = true -> In b (batches s) -> b_entered b = true.
Proof. intros c s b R Q I. destruct (batchinv_reachable c s R) as (N & _). exact (quiescent_entered c s b Q I N). Qed.
Print Assumptions C10_no_slot_leak_when_settled.


(* Inflight() is exactly the number of batches in progress — raised and not finished, or under construction in the
   current cycle — and no batch goroutine is stuck on the slot channel, in every execution in which no audit reset a
   non-zero slot count (treach: ok_step_tok; the reset itself is C19's subject) *)
Theorem C10_inflight_is_batches_in_progress : forall c s n,
  treach c s -> c_gen c = V2 -> c_maxconc c = S n -> inflight s = in_progress s /\ leaked s = 0%nat.
Proof. exact inflight_exact. Qed.
Print Assumptions C10_inflight_is_batches_in_progress.

(* the count invariant is preserved by every single step *)
Theorem C10_step : forall c s l s' o, Conserved s -> TokInv c s -> ok_step_tok c s l -> step c s l = Some (s', o) -> TokInv c s'.
Proof. exact tokinv_step. Qed.
Print Assumptions C10_step.
