(* Props/C18.v — C18: a lease is reported only when storage confirmed it; every error is handled.
   The model (Model/Lease.v) maps the outcome of each storage call — ok, one of the SDK's
   service codes, or a non-storage error (transport, cancellation) — to what the manager returns
   and raises.  The theorems hold for every outcome, every partition count, every position. *)
From Coq Require Import List ZArith Bool Lia.
From GB Require Import Model.Batcher Model.Lease Proofs.Tactics Proofs.LeaseProofs.
From GB Require Import Gen.Facts.
Import ListNotations.
Open Scope Z_scope.

(* the 15 s lease is reported iff the acquire call succeeded; otherwise none, with a failed event
   (lease already present) or an error event (anything else, including non-storage errors) *)
Theorem C18_lease_iff_acquired : forall index r,
  (fst (lm_lease index r) = lease_ns <-> r = EOk) /\
  (r <> EOk -> fst (lm_lease index r) = 0) /\
  (r = ELeaseAlreadyPresent -> snd (lm_lease index r) = [LFailed index]) /\
  (r <> EOk -> r <> ELeaseAlreadyPresent -> snd (lm_lease index r) = [LError]) /\
  (r = EOk -> snd (lm_lease index r) = []).
Proof. exact lease_iff_acquired. Qed.
Print Assumptions C18_lease_iff_acquired.

(* provisioning the container succeeds on ok and on container-already-exists only *)
Theorem C18_provision_classes : forall r,
  (fst (lm_provision r) = true <-> (r = EOk \/ r = EContainerAlreadyExists)) /\
  (r = EOk -> snd (lm_provision r) = [LCreatedContainer]) /\
  (r = EContainerAlreadyExists -> snd (lm_provision r) = [LVerifiedContainer]) /\
  (fst (lm_provision r) = false -> snd (lm_provision r) = []).
Proof. exact provision_classes. Qed.
Print Assumptions C18_provision_classes.

(* only blob-already-exists and blob-leased count as success besides ok *)
Theorem C18_upload_classes : forall r,
  (classify_upload r = UCreated <-> r = EOk) /\
  (classify_upload r = UVerified <-> (r = EBlobAlreadyExists \/ r = ELeaseIdMissing)).
Proof. exact upload_classes. Qed.
Print Assumptions C18_upload_classes.

(* blobs 0, 1, 2, ... are attempted in order; V2 attempts all n and goes on after an error; V1
   stops at the first other error and returns it *)
Theorem C18_create_partitions_attempts : forall g results n ok att ev,
  lm_create g results n = (ok, att, ev) ->
  exists k, (k <= n)%nat /\ att = seq 0 k
            /\ (ok = true -> k = n) /\ (g = V2 -> ok = true)
            /\ (ok = false -> (0 < k)%nat /\ classify_upload (results (0 + k - 1)%nat) = UFailed).
Proof. intros g results n ok att ev H. exact (create_attempts g results n 0 ok att ev H). Qed.
Print Assumptions C18_create_partitions_attempts.

(* the event raised for blob k depends on the outcome of its own upload only: created, verified,
   or (V2) an error event; V1 raises nothing for the failing blob *)
Theorem C18_create_partitions_events : forall g results n ok att ev,
  lm_create g results n = (ok, att, ev) ->
  (forall k e, nth_error ev k = Some e -> e = event_of (0 + k) (results (0 + k)%nat))
  /\ length ev = (if ok then length att else (length att - 1)%nat).
Proof.
  intros g results n ok att ev H. split.
  - exact (create_events g results n 0 ok att ev H).
  - exact (create_event_count g results n 0 ok att ev H).
Qed.
Print Assumptions C18_create_partitions_events.

Example C18_nonvacuous :
  lm_create V1 (fun k => match k with 0%nat => EOk | 1%nat => ELeaseIdMissing | 2%nat => EOtherStorage 7 | _ => EOk end) 4
    = (false, [0; 1; 2]%nat, [LCreatedBlob 0; LVerifiedBlob 1])
  /\ lm_create V2 (fun k => match k with 0%nat => EOk | 1%nat => ELeaseIdMissing | 2%nat => ENonStorage | _ => EOk end) 4
    = (true, [0; 1; 2; 3]%nat, [LCreatedBlob 0; LVerifiedBlob 1; LError; LCreatedBlob 3]).
Proof. split; reflexivity. Qed.

Theorem C18_source_constants : V1_lease_seconds * 1000000000 = lease_ns /\ V2_lease_seconds * 1000000000 = lease_ns.
Proof. split; reflexivity. Qed.
