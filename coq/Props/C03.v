(* Props/C03.v — C03: NeedsCapacity() equals the cost of all outstanding operations.

   Reading guide.  outs s lists the outstanding operations of a state: Enqueue calls that have
   counted their cost and are on their way to the buffer (counted), callers blocked on a full
   buffer (waiting / woken), the buffer, batches under construction in the current cycle, raised
   batches that are not finished (finished = callback returned or MaxOperationTime elapsed,
   whichever came first: the model's IBatchDone step), and what a V2 shutdown discarded.
   outstanding s is the sum of their costs; needs_capacity s is what NeedsCapacity() returns.

   creach c s: s is reached by an execution every step of which meets the property's own side
   conditions (ok_step): costs are non-negative, unchanged between Enqueue and completion, total
   below 2^32; no audit reset a non-zero figure (it raised no audit-fail on the target); V1: no
   Enqueue call panicked on the closed channel (finding D2).

   The statement without the audit condition is false of the code: C03_audit_race_refuted (D7). *)
From Coq Require Import List ZArith Bool Lia Permutation.
From RecordUpdate Require Import RecordUpdate.
From GB Require Import Model.Allowance Model.Batcher Proofs.Tactics Proofs.C01Inv Proofs.BatcherLocal
  Proofs.BatcherLocal2 Proofs.TargetInv Proofs.AuditInv.
Import ListNotations.
Open Scope Z_scope.

(* at every moment — after every step of every such execution, any interleaving of enqueuers,
   completions, pauses, flush cycles, audits that pass or skip — the figure is exact *)
Theorem C03_needs_capacity_is_outstanding_cost : forall c s, creach c s -> needs_capacity s = outstanding s.
Proof. exact needs_capacity_exact. Qed.
Print Assumptions C03_needs_capacity_is_outstanding_cost.

(* it never wraps below zero and returns to zero when nothing is outstanding *)
Theorem C03_never_negative : forall c s, creach c s -> 0 <= needs_capacity s.
Proof. exact needs_capacity_bounds. Qed.
Print Assumptions C03_never_negative.

Theorem C03_zero_when_nothing_outstanding : forall c s, creach c s -> outs s = [] -> needs_capacity s = 0.
Proof. exact needs_capacity_zero_when_idle. Qed.
Print Assumptions C03_zero_when_nothing_outstanding.

(* an Enqueue that is rejected by the admission tests touches nothing *)
Theorem C03_rejected_enqueue_leaves_it_unchanged : forall c s e r s' o,
  validate c s e = VReject r -> step c s (AEnqueue e) = Some (s', o) ->
  o = [OEnqRet (next_call s) r] /\ target s' = target s.
Proof. intros c s e r s' o V H. destruct (reject_no_side_effect c s e r s' o V H) as (A & _ & B & _). tauto. Qed.
Print Assumptions C03_rejected_enqueue_leaves_it_unchanged.

(* an Enqueue refused by the buffer (full in error mode, or shut down in V2) gives back exactly what it counted *)
Theorem C03_refused_enqueue_gives_its_cost_back : forall c s id o h s' ev r,
  creach c s -> find_call id (counted s) = Some (o, h) ->
  step c s (IEnqInsert id) = Some (s', ev) -> ev = [OEnqRet id r] -> r <> ROk -> r <> RPanic ->
  target s' = target s - o_cost o.
Proof. exact refused_insert_gives_back. Qed.
Print Assumptions C03_refused_enqueue_gives_its_cost_back.

(* the decrement cannot wrap: it saturates at zero (the uint32 in the code is never decremented below zero) *)
Theorem C03_decrement_saturates : forall t v, 0 <= t -> 0 <= target_sub t v.
Proof. intros t v H. unfold target_sub. destruct (v <=? t) eqn:E; [apply Z.leb_le in E; lia|lia]. Qed.
Print Assumptions C03_decrement_saturates.

(* the invariant is preserved by each single step, whatever the label (used by the replay search: a
   recorded history on which the equation fails must contain a step that violates ok_step) *)
Theorem C03_step : forall c s l s' o, Conserved s -> TInv s -> ok_step c s l -> step c s l = Some (s', o) -> TInv s'.
Proof. exact tinv_step. Qed.
Print Assumptions C03_step.

(* ---- D7: without the audit condition the statement is false (known finding) ----
   The audit's test "buffer empty and idle for MaxOperationTime" and its reset are not atomic with
   Enqueue's count and insert: an Enqueue caught in between is counted, the audit zeroes the
   figure and raises audit-fail, and the operation is then outstanding with NeedsCapacity() = 0. *)
Definition d7_cfg : cfg := mkCfg V2 4 false false 0 0 (10 * ms) (5 * ms) 0 0 [mkW 0 0 0] 0 0 0 0.
Definition d7_labels : list label :=
  [AStart; AEnqueue (mkE false (Some 0%nat) 1 7 7 true 0 true);
   TAdvance (10 * ms); ITick TkAudit; ILoopAuditCheck; ILoopAuditConfirm; ARelease 0; IEnqInsert 0].

Lemma d7_healthy : healthy d7_cfg.
Proof. intro w. unfold timeout_of, watcher, d7_cfg. simpl. destruct w as [|[|w]]; simpl; lia. Qed.

Theorem C03_audit_race_refuted :
  exists s os, run d7_cfg (init d7_cfg) d7_labels = Some (s, os)
    /\ healthy d7_cfg
    /\ needs_capacity s = 0 /\ outstanding s = 7 /\ In (OEvAuditFail true false) os.
Proof.
  eexists. eexists. split; [vm_compute; reflexivity|]. split; [exact d7_healthy|].
  split; [reflexivity|]. split; [reflexivity|]. simpl. tauto.
Qed.
Print Assumptions C03_audit_race_refuted.

(* non-vacuity: a run with a blocked caller, a batch that returns and one that is written off meets
   every side condition, and the figure follows the outstanding cost: 10, then 6, then 0 *)
Definition nv_cfg : cfg := mkCfg V2 1 false false 0 0 0 (50 * ms) 0 0 [mkW 0 0 0] 0 0 0 0.
Definition nv_e (obj : nat) (cost dur : Z) : label := AEnqueue (mkE false (Some 0%nat) obj cost cost false dur false).
Definition nv_labels1 : list label :=
  [AStart; nv_e 1 4 (20 * ms); IEnqInsert 0; nv_e 2 6 (500 * ms); IEnqInsert 1].
Definition nv_labels2 : list label :=
  [TAdvance (100 * ms); ITick TkFlush; ITick TkCap; ILoopCap; ILoopFlushTick; ICycleBegin; ICycleVisit; IEnqRetry 1;
   ICycleVisit; ICycleEnd; IBatchStart 0; ICbEnter 0;
   TAdvance (120 * ms); ICbReturn 0; IBatchDone 0].
Definition nv_labels3 : list label :=
  [TAdvance (200 * ms); ITick TkFlush; ITick TkCap; ILoopCap; ILoopFlushTick; ICycleBegin; ICycleVisit; ICycleVisit; ICycleEnd;
   IBatchStart 1; ICbEnter 1; TAdvance (250 * ms); IBatchDone 1].

Example C03_nonvacuous :
  exists s1 s2 s3, crun nv_cfg (init nv_cfg) nv_labels1 = Some s1
    /\ crun nv_cfg (init nv_cfg) (nv_labels1 ++ nv_labels2) = Some s2
    /\ crun nv_cfg (init nv_cfg) (nv_labels1 ++ nv_labels2 ++ nv_labels3) = Some s3
    /\ creach nv_cfg s3 /\ waiting s1 <> [] /\ target s1 = 10 /\ target s2 = 6 /\ target s3 = 0.
Proof.
  eexists. eexists. eexists. split; [vm_compute; reflexivity|]. split; [vm_compute; reflexivity|].
  split; [vm_compute; reflexivity|]. split.
  - apply (crun_creach nv_cfg (nv_labels1 ++ nv_labels2 ++ nv_labels3) (init nv_cfg) _ (cr_init _)).
    vm_compute. reflexivity.
  - split; [discriminate|]. split; [reflexivity|]. split; reflexivity.
Qed.
