(* Props/C13.v — C13: Pause suspends all processing for exactly PauseTime and always resumes. *)
From Coq Require Import List ZArith Bool Lia Permutation.
From RecordUpdate Require Import RecordUpdate.
From GB Require Import Model.Allowance Model.Batcher Proofs.Tactics Proofs.C01Inv Proofs.BatcherLocal
  Proofs.BatcherLocal2 Proofs.BatcherInv2 Proofs.BatcherInv3.
From GB Require Import Gen.Facts.
Import ListNotations.
Open Scope Z_scope.
(* Pause() acts only in the started phase; while paused, before Start or after shutdown it changes nothing (so it cannot extend a pause) *)
Theorem C13_pause_call : forall c s s' o, step c s APause = Some (s', o) ->
  o = [] /\ (phase_ s = PStarted -> pause_tok s' = true /\ phase_ s' = PPaused)
  /\ (phase_ s <> PStarted -> s' = s).
Proof. exact pause_call_effect. Qed.
Print Assumptions C13_pause_call.

(* the loop raises the pause event and sleeps until exactly now + PauseTime *)
Theorem C13_pause_begins : forall c s s' o, step c s ILoopPause = Some (s', o) ->
  loop s = LIdle /\ loop s' = LSleeping (now s + eff_pause c) /\ o = [OEvPause (eff_pause c / ms)]
  /\ pause_tok s' = false.
Proof. exact loop_pause_effect. Qed.
Print Assumptions C13_pause_begins.

(* resume happens at the instant the sleep ends, raises the resume event and makes Pause() effective again: the phase
   is back to started when the event is raised, so even a Pause() made by a listener's own goroutine in answer to that
   very event is accepted and starts a new pause (the second alternative; reacts_left counts such listeners) *)
Theorem C13_resume_exactly_at_the_end : forall c s s' o, step c s ILoopResume = Some (s', o) ->
  loop s = LSleeping (now s) /\ loop s' = LIdle /\ o = [OEvResume]
  /\ (phase_ s = PPaused ->
      (reacts_left s = 0%nat /\ phase_ s' = PStarted /\ pause_tok s' = pause_tok s)
      \/ (exists n, reacts_left s = S n /\ reacts_left s' = n /\ phase_ s' = PPaused /\ pause_tok s' = true)).
Proof. exact loop_resume_effect. Qed.
Print Assumptions C13_resume_exactly_at_the_end.

(* between pause and resume no batch is released, no capacity is requested, no audit runs *)
Theorem C13_nothing_during_the_pause : forall c s l s' o x t, loop s = LSleeping t -> step c s l = Some (s', o) -> In x o ->
  is_batch x = false /\ is_giveme x = false /\ is_audit x = false.
Proof. exact sleeping_quiet. Qed.
Print Assumptions C13_nothing_during_the_pause.

(* time cannot pass the end of the pause without the resume *)
Theorem C13_not_longer : forall c s t t' s' o, loop s = LSleeping t -> step c s (TAdvance t') = Some (s', o) -> t' <= t /\ loop s' = LSleeping t.
Proof. exact sleeping_time. Qed.
Print Assumptions C13_not_longer.

(* at the end of the sleep the resume is enabled whatever else has happened (including a shutdown request) *)
Theorem C13_always_resumes : forall c s t, loop s = LSleeping t -> now s = t -> exists s', step c s ILoopResume = Some (s', [OEvResume]).
Proof.
  intros c s t L N. simpl. unfold do_loop_resume. rewrite L. subst t. rewrite Z.eqb_refl.
  destruct (reacts_left s); [eexists; reflexivity|]. destruct (phase_ s); eexists; reflexivity.
Qed.
Print Assumptions C13_always_resumes.

(* operations enqueued before or during the pause are all still accounted for (C01's invariant holds across the pause) *)
Theorem C13_nothing_lost : forall c s, reachable c s -> Permutation (g_inserted s) (buffer s ++ open_ops s ++ raised_ops s ++ g_discarded s).
Proof. intros c s R. exact (proj1 (conserved_reachable c s R)). Qed.
Print Assumptions C13_nothing_lost.

Theorem C13_default_pause_time : forall c, c_pause c <= 0 -> eff_pause c = 500 * ms.
Proof. intros c H. unfold eff_pause, dflt. apply Z.leb_le in H. now rewrite H. Qed.
Print Assumptions C13_default_pause_time.


(* a Pause() made while a listener keeps the loop busy is not lost and is not shortened: the request is still
   pending when the listener returns (C08_nothing_lost_while_listener_runs), the pause event is raised then, and the
   loop sleeps exactly PauseTime from that event (C13_pause_begins and C13_resume_exactly_at_the_end apply to the idle loop) *)
Theorem C13_pause_request_survives_a_busy_listener : forall c s s' o,
  step c s ILoopUnbusy = Some (s', o) ->
  exists t, loop s = LBusy t /\ t = now s /\ loop s' = LIdle /\ o = []
    /\ flush_tok s' = flush_tok s /\ pause_tok s' = pause_tok s /\ stop_req s' = stop_req s
    /\ tk_flush s' = tk_flush s /\ tk_cap s' = tk_cap s /\ tk_audit s' = tk_audit s /\ buffer s' = buffer s.
Proof. exact unbusy_effect. Qed.
Print Assumptions C13_pause_request_survives_a_busy_listener.

Theorem C13_source_constants :
  V1_default_pauseTime = default_pause /\ V2_default_pauseTime = default_pause.
Proof. split; reflexivity. Qed.
