(* Props/C16.v — C16: Batcher life cycle. *)
From Coq Require Import List ZArith Bool Lia Permutation.
From RecordUpdate Require Import RecordUpdate.
From GB Require Import Model.Allowance Model.Batcher Proofs.Tactics Proofs.C01Inv Proofs.BatcherLocal
  Proofs.BatcherLocal2 Proofs.BatcherInv2 Proofs.BatcherInv3.
Import ListNotations.
Open Scope Z_scope.
(* Start succeeds exactly in the uninitialised phase; otherwise it returns the error and changes nothing *)
Theorem C16_start_once : forall c s s' o, step c s AStart = Some (s', o) ->
  (phase_ s = PUninit -> o = [OStartRet true] /\ phase_ s' = PStarted /\ loop s' = LIdle)
  /\ (phase_ s <> PUninit -> o = [OStartRet false] /\ s' = s).
Proof. exact start_once. Qed.
Print Assumptions C16_start_once.

(* so once Start has succeeded every later Start fails *)
Theorem C16_phase_never_returns_to_uninitialized : forall c s, reachable c s -> (phase_ s = PUninit -> loop s = LNotStarted) /\ (loop s = LNotStarted -> phase_ s = PUninit \/ phase_ s = PStopped).
Proof. intros c s R. destruct (life_reachable c s R) as (A & B & _). split; assumption. Qed.
Print Assumptions C16_phase_never_returns_to_uninitialized.

Theorem C16_setters_panic_after_start : forall c s, c_gen c = V2 -> phase_ s <> PUninit -> step c s ASetter = Some (s, [OSetterPanic]).
Proof. exact setter_after_start_panics. Qed.
Print Assumptions C16_setters_panic_after_start.

(* the shutdown event is raised exactly once: when, and only when, the loop exits *)
Theorem C16_exactly_one_shutdown_event : forall c s, reachable c s -> g_shutdowns s = (if exited s then 1 else 0)%nat.
Proof. intros c s R. destruct (life_reachable c s R) as (_ & _ & A & _). exact A. Qed.
Print Assumptions C16_exactly_one_shutdown_event.

Theorem C16_shutdown_step : forall c s s' o, step c s ILoopShutdown = Some (s', o) ->
  loop s = LIdle /\ stop_req s = true /\ loop s' = LExited /\ shut s' = true /\ In OEvShutdown o
  /\ g_shutdowns s' = S (g_shutdowns s) /\ (c_gen c = V2 -> buffer s' = [] /\ waiting s' = []).
Proof. exact shutdown_step_effect. Qed.
Print Assumptions C16_shutdown_step.

(* once stop is requested on a started Batcher, every settled state has the loop exited, or still asleep in a pause (which ends: C13),
   or still inside a listener that takes its time (which returns): from any phase, no stuck state *)
Theorem C16_always_terminates : forall c s, reachable c s -> quiescent c s = true -> stop_req s = true ->
  loop s = LNotStarted \/ (exists t, loop s = LSleeping t /\ now s <> t) \/ loop s = LExited \/ (exists t, loop s = LBusy t /\ now s <> t).
Proof. intros c s R Q S. destruct (quiescent_loop c s (keys_reachable c s R) Q) as [A|[A|[A|[A|A]]]]; try tauto. exfalso. destruct (quiescent_idle_nothing_pending c s Q A) as (_ & _ & _ & _ & _ & X). congruence. Qed.
Print Assumptions C16_always_terminates.

(* no batch is released after the shutdown event *)
Theorem C16_nothing_after_shutdown : forall c s ls s' os, reachable c s -> loop s = LExited -> run c s ls = Some (s', os) -> g_raised s' = g_raised s.
Proof. intros c s ls s' os R L H. destruct (conserved_reachable c s R) as (_ & _ & HP). apply (exited_run c ls s s' os); [|exact L|exact H]. intro X. specialize (HP X). congruence. Qed.
Print Assumptions C16_nothing_after_shutdown.

(* and no capacity is requested *)
Theorem C16_no_request_after_shutdown : forall c s l s' o x, loop s = LExited -> step c s l = Some (s', o) -> In x o -> is_giveme x = false.
Proof. intros c s l s' o x L H I. destruct (is_giveme x) eqn:G; [|reflexivity]. destruct (giveme_only_from_cap c s l s' o x H I G) as (_ & L2 & _). congruence. Qed.
Print Assumptions C16_no_request_after_shutdown.

(* V2: Enqueue after shutdown reports an error *)
Theorem C16_enqueue_after_shutdown_v2 : forall c s id op, c_gen c = V2 -> shut s = true -> find_call id (counted s) = Some (op, false) ->
  exists s', step c s (IEnqInsert id) = Some (s', [OEnqRet id RShutdown])
             /\ buffer s' = buffer s /\ target s' = target_sub (target s) (o_cost op).
Proof. exact insert_after_shutdown_v2. Qed.
Print Assumptions C16_enqueue_after_shutdown_v2.

(* V1: known finding D2 — Enqueue after Stop panics on the closed channel *)
Definition d2_cfg : cfg := mkCfg V1 4 false false 0 0 0 0 0 0 [mkW 0 0 0] 0 0 0 0.
Theorem C16_enqueue_after_shutdown_v1_refuted :
  exists s os, run d2_cfg (init d2_cfg)
    [AStart; AStop; ILoopShutdown; IStopRet; AEnqueue (mkE false (Some 0%nat) 1 1 1 true 0 false); IEnqInsert 0] = Some (s, os)
    /\ In (OEnqRet 0 RPanic) os.
Proof. eexists. eexists. vm_compute. split; [reflexivity|]. simpl. tauto. Qed.
Print Assumptions C16_enqueue_after_shutdown_v1_refuted.
