(* Props/C19.v — C19: the audit never disturbs a healthy Batcher and repairs a stale one.

   healthy c: no Watcher sets a MaxOperationTime longer than the Batcher's.
   The audit is two steps of the loop: ILoopAuditCheck (consumes the AuditInterval tick and tests
   "buffer empty and more than MaxOperationTime since the last flush that raised something")
   and, if the test passed, ILoopAuditConfirm (reads both figures, resets them, raises the event).

   What is proved: an audit per tick and only then; skip/pass change nothing; in a healthy Batcher
   the reset finds every batch finished, so with no Enqueue call in flight the demand figure is
   zero and (V2) so is the slot count — the audit passes; a stale figure is reset with audit-fail.
   What is false of the code: "raises only audit-pass or audit-skip" for every healthy execution —
   an Enqueue call caught between its count and its insert is zeroed (C19_healthy_refuted, D7). *)
From Coq Require Import List ZArith Bool Lia Permutation.
From RecordUpdate Require Import RecordUpdate.
From GB Require Import Model.Allowance Model.Batcher Proofs.Tactics Proofs.C01Inv Proofs.BatcherLocal
  Proofs.BatcherLocal2 Proofs.TargetInv Proofs.AuditInv Proofs.TokenInv.
From GB Require Import Gen.Facts.
Import ListNotations.
Open Scope Z_scope.

(* an audit event comes only from the two audit steps of the loop *)
Theorem C19_audit_events_only_from_the_audit : forall c s l s' o x,
  step c s l = Some (s', o) -> In x o -> is_audit x = true -> l = ILoopAuditCheck \/ l = ILoopAuditConfirm.
Proof. exact audit_events_only_from_audit. Qed.
Print Assumptions C19_audit_events_only_from_the_audit.

(* the test is made by the idle loop (running, not paused, not in a cycle) consuming an audit tick;
   it either skips, changing nothing, or passes the test exactly under the stated condition *)
Theorem C19_audit_test : forall c s s' o,
  step c s ILoopAuditCheck = Some (s', o) ->
  loop s = LIdle /\ t_pending (tk_audit s) = true /\ t_pending (tk_audit s') = false
  /\ target s' = target s /\ tokens s' = tokens s /\ buffer s' = buffer s /\ batches s' = batches s
  /\ ((o = [OEvAuditSkip] /\ loop s' = after_event s (c_busy_audit c) /\ (buffer s <> [] \/ idle_long_enough c s = false))
      \/ (o = [] /\ loop s' = LAuditPending /\ buffer s = [] /\ idle_long_enough c s = true)).
Proof. exact audit_check_effect. Qed.
Print Assumptions C19_audit_test.

(* no audit tick is left unanswered at a settled instant while the loop is running and not paused;
   ticks come every AuditInterval (default 10 s) *)
Theorem C19_every_tick_audited_before_time_moves : forall c s, quiescent c s = true -> loop s = LIdle -> t_pending (tk_audit s) = false.
Proof. intros c s Q L. exact (proj1 (proj2 (quiescent_idle_nothing_pending c s Q L))). Qed.
Print Assumptions C19_every_tick_audited_before_time_moves.

Theorem C19_tick_period : forall c s s' o, step c s (ITick TkAudit) = Some (s', o) ->
  t_next (tk_audit s) = now s /\ t_next (tk_audit s') = now s + eff_audit c /\ t_pending (tk_audit s') = true.
Proof.
  intros c s s' o H. simpl in H. unfold do_tick in H. simpl in H.
  destruct (tickers_on s && (t_next (tk_audit s) =? now s)) eqn:E; [|discriminate].
  apply andb_prop in E. destruct E as [_ E]. apply Z.eqb_eq in E. inv H. simpl. rewrite E. repeat split; reflexivity.
Qed.
Print Assumptions C19_tick_period.

Theorem C19_default_interval : forall c, c_audit c <= 0 -> eff_audit c = 10000 * ms.
Proof. intros c H. unfold eff_audit, dflt. apply Z.leb_le in H. now rewrite H. Qed.
Print Assumptions C19_default_interval.

(* the reset: audit-pass exactly when both figures are zero, and then nothing changes *)
Theorem C19_audit_reset : forall c s s' o,
  step c s ILoopAuditConfirm = Some (s', o) ->
  loop s = LAuditPending /\ loop s' = after_event s (c_busy_audit c) /\ target s' = 0
  /\ (c_gen c = V2 -> tokens s' = 0%nat) /\ (c_gen c = V1 -> tokens s' = tokens s)
  /\ buffer s' = buffer s /\ batches s' = batches s /\ counted s' = counted s
  /\ let tbad := 0 <? target s in
     let ibad := match c_gen c with V2 => (0 <? tokens s)%nat | V1 => false end in
     o = [if tbad || ibad then OEvAuditFail tbad ibad else OEvAuditPass].
Proof. exact audit_confirm_effect. Qed.
Print Assumptions C19_audit_reset.

Theorem C19_pass_changes_nothing : forall c s s',
  0 <= target s -> step c s ILoopAuditConfirm = Some (s', [OEvAuditPass]) ->
  needs_capacity s' = needs_capacity s /\ inflight s' = inflight s.
Proof. exact audit_pass_changes_nothing. Qed.
Print Assumptions C19_pass_changes_nothing.

(* healthy: when the audit resets, every raised batch is finished (time cannot pass a deadline,
   deadlines are at most MaxOperationTime after the last flush that raised something) *)
Theorem C19_healthy_audit_finds_batches_finished : forall c s,
  healthy c -> reachable c s -> loop s = LAuditPending -> undone (batches s) = [].
Proof. exact audit_finds_batches_finished. Qed.
Print Assumptions C19_healthy_audit_finds_batches_finished.

(* ... hence, with no Enqueue call in flight, the demand figure is zero at the reset: audit-pass on the target *)
Theorem C19_healthy_audit_passes_on_target : forall c s,
  healthy c -> creach c s -> loop s = LAuditPending ->
  counted s = [] -> waiting s = [] -> woken s = [] -> buffer s = [] -> g_discarded s = [] ->
  needs_capacity s = 0.
Proof. exact healthy_audit_passes. Qed.
Print Assumptions C19_healthy_audit_passes_on_target.

(* ... and so is the slot count (V2 with a limit; without one it is always zero) *)
Theorem C19_healthy_audit_passes_on_inflight : forall c s,
  healthy c -> treach c s -> loop s = LAuditPending -> inflight s = 0%nat.
Proof. exact healthy_audit_inflight_zero. Qed.
Print Assumptions C19_healthy_audit_passes_on_inflight.

(* staleness is repaired: a non-zero figure with the buffer empty and no flush that raised anything for
   longer than MaxOperationTime is reset to zero by the next audit, which raises audit-fail *)
Theorem C19_stale_figure_is_reset : forall c s s1 o1,
  0 < target s -> buffer s = [] -> idle_long_enough c s = true ->
  step c s ILoopAuditCheck = Some (s1, o1) ->
  o1 = [] /\ exists s2, step c s1 ILoopAuditConfirm = Some (s2, [OEvAuditFail true (match c_gen c with V2 => (0 <? tokens s)%nat | V1 => false end)])
                       /\ target s2 = 0.
Proof. exact stale_target_is_reset. Qed.
Print Assumptions C19_stale_figure_is_reset.

(* ---- D7: "raises only audit-pass or audit-skip in a healthy execution" is false of the code ---- *)
Definition d7_cfg : cfg := mkCfg V2 4 false false 0 0 (10 * ms) (5 * ms) 0 0 [mkW 0 0 0] 0 0 0 0.
Definition d7_labels : list label :=
  [AStart; AEnqueue (mkE false (Some 0%nat) 1 7 7 true 0 true);
   TAdvance (10 * ms); ITick TkAudit; ILoopAuditCheck; ILoopAuditConfirm; ARelease 0; IEnqInsert 0].

Lemma d7_healthy : healthy d7_cfg.
Proof. intro w. unfold timeout_of, watcher, d7_cfg. simpl. destruct w as [|[|w]]; simpl; lia. Qed.

Theorem C19_healthy_refuted :
  exists s os, run d7_cfg (init d7_cfg) d7_labels = Some (s, os) /\ healthy d7_cfg
    /\ In (OEvAuditFail true false) os /\ needs_capacity s = 0 /\ buffer s <> [].
Proof.
  eexists. eexists. split; [vm_compute; reflexivity|]. split; [exact d7_healthy|].
  split; [simpl; tauto|]. split; [reflexivity|discriminate].
Qed.
Print Assumptions C19_healthy_refuted.

Theorem C19_source_constants :
  V1_default_auditInterval = default_audit /\ V2_default_auditInterval = default_audit.
Proof. split; reflexivity. Qed.

(* non-vacuity: a stale figure (an operation whose reported cost shrank between enqueue and completion)
   is found and repaired by the first audit after the idle period *)
Definition st_cfg : cfg := mkCfg V2 4 false false 0 0 (300 * ms) (50 * ms) 0 0 [mkW 0 0 0] 0 0 0 0.
Definition st_labels : list label :=
  [AStart; AEnqueue (mkE false (Some 0%nat) 1 9 4 false (10 * ms) false); IEnqInsert 0;
   TAdvance (100 * ms); ITick TkFlush; ITick TkCap; ILoopCap; ILoopFlushTick; ICycleBegin; ICycleVisit; ICycleVisit; ICycleEnd;
   IBatchStart 0; ICbEnter 0; TAdvance (110 * ms); ICbReturn 0; IBatchDone 0;
   TAdvance (200 * ms); ITick TkFlush; ITick TkCap; ILoopCap; ILoopFlushTick; ICycleBegin; ICycleVisit; ICycleEnd;
   TAdvance (300 * ms); ITick TkFlush; ITick TkCap; ITick TkAudit; ILoopCap; ILoopFlushTick; ICycleBegin; ICycleVisit; ICycleEnd;
   ILoopAuditCheck].
Example C19_nonvacuous :
  exists s os s2, run st_cfg (init st_cfg) st_labels = Some (s, os) /\ target s = 5 /\ loop s = LAuditPending
    /\ step st_cfg s ILoopAuditConfirm = Some (s2, [OEvAuditFail true false]) /\ target s2 = 0.
Proof.
  eexists. eexists. eexists. split; [vm_compute; reflexivity|]. split; [reflexivity|]. split; [reflexivity|].
  split; [vm_compute; reflexivity|reflexivity].
Qed.
