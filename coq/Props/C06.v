(* Props/C06.v — C06: Capacity() = reserved + factor x held partitions, within MaxCapacity.
   "sreachable c r sh s": s is reachable from the initial state with reserved capacity r and
   shared capacity sh by any sequence of labels (calls, grants, refusals, expiries, time). *)
From Coq Require Import List ZArith Bool Lia.
From RecordUpdate Require Import RecordUpdate.
From GB Require Import Model.Allowance Model.Batcher Model.Shared Model.Lease Proofs.Tactics Proofs.SharedInv.
From GB Require Import Gen.Facts Proofs.FactsChecks.
Import ListNotations.
Open Scope Z_scope.

(* V2 always except while CreatePartitions of a re-provisioning is running (not_creating: the figure is recomputed
   when it returns; see C06_growth_keeps_the_formula for what holds meanwhile), V1 whenever no asynchronous
   recalculation is outstanding (i.e. at settled instants) *)
Theorem C06_capacity_formula : forall c r sh s, sreachable c r sh s ->
  (sc_gen c = V2 \/ s_recalcs s = 0%nat) -> not_creating s -> capacity s = s_reserved s + s_factor s * held s.
Proof.
  intros c r sh s R X NC. destruct (capinv_reachable c r sh s R) as [_ HC]. unfold capacity. rewrite (HC X NC). lia.
Qed.
Print Assumptions C06_capacity_formula.

(* a granted lease is counted from the return that reports it until its expiry timer fires, which is
   set to issue time + lease time — never later than the lease itself *)
Theorem C06_counted_until_expiry : forall c s lt s' o p issued,
  s_loop s = SCalling p issued -> sstep c s (SILeaseRet lt) = Some (s', o) ->
  (exists since, s_loop s' = STop since) /\
  ( (s_parts s' = s_parts s /\ s_timers s' = s_timers s /\ (lt <= 0 \/ issued + lt <= s_now s))
    \/ (0 < lt /\ s_now s < issued + lt /\ s_parts s' = set_nth p (Some (issued + lt)) (s_parts s)
        /\ s_timers s' = (p, issued + lt) :: s_timers s /\ In (SOEvAllocated p) o) ).
Proof. exact lease_ret_expiry. Qed.
Print Assumptions C06_counted_until_expiry.

Theorem C06_upper_bound : forall c r sh s, sreachable c r sh s ->
  (sc_gen c = V2 \/ s_recalcs s = 0%nat) -> not_creating s -> 0 <= s_factor s ->
  capacity s <= s_reserved s + s_factor s * Z.of_nat (length (s_parts s)).
Proof. exact capacity_upper. Qed.
Print Assumptions C06_upper_bound.

(* live growth of the shared capacity (and any resize that drops no counted partition) keeps the formula exact even
   while CreatePartitions runs; CreatePartitions' return recomputes it in every case; a lease that expires meanwhile
   is cleared at once (nothing is locked: repair D8) *)
Theorem C06_growth_keeps_the_formula : forall c s s' o,
  sstep c s SILoopProvision = Some (s', o) -> (length (s_parts s) <= length (s_parts s'))%nat ->
  s_capacity s = held s * s_factor s -> s_capacity s' = held s' * s_factor s'.
Proof. exact growth_keeps_capacity_exact. Qed.
Print Assumptions C06_growth_keeps_the_formula.

Theorem C06_recomputed_when_provisioning_returns : forall c s s' o,
  sstep c s SICreateRet = Some (s', o) ->
  exists n, s_loop s = SCreating n /\ s_loop s' = STop (s_now s) /\ s_parts s' = s_parts s
    /\ s_capacity s' = held s' * s_factor s' /\ o = [SOEvProvisionDone n; SOEvCapacity (capacity s')].
Proof. exact create_ret_effect. Qed.
Print Assumptions C06_recomputed_when_provisioning_returns.

Theorem C06_expiry_not_blocked_by_provisioning : forall c s p n s' o,
  s_loop s = SCreating n -> sstep c s (SIExpire p) = Some (s', o) -> s_loop s' = SCreating n /\ In (SOEvReleased p) o.
Proof. exact expiry_during_create. Qed.
Print Assumptions C06_expiry_not_blocked_by_provisioning.

Theorem C06_max_capacity : forall c s,
  max_capacity c s = match sc_gen c with
                     | V1 => s_shared s + s_reserved s
                     | V2 => Z.min (s_shared s) (s_factor s * max_partitions) + s_reserved s
                     end.
Proof. exact max_capacity_spec. Qed.
Print Assumptions C06_max_capacity.

(* when SharedCapacity is a multiple of Factor, provisioned partitions x factor is the shared capacity *)
Theorem C06_provisioned_is_shared_when_divisible : forall a b, 0 < b -> (b | a) -> ceil_div a b * b = a.
Proof. exact ceil_div_exact. Qed.
Print Assumptions C06_provisioned_is_shared_when_divisible.

Theorem C06_never_more_than_500_partitions : forall c r sh s, sreachable c r sh s ->
  Z.of_nat (length (s_parts s)) <= max_partitions.
Proof. intros c r sh s R. exact (proj1 (range_reachable c r sh s R)). Qed.
Print Assumptions C06_never_more_than_500_partitions.

Theorem C06_partition_count_v2 : forall c s s' o,
  sc_gen c = V2 -> sstep c s SILoopProvision = Some (s', o) ->
  length (s_parts s') = Z.to_nat (Z.min (partition_count (s_shared s) (s_factor s)) max_partitions)
  /\ In (SOLmCreate (Z.min (partition_count (s_shared s) (s_factor s)) max_partitions)) o
  /\ (max_partitions < partition_count (s_shared s) (s_factor s) -> In (SOEvError (partition_count (s_shared s) (s_factor s))) o)
  /\ (forall i, (i < length (s_parts s'))%nat -> (i < length (s_parts s))%nat -> nth_error (s_parts s') i = nth_error (s_parts s) i)
  /\ (forall i, (i < length (s_parts s'))%nat -> (length (s_parts s) <= i)%nat -> nth_error (s_parts s') i = Some None)
  /\ s_loop s' = SCreating (Z.min (partition_count (s_shared s) (s_factor s)) max_partitions).
Proof. exact provision_count_v2. Qed.
Print Assumptions C06_partition_count_v2.

Theorem C06_partition_count_v1 : forall c s a b s' o,
  sc_gen c = V1 -> s_phase s = SUninit -> sstep c s (SAProvision a b) = Some (s', o) -> s_phase s' = SProvisioned ->
  let f := if s_factor s =? 0 then 1 else s_factor s in
  partition_count (s_shared s) f <= max_partitions
  /\ length (s_parts s') = Z.to_nat (partition_count (s_shared s) f)
  /\ In (SOLmCreate (partition_count (s_shared s) f)) o.
Proof. exact provision_count_v1. Qed.
Print Assumptions C06_partition_count_v1.

Theorem C06_v1_refuses_more_than_500 : forall c s a b s' o,
  sc_gen c = V1 -> s_phase s = SUninit -> sc_has_mgr c = true -> 1 <= s_shared s -> a = true ->
  max_partitions < partition_count (s_shared s) (if s_factor s =? 0 then 1 else s_factor s) ->
  sstep c s (SAProvision a b) = Some (s', o) -> In (SOProvisionRet false 4) o /\ s_phase s' = SUninit.
Proof. exact provision_refused_v1. Qed.
Print Assumptions C06_v1_refuses_more_than_500.

(* v1's ProvisionedResource (Model/Lease.v, prov_*; compared with the real type on every run: cases "provres" of
   the lease history): both getters return the configured value whatever has been called before, Start raises one
   capacity event carrying it, Stop one shutdown event, Provision and GiveMe are no-ops *)
Theorem C06_provisioned_resource : forall m,
  prov_capacity m = m /\ prov_max_capacity m = m
  /\ prov_step m POStart = [PECapacity m] /\ prov_step m POStop = [PEShutdown]
  /\ prov_step m POProvision = [] /\ prov_step m POGiveMe = [].
Proof. intro m. repeat split; reflexivity. Qed.
Print Assumptions C06_provisioned_resource.

(* tie to the source: calc() counts the table and stores the result under the partition lock in both generations
   (facts regenerated from the Go sources on every run), which is what makes the model's atomic calc faithful *)
Module SrcCalc.
Import String.
Theorem C06_recalculation_is_atomic :
  calc_store_locked FV1 "AzureSharedResource.calc" = true /\ calc_store_locked FV2 "sharedResource.calc" = true.
Proof. split; vm_compute; reflexivity. Qed.
End SrcCalc.

Theorem C06_source_constants : V1_partition_limit = max_partitions /\ V2_partition_limit = max_partitions.
Proof. split; reflexivity. Qed.

(* non-vacuity: reserved 5, shared 7, factor 3 -> 3 partitions; two grants counted *)
Example C06_nonvacuous :
  exists s os, srun (mkSCfg V2 3 0 true) (sinit (mkSCfg V2 3 0 true) 5 7)
     [SAStart true; SILoopProvision; SICreateRet; SAGiveMe 12; SILease 1; SILeaseRet (15 * sec); STime 100; SILease 0; SILeaseRet (15 * sec)]
     = Some (s, os) /\ capacity s = 11 /\ length (s_parts s) = 3%nat /\ max_capacity (mkSCfg V2 3 0 true) s = 12.
Proof. eexists. eexists. vm_compute. repeat split. Qed.
