(* Props/C11.v — C11: a stuck callback is written off exactly at MaxOperationTime. *)
From Coq Require Import List ZArith Bool Lia Permutation.
From RecordUpdate Require Import RecordUpdate.
From GB Require Import Model.Allowance Model.Batcher Proofs.Tactics Proofs.C01Inv Proofs.BatcherLocal
  Proofs.BatcherLocal2 Proofs.BatcherInv2 Proofs.BatcherInv3.
From GB Require Import Gen.Facts.
Import ListNotations.
Open Scope Z_scope.
(* the Watcher's MaxOperationTime if set (> 0), otherwise the Batcher's, otherwise 1 minute *)
Theorem C11_effective_timeout : forall c w, timeout_of c w = if 0 <? w_maxop (watcher c w) then w_maxop (watcher c w)
                             else if c_maxop c <=? 0 then 60000 * ms else c_maxop c.
Proof. exact timeout_of_spec. Qed.
Print Assumptions C11_effective_timeout.

Theorem C11_deadline_set_at_raise : forall c s w ops s' ev, raise c s w ops = (s', ev) ->
  exists b, batches s' = batches s ++ [b] /\ b_id b = next_bid s /\ b_w b = w /\ b_ops b = ops
    /\ b_raised b = now s /\ b_deadline b = now s + timeout_of c w
    /\ b_bumped b = 0%nat /\ b_entered b = false /\ b_returned b = false /\ b_done b = false
    /\ last_flush s' = Some (now s).
Proof. exact raise_deadline. Qed.
Print Assumptions C11_deadline_set_at_raise.

(* not earlier: before the deadline a batch whose callback has not returned cannot be finished *)
Theorem C11_not_earlier : forall c s id b, find_batch id (batches s) = Some b -> b_returned b = false -> now s < b_deadline b ->
  step c s (IBatchDone id) = None.
Proof. exact batch_done_not_enabled_early. Qed.
Print Assumptions C11_not_earlier.

(* not later: time cannot advance past the deadline of an unfinished batch (the write-off is urgent) *)
Theorem C11_not_later : forall c s t' s' o, step c s (TAdvance t') = Some (s', o) ->
  forall b, In b (batches s) -> b_done b = false -> NoDup (map b_id (batches s)) -> t' <= b_deadline b.
Proof. intros c s t' s' o H b I D N. simpl in H. unfold do_advance in H. destruct ((now s <? t') && quiescent c s && match next_due s with None => true | Some d => t' <=? d end) eqn:E; [|discriminate]. apply andb_prop in E. destruct E as [E E3]. apply andb_prop in E. destruct E as [E1 E2]. pose proof (quiescent_entered c s b E2 I N) as EN. apply (next_due_deadline c s b t' E2 I D N E3). Qed.
Print Assumptions C11_not_later.

(* only once *)
Theorem C11_written_off_once : forall c s id b, find_batch id (batches s) = Some b -> b_done b = true -> step c s (IBatchDone id) = None.
Proof. exact batch_done_once. Qed.
Print Assumptions C11_written_off_once.

(* at that moment the batch's cost leaves NeedsCapacity() and its slot is freed *)
Theorem C11_write_off_effects : forall c s id s' o, step c s (IBatchDone id) = Some (s', o) ->
  exists b, find_batch id (batches s) = Some b /\ b_started b = true /\ b_done b = false
    /\ (b_returned b = true \/ b_deadline b <= now s)
    /\ o = [] /\ target s' = target_sub (target s) (sum_cost_done (b_ops b))
    /\ (c_gen c = V2 -> (0 < c_maxconc c)%nat -> (0 < tokens s)%nat -> tokens s' = pred (tokens s))
    /\ (c_gen c = V1 \/ c_maxconc c = 0%nat -> tokens s' = tokens s)
    /\ batches s' = settle_batch (b <| b_done := true |>) (batches s).
Proof. exact batch_done_effect. Qed.
Print Assumptions C11_write_off_effects.

Theorem C11_late_return_changes_nothing : forall c s id s' o, step c s (ICbReturn id) = Some (s', o) -> target s' = target s /\ tokens s' = tokens s /\ buffer s' = buffer s.
Proof. exact cb_return_effect. Qed.
Print Assumptions C11_late_return_changes_nothing.


Theorem C11_source_constants :
  V1_default_maxOperationTime = default_maxop /\ V2_default_maxOperationTime = default_maxop.
Proof. split; reflexivity. Qed.
