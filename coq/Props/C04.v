(* Props/C04.v — C04: a partition is counted only while its lease is valid; instances never
   share one.  The store is the assumption stated in Model/Store.v (trusted base): a lease is
   granted only when no lease on the partition is unexpired, lasts [lease] from the grant, and
   the grant instant lies inside the call.  [yrun c (yinit c cfgs) ls = Some y]: y is reached by
   any interleaving ls of the instances' own steps, store decisions, faults, returns (any
   latency, grant early or late in the call) and time. *)
From Coq Require Import List ZArith Bool Lia.
From RecordUpdate Require Import RecordUpdate.
From GB Require Import Model.Allowance Model.Batcher Model.Shared Model.Store Proofs.Tactics Proofs.SharedInv Proofs.StoreInv.
Import ListNotations.
Open Scope Z_scope.

(* measured conservatively from the moment the request was issued: a grant is counted until
   exactly issue time + lease time, whatever the latency; a grant that has already run out by
   the time the call returns is not counted at all *)
Theorem C04_counted_until_issue_plus_lease : forall c s lt s' o p issued,
  s_loop s = SCalling p issued -> sstep c s (SILeaseRet lt) = Some (s', o) ->
  (exists since, s_loop s' = STop since) /\
  ( (s_parts s' = s_parts s /\ s_timers s' = s_timers s /\ (lt <= 0 \/ issued + lt <= s_now s))
    \/ (0 < lt /\ s_now s < issued + lt /\ s_parts s' = set_nth p (Some (issued + lt)) (s_parts s)
        /\ s_timers s' = (p, issued + lt) :: s_timers s /\ In (SOEvAllocated p) o) ).
Proof. exact lease_ret_expiry. Qed.
Print Assumptions C04_counted_until_issue_plus_lease.

(* every count is covered by a store lease of the same instance that ends no earlier, unless
   that store lease is already over (in which case the local count is over too: its expiry is
   not later and time cannot pass a running timer, C07_timers_are_never_passed) *)
Theorem C04_count_within_store_lease : forall c cfgs ls y i s p e,
  yrun c (yinit c cfgs) ls = Some y -> nth_error (y_insts y) i = Some s ->
  nth_error (s_parts s) p = Some (Some e) -> exists E, e <= E /\ holds y i p E.
Proof.
  intros c cfgs ls y i s p e R A B.
  pose proof (yinv_run c ls _ _ (yinv_init c cfgs) R) as (_ & _ & I2 & _). exact (I2 i s p e A B).
Qed.
Print Assumptions C04_count_within_store_lease.

(* no partition is counted by two instances at once *)
Theorem C04_never_shared : forall c cfgs ls y i j si sj p ei ej,
  yrun c (yinit c cfgs) ls = Some y -> i <> j ->
  nth_error (y_insts y) i = Some si -> nth_error (y_insts y) j = Some sj ->
  nth_error (s_parts si) p = Some (Some ei) -> nth_error (s_parts sj) p = Some (Some ej) ->
  y_now y < ei -> y_now y < ej -> False.
Proof. exact exclusive. Qed.
Print Assumptions C04_never_shared.

(* per instance the shared part of the capacity is factor x counted partitions (C06), and the
   counted partitions of different instances are disjoint (above), all below the partition count:
   hence the sum over instances never exceeds partitions x factor.  The sum itself is checked
   on every recorded multi-instance history by the monitor (c04:sum). *)

(* non-vacuity: two instances, one partition, the first call is slow (2 s); the second
   instance is refused while the first one's lease runs, withdraws its demand (an instance that keeps
   its demand polls at least every MaxInterval), asks again when the lease is over and gets the partition *)
Definition ex_c : scfg := mkSCfg V2 1 0 true.
Example C04_nonvacuous :
  exists y, yrun ex_c (yinit ex_c [(0, 1); (0, 1)])
    [YInst 0 (SAStart true); YInst 1 (SAStart true); YInst 0 SILoopProvision; YInst 0 SICreateRet; YInst 1 SILoopProvision; YInst 1 SICreateRet;
     YInst 0 (SAGiveMe 1); YInst 0 (SILease 0); YDecide 0; YTime (2 * sec); YReturn 0;
     YInst 1 (SAGiveMe 1); YInst 1 (SILease 0); YDecide 1; YReturn 1; YInst 1 (SAGiveMe 0);
     YTime (15 * sec); YInst 0 (SIExpire 0);
     YInst 1 (SAGiveMe 1); YInst 1 (SILease 0); YDecide 1; YReturn 1] = Some y
    /\ map (fun s => held s) (y_insts y) = [0; 1].
Proof. eexists. vm_compute. split; reflexivity. Qed.
