(* Props/C20.v — C20: the public API is safe under concurrent use and listeners see every event.

   Listener clauses: theorems over the event-API model (Model/Eventer.v) for every interleaving
   of AddListener, RemoveListener and any number of concurrent emits.  Reading guide: EDoAdd /
   EDoRemove are the map updates, which happen inside the respective call (between its begin and
   its return) under the write lock; EEmitLock .. EEmitUnlock bracket the iteration under the
   read lock.  "Registered before the event is raised" means EDoAdd precedes EEmitLock;
   "after RemoveListener has returned" implies after EDoRemove.

   Locking discipline: computations over the facts regenerated from the Go sources on every
   run (Gen/Facts.v by tools/facts): listeners are invoked under the read lock, the map is
   changed under the write lock, the lock-order relation is acyclic, no lock is held across a
   blocking wait (two documented exceptions), nothing unclassified.

   Data races in the sense of the Go memory model are not a statement about these models
   (DESIGN.md 5): they are covered by the stress run under the race detector in the check. *)
From Coq Require Import List Bool Arith String.
From GB Require Import Model.Eventer Proofs.EventerProofs Gen.Facts Proofs.FactsChecks.
Import ListNotations.

Theorem C20_no_delivery_after_remove : forall s e x s',
  ereachable s -> In x (e_removed s) -> estep s (EDeliver e x) = Some s' -> False.
Proof. exact no_delivery_after_remove. Qed.
Print Assumptions C20_no_delivery_after_remove.

Theorem C20_removal_is_permanent : forall s l s' x,
  ereachable s -> In x (e_removed s) -> estep s l = Some s' -> In x (e_removed s') /\ ~ In x (e_listeners s').
Proof. exact removed_stays_removed. Qed.
Print Assumptions C20_removal_is_permanent.

Theorem C20_at_most_once : forall s e x s' d,
  get_emit (e_emits s) e = Some d -> In x d -> estep s (EDeliver e x) = Some s' -> False.
Proof. exact at_most_once. Qed.
Print Assumptions C20_at_most_once.

Theorem C20_every_registered_listener_is_called : forall s e s' d x,
  get_emit (e_emits s) e = Some d -> estep s (EEmitUnlock e) = Some s' -> In x (e_listeners s) -> In x d.
Proof. exact exactly_once_at_unlock. Qed.
Print Assumptions C20_every_registered_listener_is_called.

Theorem C20_map_frozen_during_emit : forall s l s',
  e_emits s <> [] -> estep s l = Some s' -> e_listeners s' = e_listeners s.
Proof. exact map_frozen_during_emit. Qed.
Print Assumptions C20_map_frozen_during_emit.

Theorem C20_emit_never_stuck : forall s e d,
  ereachable s -> get_emit (e_emits s) e = Some d ->
  (exists s', estep s (EEmitUnlock e) = Some s') \/ (exists x s', estep s (EDeliver e x) = Some s').
Proof. exact emit_never_stuck. Qed.
Print Assumptions C20_emit_never_stuck.

(* ---- the locking discipline, on the facts extracted from the current sources ---- *)

Theorem C20_listeners_called_under_read_lock :
  emit_under_rlock FV1 "eventer.emit" = true /\ emit_under_rlock FV2 "EventerBase.Emit" = true.
Proof. split; vm_compute; reflexivity. Qed.

Theorem C20_map_changed_under_write_lock :
  mutates_under_wlock FV1 "eventer.AddListener" "uuid.New" = true
  /\ mutates_under_wlock FV1 "eventer.RemoveListener" "delete" = true
  /\ mutates_under_wlock FV2 "EventerBase.AddListener" "uuid.New" = true
  /\ mutates_under_wlock FV2 "EventerBase.RemoveListener" "delete" = true.
Proof. repeat split; vm_compute; reflexivity. Qed.

Theorem C20_lock_order_acyclic : lock_order_acyclic = true.
Proof. vm_compute. reflexivity. Qed.

Theorem C20_no_lock_held_while_waiting : no_hold_while_waiting = true.
Proof. vm_compute. reflexivity. Qed.

Theorem C20_shared_fields_only_under_their_lock : fields_guarded = true /\ (50 <= field_accesses_seen)%nat.
Proof. split; vm_compute; [reflexivity|repeat constructor]. Qed.

Theorem C20_nothing_unclassified : no_unknown = true.
Proof. vm_compute. reflexivity. Qed.

Example C20_nonvacuous :
  exists s, erun einit [EDoAdd 1; EDoAdd 2; EEmitLock 7; EDeliver 7 2; EEmitLock 8; EDeliver 8 1; EDeliver 7 1; EEmitUnlock 7;
                        EDeliver 8 2; EEmitUnlock 8; EDoRemove 1; EEmitLock 9; EDeliver 9 2; EEmitUnlock 9] = Some s
    /\ e_log s = [(9, 2); (8, 2); (7, 1); (8, 1); (7, 2)] /\ e_removed s = [1].
Proof. eexists. vm_compute. repeat split. Qed.
