(* Props/C17.v — C17: SharedResource life cycle and live reconfiguration. *)
From Coq Require Import List ZArith Bool Lia.
From RecordUpdate Require Import RecordUpdate.
From GB Require Import Model.Allowance Model.Batcher Model.Shared Proofs.Tactics Proofs.SharedInv.
Import ListNotations.
Open Scope Z_scope.

Theorem C17_start_once : forall c s a s' o,
  sstep c s (SAStart a) = Some (s', o) ->
  (In (SOStartRet 0) o ->
     s_phase s = (match sc_gen c with V1 => SProvisioned | V2 => SUninit end) /\ s_phase s' = SStarted)
  /\ (s_phase s <> (match sc_gen c with V1 => SProvisioned | V2 => SUninit end) -> o = [SOStartRet 1] /\ s' = s).
Proof. exact sstart_once. Qed.
Print Assumptions C17_start_once.

Theorem C17_provision_failure_v2 : forall c s s' o,
  sc_gen c = V2 -> sc_has_mgr c = true -> s_phase s = SUninit ->
  sstep c s (SAStart false) = Some (s', o) ->
  In (SOStartRet 5) o /\ s_phase s' = SUninit /\ s_loop s' = s_loop s.
Proof. exact sstart_provision_failure_v2. Qed.
Print Assumptions C17_provision_failure_v2.

Theorem C17_provision_failure_v1 : forall c s b s' o,
  sc_gen c = V1 -> s_phase s = SUninit -> sstep c s (SAProvision false b) = Some (s', o) ->
  s_phase s' = SUninit /\ s_loop s' = s_loop s.
Proof. exact sprovision_failure_v1. Qed.
Print Assumptions C17_provision_failure_v1.

Theorem C17_one_shutdown_event : forall c r sh s, sreachable c r sh s ->
  s_shutdowns s = (if sexited s then 1 else 0)%nat /\ (sexited s = true -> s_phase s = SStopped).
Proof. exact slife_reachable. Qed.
Print Assumptions C17_one_shutdown_event.

Theorem C17_no_lease_after_shutdown : forall c s p, s_loop s = SExited -> sstep c s (SILease p) = None.
Proof. exact no_lease_after_shutdown. Qed.
Print Assumptions C17_no_lease_after_shutdown.

Theorem C17_shutdown_is_final : forall c s l s' o,
  s_loop s = SExited -> s_phase s = SStopped -> sstep c s l = Some (s', o) ->
  s_loop s' = SExited /\ s_phase s' = SStopped.
Proof. exact exited_stays. Qed.
Print Assumptions C17_shutdown_is_final.

Theorem C17_set_reserved_immediate : forall c s v s' o,
  sc_gen c = V2 -> sstep c s (SASetReserved v) = Some (s', o) ->
  s_reserved s' = v /\ capacity s' = held s * s_factor s + v
  /\ max_capacity c s' = Z.min (s_shared s) (s_factor s * max_partitions) + v
  /\ s_parts s' = s_parts s.
Proof. exact set_reserved_immediate. Qed.
Print Assumptions C17_set_reserved_immediate.

Theorem C17_set_shared_without_manager : forall c s v s' o,
  sc_gen c = V2 -> sc_has_mgr c = false -> sstep c s (SASetShared v) = Some (s', o) ->
  o = [SOSetSharedRet false] /\ s' = s.
Proof. exact set_shared_without_manager. Qed.
Print Assumptions C17_set_shared_without_manager.

Theorem C17_set_shared_requests_reprovisioning : forall c s v s' o,
  sc_gen c = V2 -> sc_has_mgr c = true -> sstep c s (SASetShared v) = Some (s', o) ->
  o = [SOSetSharedRet true] /\ s_shared s' = v /\ s_prov_req s' = true /\ s_parts s' = s_parts s.
Proof. exact set_shared_requests_provision. Qed.
Print Assumptions C17_set_shared_requests_reprovisioning.

(* re-provisioning keeps the partitions that still exist as they are (held ones stay counted),
   drops the others, and recomputes the capacity from the survivors *)
Theorem C17_resize : forall c s s' o,
  sc_gen c = V2 -> sstep c s SILoopProvision = Some (s', o) ->
  length (s_parts s') = Z.to_nat (Z.min (partition_count (s_shared s) (s_factor s)) max_partitions)
  /\ In (SOLmCreate (Z.min (partition_count (s_shared s) (s_factor s)) max_partitions)) o
  /\ (max_partitions < partition_count (s_shared s) (s_factor s) -> In (SOEvError (partition_count (s_shared s) (s_factor s))) o)
  /\ (forall i, (i < length (s_parts s'))%nat -> (i < length (s_parts s))%nat -> nth_error (s_parts s') i = nth_error (s_parts s) i)
  /\ (forall i, (i < length (s_parts s'))%nat -> (length (s_parts s) <= i)%nat -> nth_error (s_parts s') i = Some None)
  /\ s_loop s' = SCreating (Z.min (partition_count (s_shared s) (s_factor s)) max_partitions).
Proof. exact provision_count_v2. Qed.
Print Assumptions C17_resize.

(* never panics: the index of the lease call in flight is always inside the partition table
   (the table is only replaced by the loop itself, between two iterations) *)
Theorem C17_index_in_range : forall c r sh s p t, sreachable c r sh s ->
  s_loop s = SCalling p t -> (p < length (s_parts s))%nat.
Proof. intros c r sh s p t R. exact (proj2 (range_reachable c r sh s R) p t). Qed.
Print Assumptions C17_index_in_range.

(* a resize can leave the expiry timer of a dropped partition running; when the same index is created and acquired
   again, that stale timer must not clear the new lease (repair D9: the timer only clears the lease it was started
   for), while the lease's own timer does clear it *)
Theorem C17_stale_timer_keeps_reacquired_partition : forall c s p e s' o,
  sc_gen c = V2 -> nth_error (s_parts s) p = Some (Some e) -> e <> s_now s ->
  sstep c s (SIExpire p) = Some (s', o) -> s_parts s' = s_parts s.
Proof. exact stale_timer_keeps_new_lease. Qed.
Print Assumptions C17_stale_timer_keeps_reacquired_partition.

Theorem C17_own_timer_clears : forall c s p s' o,
  nth_error (s_parts s) p = Some (Some (s_now s)) ->
  sstep c s (SIExpire p) = Some (s', o) -> nth_error (s_parts s') p = Some None.
Proof. exact own_timer_clears. Qed.
Print Assumptions C17_own_timer_clears.


Example C17_nonvacuous :
  exists s os, srun (mkSCfg V2 1 0 true) (sinit (mkSCfg V2 1 0 true) 0 4)
     [SAStart true; SILoopProvision; SICreateRet; SAGiveMe 4; SILease 3; SILeaseRet (15 * sec); SAGiveMe 0; SASetShared 2; SILoopProvision; SICreateRet;
      SASetReserved 7; STime (15 * sec); SIExpire 3] = Some (s, os)
    /\ length (s_parts s) = 2%nat /\ capacity s = 7.
Proof. eexists. eexists. vm_compute. repeat split. Qed.
