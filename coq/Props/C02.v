(* Props/C02.v — C02: per-cycle rate limit.  "reachable c s": after any finite label
   sequence (any cost sequence, capacity profile, flush interval, interleaving of enqueues,
   ticks and manual flushes), either generation. *)
From Coq Require Import List ZArith Bool Lia Permutation.
From Coq Require String.
From RecordUpdate Require Import RecordUpdate.
From GB Require Import Model.Allowance Model.Batcher Proofs.Tactics Proofs.C01Inv Proofs.BatcherLocal
  Proofs.BatcherLocal2 Proofs.BatcherInv2 Proofs.BatcherInv3.
From GB Require Import Gen.Facts.
Import ListNotations.
Open Scope Z_scope.
(* an operation leaves the buffer only while the cost consumed so far in the cycle is below (V2) / not above (V1) the allowance *)
Theorem C02_take_only_under_allowance : forall c s s' ev o, do_cycle_visit c s = Some (s', ev) -> g_taken s' = o :: g_taken s -> c_limiter c = true ->
  match c_gen c with V2 => cy_consumed s < cy_allow s | V1 => cy_consumed s <= cy_allow s end.
Proof. exact visit_take_guard. Qed.
Print Assumptions C02_take_only_under_allowance.

(* cy_consumed is exactly the (uint32) sum of the costs of the operations taken in this cycle *)
Theorem C02_consumed_is_cost_taken : forall c s, reachable c s -> cy_consumed s = (sum_cost (g_taken s)) mod u32.
Proof. intros c s R. exact (proj1 (taken_reachable c s R)). Qed.
Print Assumptions C02_consumed_is_cost_taken.

(* so a cycle releases less than (V1: at most) allowance + cost of its last operation *)
Theorem C02_cycle_bound : forall c s o r, reachable c s -> c_limiter c = true -> g_taken s = o :: r -> 0 <= sum_cost r < u32 ->
  match c_gen c with
  | V2 => sum_cost (o :: r) < cy_allow s + o_cost o
  | V1 => sum_cost (o :: r) <= cy_allow s + o_cost o
  end.
Proof. intros c s o r R. apply cycle_bound. exact (taken_reachable c s R). Qed.
Print Assumptions C02_cycle_bound.

(* V2: nothing at all with a zero allowance *)
Theorem C02_zero_allowance_v2 : forall c s, reachable c s -> c_gen c = V2 -> c_limiter c = true -> cy_allow s = 0 ->
  Forall (fun o => 0 <= o_cost o) (g_taken s) -> g_taken s = [].
Proof. intros c s R. apply zero_allowance_v2. exact (taken_reachable c s R). Qed.
Print Assumptions C02_zero_allowance_v2.

(* the allowance is computed once, from Capacity() (not MaxCapacity()) as read when the cycle starts *)
Theorem C02_allowance_from_capacity_at_cycle_start : forall c s s' o, step c s ICycleBegin = Some (s', o) -> c_limiter c = true ->
  cy_allow s' = allowance c (capacity_now s) /\ In OCapRead o /\ cy_consumed s' = 0 /\ g_taken s' = [].
Proof. intros c s s' o H L. destruct (cycle_begin_allowance c s s' o H) as (_ & A & B & _ & _ & _ & _ & C). destruct (C L). tauto. Qed.
Print Assumptions C02_allowance_from_capacity_at_cycle_start.

(* V2: for integer consumed cost, consumed < allowance is exactly consumed < Capacity x FlushInterval / 1 s *)
Theorem C02_allowance_v2_is_real_valued_comparison : forall cap ms x, 0 <= cap -> 0 <= ms -> cap * ms + 999 < 1000 * (u32 - 1) ->
  (x < allowance_ceil cap ms <-> 1000 * x < cap * ms).
Proof. exact allowance_ceil_exact. Qed.
Print Assumptions C02_allowance_v2_is_real_valued_comparison.

(* cycles begun (plus a pending request) never exceed flush ticks handled + Flush() calls; ticks handled (plus a pending one) never exceed ticker instants elapsed: one automatic cycle per tick at most, one per Flush() at most *)
Theorem C02_cycles_are_counted : forall c s, reachable c s ->
  (g_cycles s + b2n (flush_tok s) <= g_flush_ticks s + g_flush_calls s)%nat
  /\ (g_flush_ticks s + b2n (t_pending (tk_flush s)) <= g_flush_fired s)%nat.
Proof. exact cycles_reachable. Qed.
Print Assumptions C02_cycles_are_counted.

Theorem C02_flush_calls_coalesce : forall c s s' o, flush_tok s = true -> step c s AFlush = Some (s', o) ->
  flush_tok s' = true /\ loop s' = loop s /\ g_cycles s' = g_cycles s.
Proof. exact flush_coalesces. Qed.
Print Assumptions C02_flush_calls_coalesce.

(* tie to the source (regenerated on every run by tools/facts): the default flush interval and the
   comparison operators of the cut-off test are the ones the model uses *)
Module Src.
Import String.
Theorem C02_source_constants :
  V1_default_flushInterval = default_flush /\ V2_default_flushInterval = default_flush
  /\ V1_cutoff_op = ">"%string /\ V2_cutoff_op = ">="%string.
Proof. repeat split; reflexivity. Qed.
End Src.

(* non-vacuity: a cycle that hits consumed = allowance exactly (V2, capacity 30/s, 100 ms: allowance 3) *)
Definition ex_cfg : cfg := mkCfg V2 10 false true 0 0 0 0 0 0 [mkW 0 0 0] 0 0 0 0.
Definition ex_enq (obj : nat) (cost : Z) : label := AEnqueue (mkE false (Some 0%nat) obj cost cost false 0 false).
Example C02_nonvacuous :
  exists s os, run ex_cfg (init ex_cfg)
     [ASetCap 30; ASetMaxCap 100; AStart; ex_enq 1 1; IEnqInsert 0; ex_enq 2 2; IEnqInsert 1; ex_enq 3 5; IEnqInsert 2;
      AFlush; ICycleBegin; ICycleVisit; ICycleVisit; ICycleVisit] = Some (s, os)
    /\ cy_allow s = 3 /\ cy_consumed s = 3 /\ length (g_taken s) = 2%nat /\ loop s = LCycleEnd /\ length (buffer s) = 1%nat.
Proof. eexists. eexists. vm_compute. repeat split. Qed.
