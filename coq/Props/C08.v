(* Props/C08.v — C08: no starvation, work conservation, Flush().  Liveness is proved as
   bounded progress: every cycle that can make progress does (head progress), a cycle leaves
   an operation behind only for one of the three permitted reasons, and a Flush() request is
   served before time can pass. *)
From Coq Require Import List ZArith Bool Lia Permutation.
From RecordUpdate Require Import RecordUpdate.
From GB Require Import Model.Allowance Model.Batcher Proofs.Tactics Proofs.C01Inv Proofs.BatcherLocal
  Proofs.BatcherLocal2 Proofs.BatcherInv2 Proofs.BatcherInv3.
From GB Require Import Proofs.OrderInv Proofs.ProgressInv.
Import ListNotations.
Open Scope Z_scope.
(* V2 (after the repair of D5): any positive capacity and a flush interval of at least 1 ms give an allowance of at least one unit *)
Theorem C08_allowance_positive : forall cap ms, 1 <= cap -> 1 <= ms -> 1 <= allowance_ceil cap ms.
Proof. exact allowance_ceil_positive. Qed.
Print Assumptions C08_allowance_positive.

(* the first visit of a cycle with a positive allowance (V2; any allowance in V1) and a free slot removes the head of the buffer *)
Theorem C08_head_progress : forall c s o rest, loop s = LCycle -> buffer s = o :: rest -> cy_consumed s = 0 ->
  (c_gen c = V2 -> cy_cur s = Some 0%nat) ->
  (c_limiter c = true -> c_gen c = V2 -> 0 < cy_allow s) ->
  (c_limiter c = true -> c_gen c = V1 -> 0 <= cy_allow s) ->
  (c_gen c = V2 -> try_reserve c s <> None) ->
  exists s' ev, do_cycle_visit c s = Some (s', ev) /\ g_taken s' = o :: g_taken s.
Proof. exact head_progress. Qed.
Print Assumptions C08_head_progress.

(* a cycle stops visiting only because the buffer is exhausted or the allowance is used up *)
Theorem C08_work_conserving_stop : forall c s s' ev, do_cycle_visit c s = Some (s', ev) -> loop s' = LCycleEnd ->
  match c_gen c with
  | V2 => cy_cur s = None \/ (exists i, cy_cur s = Some i /\ nth_error (buffer s) i = None)
          \/ (c_limiter c = true /\ cy_allow s <= cy_consumed s)
  | V1 => buffer s = [] \/ (c_limiter c = true /\ cy_allow s < cy_consumed s)
  end.
Proof. exact visit_stop_reason. Qed.
Print Assumptions C08_work_conserving_stop.

(* an operation is left in place (skipped) only when no batch slot is free *)
Theorem C08_work_conserving_skip : forall c s s' ev i, c_gen c = V2 -> do_cycle_visit c s = Some (s', ev) -> cy_cur s = Some i ->
  buffer s' = buffer s -> loop s' = LCycle -> try_reserve c s = None /\ g_taken s' = g_taken s.
Proof. exact visit_skip_reason. Qed.
Print Assumptions C08_work_conserving_skip.

(* an idle loop with a pending flush request is not settled: the cycle begins before time can advance *)
Theorem C08_flush_is_prompt : forall c s, loop s = LIdle -> flush_tok s = true -> quiescent c s = false.
Proof. exact flush_prompt. Qed.
Print Assumptions C08_flush_is_prompt.

Theorem C08_flush_sets_request : forall c s s' o, step c s AFlush = Some (s', o) -> flush_tok s' = true /\ o = [].
Proof. exact flush_sets_token. Qed.
Print Assumptions C08_flush_sets_request.

(* ticker-driven cycles keep coming: at every settled instant an idle loop has consumed every tick and request *)
Theorem C08_settled_idle_loop_has_served_everything : forall c s, quiescent c s = true -> loop s = LIdle ->
  t_pending (tk_cap s) = false /\ t_pending (tk_audit s) = false /\ t_pending (tk_flush s) = false
  /\ flush_tok s = false /\ pause_tok s = false /\ stop_req s = false.
Proof. exact quiescent_idle_nothing_pending. Qed.
Print Assumptions C08_settled_idle_loop_has_served_everything.

(* V2: removing an operation wakes exactly the longest-waiting blocked caller *)
Theorem C08_freed_slot_wakes_one_waiter : forall s i x r, waiting s = x :: r -> waiting (remove_at s i) = r /\ woken (remove_at s i) = woken s ++ [x].
Proof. intros s i x r W. unfold remove_at, signal_one. simpl. rewrite W. simpl. split; reflexivity. Qed.
Print Assumptions C08_freed_slot_wakes_one_waiter.


(* bounded progress without a slot limit (and in V1): operations are served in turn.  rank is 1 + the position in the
   buffer (0: not there), taken_total the number of operations taken out of the buffer so far.  From a state in which
   the operation with call number id is buffered at position i, in every execution, once i + 1 further operations
   have been taken the operation has left the buffer (delivered to a batch, or dropped by a V2 shutdown).  With
   C08_head_progress (a cycle with an allowance takes at least the head) an accepted operation waits at most as
   many such cycles as there are operations in front of it. *)
Theorem C08_served_in_turn : forall c id ls s s' os i,
  fifo c = true -> reachable c s -> pos_id id (buffer s) = Some i -> run c s ls = Some (s', os) ->
  (taken_total s + i + 1 <= taken_total s')%nat -> pos_id id (buffer s') = None.
Proof. exact served_in_turn. Qed.
Print Assumptions C08_served_in_turn.

Theorem C08_position_never_grows : forall c id ls s s' os,
  fifo c = true -> reachable c s -> In id (ids (g_inserted s)) -> run c s ls = Some (s', os) ->
  rank id s' = 0%nat \/ (rank id s' + taken_total s' <= rank id s + taken_total s)%nat.
Proof. exact fifo_progress. Qed.
Print Assumptions C08_position_never_grows.

(* a listener that takes its time (user code called from the loop): while it runs the loop does nothing else, time
   cannot pass the instant at which it returns, and at that instant the loop is idle again with every pending flush
   request, pause request and tick still there — so a Flush() made meanwhile starts a cycle the moment the loop is
   free (C08_flush_is_prompt applies to the idle loop) *)
Theorem C08_busy_listener_blocks_only_the_loop : forall c s l s' o x t,
  loop s = LBusy t -> step c s l = Some (s', o) -> In x o ->
  is_batch x = false /\ is_giveme x = false /\ is_audit x = false.
Proof. exact busy_quiet. Qed.
Print Assumptions C08_busy_listener_blocks_only_the_loop.

Theorem C08_busy_listener_returns_on_time : forall c s t t' s' o,
  loop s = LBusy t -> step c s (TAdvance t') = Some (s', o) -> t' <= t /\ loop s' = LBusy t.
Proof. exact busy_time. Qed.
Print Assumptions C08_busy_listener_returns_on_time.

Theorem C08_nothing_lost_while_listener_runs : forall c s s' o,
  step c s ILoopUnbusy = Some (s', o) ->
  exists t, loop s = LBusy t /\ t = now s /\ loop s' = LIdle /\ o = []
    /\ flush_tok s' = flush_tok s /\ pause_tok s' = pause_tok s /\ stop_req s' = stop_req s
    /\ tk_flush s' = tk_flush s /\ tk_cap s' = tk_cap s /\ tk_audit s' = tk_audit s /\ buffer s' = buffer s.
Proof. exact unbusy_effect. Qed.
Print Assumptions C08_nothing_lost_while_listener_runs.
