// tools/facts — a small syntactic translator from the Go sources of mspnp/go-batcher to Coq.
//
// It reads /repo/*.go and /repo/v2/*.go (non-test files, build tag verif off) and prints
// coq/Gen/Facts.v on stdout:
//   - for every function/method: which actions (calls, sends, receives, waits, go statements)
//     happen while which receiver mutexes are held (Lock / RLock / defer Unlock discipline);
//   - the constants the models take as parameters (default intervals, partition limit, lease
//     seconds, default poll interval, the comparison operator of the cycle cut-off test, the
//     order of the validation tests in Enqueue).
//
// The extraction is syntactic and conservative; what it cannot classify becomes an
// [Unknown] record, which the Coq side rejects.  Only the standard library is used.
package main

import (
	"fmt"
	"go/ast"
	"go/parser"
	"go/token"
	"os"
	"path/filepath"
	"sort"
	"strings"
)

type fact struct {
	gen    string // V1 / V2
	fn     string // Type.method
	held   []string
	action string // call / wait / send / recv / go / listener
	target string
}

var facts []fact
var consts = map[string]string{}
var constOrder []string

func setConst(k, v string) {
	if _, ok := consts[k]; !ok {
		constOrder = append(constOrder, k)
	}
	consts[k] = v
}

func exprString(e ast.Expr) string {
	switch x := e.(type) {
	case *ast.Ident:
		return x.Name
	case *ast.SelectorExpr:
		return exprString(x.X) + "." + x.Sel.Name
	case *ast.CallExpr:
		return exprString(x.Fun) + "()"
	case *ast.StarExpr:
		return exprString(x.X)
	case *ast.UnaryExpr:
		return x.Op.String() + exprString(x.X)
	case *ast.BasicLit:
		return x.Value
	case *ast.IndexExpr:
		return exprString(x.X) + "[]"
	case *ast.ParenExpr:
		return exprString(x.X)
	case *ast.CompositeLit:
		return exprString(x.Type) + "{}"
	}
	return "?"
}

// lockOp recognises r.someMutex.Lock() etc.; returns (mutex field, op)
func lockOp(call *ast.CallExpr) (string, string) {
	sel, ok := call.Fun.(*ast.SelectorExpr)
	if !ok {
		return "", ""
	}
	switch sel.Sel.Name {
	case "Lock", "RLock", "Unlock", "RUnlock":
		m := exprString(sel.X)
		if i := strings.LastIndex(m, "."); i >= 0 {
			m = m[i+1:]
		}
		low := strings.ToLower(m)
		if strings.Contains(low, "mutex") || strings.Contains(low, "lock") {
			return m, sel.Sel.Name
		}
	}
	return "", ""
}

type walker struct {
	gen, fn  string
	held     []string // e.g. "phaseMutex:W", "partlock:R"
	rangeVar map[string]bool
	recvVar  string // name of the method's receiver variable ("" for plain functions)
}

// fields that are shared between goroutines and protected by a mutex of the same struct
var guardedFields = map[string]bool{
	"partitions": true, "listeners": true, "phase": true,
	"head": true, "tail": true, "cursor": true, "isShutdown": true, "len": true,
}

// fieldAccesses records reads / writes of guarded receiver fields (r.<field>) inside e
func (w *walker) fieldAccesses(e ast.Expr, write bool) {
	if w.recvVar == "" || e == nil {
		return
	}
	ast.Inspect(e, func(n ast.Node) bool {
		switch x := n.(type) {
		case *ast.FuncLit:
			return false
		case *ast.SelectorExpr:
			if id, ok := x.X.(*ast.Ident); ok && id.Name == w.recvVar && guardedFields[x.Sel.Name] {
				if write {
					w.emit("write", x.Sel.Name)
				} else {
					w.emit("read", x.Sel.Name)
				}
			}
		}
		return true
	})
}

func (w *walker) has(l string) bool {
	for _, h := range w.held {
		if h == l {
			return true
		}
	}
	return false
}

func (w *walker) add(l string) {
	if !w.has(l) {
		w.held = append(w.held, l)
	}
}

func (w *walker) del(l string) {
	var n []string
	for _, h := range w.held {
		if h != l {
			n = append(n, h)
		}
	}
	w.held = n
}

func (w *walker) emit(action, target string) {
	h := append([]string{}, w.held...)
	sort.Strings(h)
	facts = append(facts, fact{w.gen, w.fn, h, action, target})
}

func (w *walker) call(c *ast.CallExpr, deferred bool) {
	if m, op := lockOp(c); m != "" {
		switch op {
		case "Lock":
			w.add(m + ":W")
		case "RLock":
			w.add(m + ":R")
		case "Unlock":
			if !deferred {
				w.del(m + ":W")
			}
		case "RUnlock":
			if !deferred {
				w.del(m + ":R")
			}
		}
		return
	}
	name := exprString(c.Fun)
	// a call of a function value taken from a range over listeners
	if id, ok := c.Fun.(*ast.Ident); ok && w.rangeVar[id.Name] {
		w.emit("listener", id.Name)
		return
	}
	switch {
	case strings.HasSuffix(name, ".Wait"):
		w.emit("wait", name)
	case name == "time.Sleep":
		w.emit("wait", name)
	default:
		w.emit("call", name)
	}
}

func (w *walker) stmts(list []ast.Stmt) {
	for _, s := range list {
		w.stmt(s)
	}
}

func (w *walker) exprCalls(e ast.Expr) {
	ast.Inspect(e, func(n ast.Node) bool {
		switch x := n.(type) {
		case *ast.FuncLit:
			return false
		case *ast.CallExpr:
			w.call(x, false)
		case *ast.UnaryExpr:
			if x.Op == token.ARROW {
				w.emit("recv", exprString(x.X))
			}
		}
		return true
	})
}

func (w *walker) stmt(s ast.Stmt) {
	switch x := s.(type) {
	case *ast.ExprStmt:
		w.exprCalls(x.X)
		w.fieldAccesses(x.X, false)
	case *ast.AssignStmt:
		for _, r := range x.Rhs {
			w.exprCalls(r)
			w.fieldAccesses(r, false)
		}
		for _, l := range x.Lhs {
			// r.f = v writes f; r.f[i] = v and r.f.g = v write through f
			w.fieldAccesses(l, true)
		}
	case *ast.IncDecStmt:
		w.fieldAccesses(x.X, true)
	case *ast.DeclStmt, *ast.BranchStmt, *ast.EmptyStmt:
	case *ast.ReturnStmt:
		for _, r := range x.Results {
			w.exprCalls(r)
			w.fieldAccesses(r, false)
		}
	case *ast.DeferStmt:
		if m, op := lockOp(x.Call); m != "" {
			_ = op // deferred unlock: the lock stays held to the end of the function
			return
		}
		if fl, ok := x.Call.Fun.(*ast.FuncLit); ok {
			w.stmts(fl.Body.List)
		}
	case *ast.GoStmt:
		w.emit("go", exprString(x.Call.Fun))
		if fl, ok := x.Call.Fun.(*ast.FuncLit); ok {
			// the goroutine body runs without the caller's locks
			w2 := &walker{gen: w.gen, fn: w.fn + "$go", rangeVar: map[string]bool{}, recvVar: w.recvVar}
			w2.stmts(fl.Body.List)
		}
	case *ast.SendStmt:
		w.emit("send", exprString(x.Chan))
	case *ast.IfStmt:
		if x.Init != nil {
			w.stmt(x.Init)
		}
		w.exprCalls(x.Cond)
		w.fieldAccesses(x.Cond, false)
		saved := append([]string{}, w.held...)
		w.stmts(x.Body.List)
		w.held = append([]string{}, saved...)
		if x.Else != nil {
			w.stmt(x.Else)
			w.held = saved
		}
	case *ast.BlockStmt:
		w.stmts(x.List)
	case *ast.ForStmt:
		if x.Cond != nil {
			w.exprCalls(x.Cond)
			w.fieldAccesses(x.Cond, false)
		}
		w.stmts(x.Body.List)
	case *ast.RangeStmt:
		w.fieldAccesses(x.X, false)
		if strings.HasSuffix(exprString(x.X), ".listeners") {
			if id, ok := x.Value.(*ast.Ident); ok {
				w.rangeVar[id.Name] = true
			}
		}
		w.stmts(x.Body.List)
	case *ast.SwitchStmt:
		if x.Tag != nil {
			w.exprCalls(x.Tag)
			w.fieldAccesses(x.Tag, false)
		}
		for _, c := range x.Body.List {
			cc := c.(*ast.CaseClause)
			for _, e := range cc.List {
				w.exprCalls(e)
				w.fieldAccesses(e, false)
			}
			saved := append([]string{}, w.held...)
			w.stmts(cc.Body)
			w.held = saved
		}
	case *ast.TypeSwitchStmt:
		for _, c := range x.Body.List {
			w.stmts(c.(*ast.CaseClause).Body)
		}
	case *ast.SelectStmt:
		hasDefault := false
		for _, c := range x.Body.List {
			if c.(*ast.CommClause).Comm == nil {
				hasDefault = true
			}
		}
		for _, c := range x.Body.List {
			cc := c.(*ast.CommClause)
			if cc.Comm != nil && !hasDefault {
				switch cm := cc.Comm.(type) {
				case *ast.SendStmt:
					w.emit("send", exprString(cm.Chan))
				case *ast.ExprStmt:
					w.exprCalls(cm.X)
				case *ast.AssignStmt:
					for _, r := range cm.Rhs {
						w.exprCalls(r)
					}
				}
			}
			saved := append([]string{}, w.held...)
			w.stmts(cc.Body)
			w.held = saved
		}
	case *ast.LabeledStmt:
		w.stmt(x.Stmt)
	default:
		w.emit("unknown", fmt.Sprintf("%T", s))
	}
}

func recvName(fd *ast.FuncDecl) string {
	if fd.Recv == nil || len(fd.Recv.List) == 0 {
		return ""
	}
	return exprString(fd.Recv.List[0].Type)
}

// ---- constants ----

func durationLit(e ast.Expr) string {
	// N * time.Unit  -> nanoseconds as a decimal string
	be, ok := e.(*ast.BinaryExpr)
	if !ok || be.Op != token.MUL {
		return ""
	}
	lit, ok := be.X.(*ast.BasicLit)
	if !ok {
		return ""
	}
	unit := exprString(be.Y)
	mult := map[string]string{"time.Millisecond": "000000", "time.Second": "000000000", "time.Minute": "MIN"}[unit]
	if mult == "" {
		return ""
	}
	if mult == "MIN" {
		var n int64
		fmt.Sscan(lit.Value, &n)
		return fmt.Sprint(n * 60 * 1000000000)
	}
	return lit.Value + mult
}

func scanConsts(gen string, f *ast.File) {
	ast.Inspect(f, func(n ast.Node) bool {
		switch x := n.(type) {
		case *ast.FuncDecl:
			name := x.Name.Name
			if name == "applyDefaults" {
				ast.Inspect(x.Body, func(m ast.Node) bool {
					if is, ok := m.(*ast.IfStmt); ok {
						if be, ok := is.Cond.(*ast.BinaryExpr); ok && len(is.Body.List) == 1 {
							if as, ok := is.Body.List[0].(*ast.AssignStmt); ok && len(as.Rhs) == 1 {
								field := exprString(be.X)
								field = field[strings.LastIndex(field, ".")+1:]
								if d := durationLit(as.Rhs[0]); d != "" && be.Op == token.LEQ && exprString(be.Y) == "0" {
									setConst(gen+"_default_"+field, d)
								}
							}
						}
					}
					return true
				})
			}
			if name == "NewBatcher" {
				ast.Inspect(x.Body, func(m ast.Node) bool {
					if c, ok := m.(*ast.CallExpr); ok && exprString(c.Fun) == "NewBatcherWithBuffer" && len(c.Args) == 1 {
						setConst(gen+"_default_buffer", exprString(c.Args[0]))
					}
					return true
				})
			}
			if name == "Start" || name == "Enqueue" || name == "LeasePartition" || name == "leasePartition" || name == "Provision" {
				ast.Inspect(x.Body, func(m ast.Node) bool {
					switch y := m.(type) {
					case *ast.IfStmt:
						if be, ok := y.Cond.(*ast.BinaryExpr); ok && be.Op == token.LAND {
							if inner, ok := be.Y.(*ast.BinaryExpr); ok && exprString(be.X) == "enforceCapacity" && exprString(inner.X) == "consumed" {
								setConst(gen+"_cutoff_op", "\""+inner.Op.String()+"\"")
							}
						}
						// r.maxInterval default
						if be, ok := y.Cond.(*ast.BinaryExpr); ok && strings.HasSuffix(exprString(be.X), ".maxInterval") && len(y.Body.List) == 1 {
							if as, ok := y.Body.List[0].(*ast.AssignStmt); ok {
								setConst(gen+"_default_maxinterval", exprString(as.Rhs[0]))
							}
						}
						if be, ok := y.Cond.(*ast.BinaryExpr); ok && be.Op == token.GTR && exprString(be.X) == "count" {
							setConst(gen+"_partition_limit", exprString(be.Y))
						}
					case *ast.AssignStmt:
						if len(y.Lhs) == 1 && exprString(y.Lhs[0]) == "secondsToLease" {
							setConst(gen+"_lease_seconds", exprString(y.Rhs[0]))
						}
					case *ast.ValueSpec:
						if len(y.Names) == 1 && y.Names[0].Name == "secondsToLease" && len(y.Values) == 1 {
							setConst(gen+"_lease_seconds", exprString(y.Values[0]))
						}
					}
					return true
				})
			}
			if name == "Enqueue" && (recvName(x) == "Batcher" || recvName(x) == "batcher") {
				// order of the validation returns
				var order []string
				ast.Inspect(x.Body, func(m ast.Node) bool {
					if r, ok := m.(*ast.ReturnStmt); ok && len(r.Results) == 1 {
						s := exprString(r.Results[0])
						s = strings.TrimSuffix(s, "{}")
						if strings.HasSuffix(s, "Error") {
							order = append(order, "\""+s+"\"")
						}
					}
					return true
				})
				setConst(gen+"_enqueue_errors", "["+strings.Join(order, "; ")+"]")
			}
		case *ast.GenDecl:
			for _, sp := range x.Specs {
				if vs, ok := sp.(*ast.ValueSpec); ok && len(vs.Names) == 1 && vs.Names[0].Name == "maxPartitions" && len(vs.Values) == 1 {
					setConst(gen+"_partition_limit", exprString(vs.Values[0]))
				}
			}
		}
		return true
	})
}

func main() {
	root := "/repo"
	if len(os.Args) > 1 {
		root = os.Args[1]
	}
	for _, g := range []struct{ gen, dir string }{{"V1", root}, {"V2", filepath.Join(root, "v2")}} {
		files, _ := filepath.Glob(filepath.Join(g.dir, "*.go"))
		sort.Strings(files)
		fset := token.NewFileSet()
		for _, path := range files {
			base := filepath.Base(path)
			if strings.HasSuffix(base, "_test.go") || strings.HasPrefix(base, "verif_") {
				continue
			}
			f, err := parser.ParseFile(fset, path, nil, 0)
			if err != nil {
				fmt.Fprintln(os.Stderr, "parse error:", err)
				os.Exit(1)
			}
			scanConsts(g.gen, f)
			for _, d := range f.Decls {
				fd, ok := d.(*ast.FuncDecl)
				if !ok || fd.Body == nil {
					continue
				}
				name := fd.Name.Name
				if r := recvName(fd); r != "" {
					name = r + "." + name
				}
				w := &walker{gen: g.gen, fn: name, rangeVar: map[string]bool{}}
				if fd.Recv != nil && len(fd.Recv.List) > 0 && len(fd.Recv.List[0].Names) > 0 {
					w.recvVar = fd.Recv.List[0].Names[0].Name
				}
				w.stmts(fd.Body.List)
			}
		}
	}
	// ---- output ----
	fmt.Println("(* Gen/Facts.v — GENERATED by tools/facts from the Go sources on every run; do not edit. *)")
	fmt.Println("From Coq Require Import List String ZArith.")
	fmt.Println("Import ListNotations.")
	fmt.Println("Open Scope string_scope.")
	fmt.Println()
	fmt.Println("Inductive fgen := FV1 | FV2.")
	fmt.Println("Record fact := mkFact { f_gen : fgen; f_fn : string; f_held : list string; f_action : string; f_target : string }.")
	fmt.Println()
	fmt.Println("Definition facts : list fact := [")
	first := true
	for _, f := range facts {
		if len(f.held) == 0 && f.action != "unknown" && f.action != "read" && f.action != "write" {
			continue // nothing held: not a locking fact
		}
		if !first {
			fmt.Println(";")
		}
		first = false
		hs := make([]string, len(f.held))
		for i, h := range f.held {
			hs[i] = "\"" + h + "\""
		}
		fmt.Printf("  mkFact F%s \"%s\" [%s] \"%s\" \"%s\"", f.gen, f.fn, strings.Join(hs, "; "), f.action, strings.ReplaceAll(f.target, "\"", "'"))
	}
	fmt.Println("\n].")
	fmt.Println()
	for _, k := range constOrder {
		v := consts[k]
		switch {
		case strings.HasPrefix(v, "\""):
			fmt.Printf("Definition %s : string := %s.\n", k, v)
		case strings.HasPrefix(v, "["):
			fmt.Printf("Definition %s : list string := %s.\n", k, v)
		default:
			fmt.Printf("Definition %s : Z := %s%%Z.\n", k, v)
		}
	}
}
