module verif/facts

go 1.23
