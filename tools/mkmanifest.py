#!/usr/bin/env python3
"""Regenerates MANIFEST.json from bin/props.py: a property is claimed when it has a
Props/<id>.v theorem file and a configured check; every other property is listed under
not_applicable with the reason."""
import json, os, sys
V = os.path.dirname(os.path.dirname(os.path.abspath(__file__)))
sys.path.insert(0, os.path.join(V, "bin"))
from props import PROPS
props = [json.loads(l) for l in open(os.path.join(V, "properties.jsonl"))]
checks, na = [], []
for p in props:
    pid = p["id"]
    P = PROPS.get(pid)
    if P and os.path.exists(os.path.join(V, "coq", "Props", pid + ".v")) and not P.get("unclaimed"):
        checks.append(dict(
            property_id=pid,
            quick_cmd="bin/check %s --tier quick" % pid,
            thorough_cmd="bin/check %s --tier thorough" % pid,
            evidence_file="evidence/%s.json" % pid,
            replay_cmd_template="bin/check %s --replay {path}" % pid,
            engine=P["engine"],
            level_claimed=dict(category="proof", text=P["level_text"], design_ref=P.get("design_ref", "DESIGN.md section 3, " + pid)),
            level_note=P["level_note"],
            technique=P.get("technique", "machine-checked proof in Coq 8.16 (invariants over a hand-written executable LTS model) + correspondence check: trace inclusion of recorded histories of the real code in the extracted model")))
    else:
        na.append(dict(property_id=pid, reason=(P or {}).get("unclaimed") or "check not built yet (framework under construction, DESIGN.md section 6); to be claimed once its Coq theorems and correspondence check exist"))
m = dict(version=1, setup_cmd="bin/setup",
         hooks=dict(guard="verif", enable="go1.26 test -c -tags verif (harness module /verif/harness, replace directives to /repo and /repo/v2)",
                    baseline_off_cmd="cd /repo && go test -mod=mod -vet=off -count=1 ./... ; cd /repo/v2 && go test -mod=mod -vet=off -count=1 ./...",
                    source_commits=[l.split()[0] for l in os.popen("git -C /repo log --format='%h %s' --grep='^verif hooks'").read().splitlines()],
                    add_only=True),
         engines=[dict(name="lease", path="coq/Model/Lease.v", serves_properties=[c["property_id"] for c in checks if c["engine"] == "lease"],
                       kind_free_text="pure functional model of the Azure Blob lease manager; harness drives the real managers of both generations with fakes and through the real SDK client on an in-process transport"),
                  dict(name="shared", path="coq/Model/Shared.v", serves_properties=[c["property_id"] for c in checks if c["engine"] == "shared"],
                       kind_free_text="executable model of one shared-resource instance in Coq, extracted to OCaml; Go synctest harness with N instances on one fake lease store; replay = the history determines the label sequence, the model decides enabledness and values"),
                  dict(name="batcher", path="coq/Model/Batcher.v", serves_properties=[c["property_id"] for c in checks if c["engine"] == "batcher"],
                       kind_free_text="executable LTS model of the Batcher (both generations) in Coq, extracted to OCaml; Go synctest harness records histories of the real code; replay = trace inclusion with hidden steps")],
         checks=checks, not_applicable=na,
         notes="Machine-checked proof in Coq 8.16 over hand-written executable models tied to /repo by a correspondence check (DESIGN.md). VERIF_SEED seeds every generator; VERIF_TIER is honoured. Exit codes: 0 pass, 1 violation (VIOLATION line), 3 infrastructure failure (no VIOLATION line).")
json.dump(m, open(os.path.join(V, "MANIFEST.json"), "w"), indent=1)
print("claimed:", [c["property_id"] for c in checks])
