#!/usr/bin/env python3
"""Shared machinery of the checks: building the Coq development, the extracted
replayer and the Go harness (from /repo's working tree, tag verif), running scenario
families in parallel shards, replaying the histories, collecting results."""
import json, os, re, subprocess, sys, time, shutil, glob, hashlib
from concurrent.futures import ThreadPoolExecutor

VERIF = os.path.dirname(os.path.dirname(os.path.abspath(__file__)))
WORK = os.path.join(VERIF, "work")
COQ = os.path.join(VERIF, "coq")
REPLAY = os.path.join(VERIF, "replay")
HARNESS = os.path.join(VERIF, "harness")
REPO = "/repo"
NCPU = os.cpu_count() or 8

GOENV = dict(os.environ, GOFLAGS="-mod=mod", GOPROXY="off", GOSUMDB="off", GOTOOLCHAIN="local",
             CGO_ENABLED="0")


class InfraError(Exception):
    pass


def sh(cmd, cwd=None, env=None, timeout=None, check=False):
    p = subprocess.run(cmd, cwd=cwd, env=env, timeout=timeout, shell=isinstance(cmd, str),
                       stdout=subprocess.PIPE, stderr=subprocess.STDOUT, text=True)
    if check and p.returncode != 0:
        raise InfraError("command failed (%s): %s\n%s" % (p.returncode, cmd, p.stdout[-4000:]))
    return p.returncode, p.stdout


def newer(src_files, target):
    if not os.path.exists(target):
        return True
    t = os.path.getmtime(target)
    return any(os.path.getmtime(f) > t for f in src_files if os.path.exists(f))


# ---------------------------------------------------------------- Coq

FORBIDDEN = re.compile(r"\b(Admitted|admit|Axiom|Parameter|Conjecture|Unset Guard|bypass_check|"
                       r"Admit Obligations|type-in-type|impredicative-set)\b")


def coq_sources():
    out = []
    for d in ("Model", "Proofs", "Props", "Replay", "Gen"):
        out += sorted(glob.glob(os.path.join(COQ, d, "*.v")))
    return out


def grep_forbidden():
    """Forbidden vernacular anywhere in the development (comments stripped)."""
    hits = []
    for f in coq_sources():
        txt = open(f).read()
        txt = re.sub(r"\(\*.*?\*\)", "", txt, flags=re.S)
        for i, line in enumerate(txt.splitlines(), 1):
            if FORBIDDEN.search(line):
                hits.append("%s:%d: %s" % (os.path.relpath(f, VERIF), i, line.strip()))
            if re.match(r"\s*(Variable|Hypothesis|Variables|Hypotheses)\b", line):
                # allowed inside sections only: checked coarsely by looking for an enclosing Section
                pre = "\n".join(txt.splitlines()[:i])
                if pre.count("Section ") <= pre.count("\nEnd "):
                    hits.append("%s:%d: %s (outside a section)" % (os.path.relpath(f, VERIF), i, line.strip()))
    return hits


def build_coq(timeout=1500):
    """Full .vo build of the development (incremental). Returns (ok, log)."""
    t0 = time.time()
    if newer([os.path.join(COQ, "_CoqProject")], os.path.join(COQ, "Makefile")):
        sh("coq_makefile -f _CoqProject -o Makefile", cwd=COQ, check=True)
    rc, out = sh("make -j%d 2>&1" % NCPU, cwd=COQ, timeout=timeout)
    return rc == 0, out, time.time() - t0


def build_coq_target(target, timeout=1500):
    """make <target> (a .vo of the development with everything it depends on)."""
    t0 = time.time()
    if newer([os.path.join(COQ, "_CoqProject")], os.path.join(COQ, "Makefile")):
        sh("coq_makefile -f _CoqProject -o Makefile", cwd=COQ, check=True)
    rc, out = sh("make -j%d %s 2>&1" % (NCPU, target), cwd=COQ, timeout=timeout)
    return rc == 0, out, time.time() - t0


def gen_facts():
    """Regenerates coq/Gen/Facts.v from /repo's sources (tools/facts)."""
    tool = os.path.join(VERIF, "tools", "facts")
    if not os.path.isdir(tool):
        return
    exe = os.path.join(WORK, "facts.exe")
    os.makedirs(WORK, exist_ok=True)
    rc, out = sh("go build -o %s ." % exe, cwd=tool, env=GOENV, timeout=300)
    if rc != 0:
        raise InfraError("facts tool does not build: " + out[-1000:])
    rc, out = sh([exe, REPO], timeout=120)
    if rc != 0:
        raise InfraError("facts tool failed: " + out[-1000:])
    dst = os.path.join(COQ, "Gen", "Facts.v")
    old = open(dst).read() if os.path.exists(dst) else None
    if old != out:
        open(dst, "w").write(out)


def vm_cross_check(buf_file, limit=400):
    """Evaluates recorded buffer cases inside Coq (vm_compute on Model/BufferPtr.v, no extraction involved).
    Returns (ok, n_cases, message)."""
    cases = []
    cur = None
    for line in open(buf_file):
        w = line.split()
        if not w:
            continue
        if w[0] == "seq":
            cur = (int(w[1]), w[2:])
        elif w[0] == "res" and cur:
            cases.append((cur[0], cur[1], w[1:]))
            cur = None
    if not cases:
        return True, 0, "no cases"
    # the longest ones and an even sample of the rest
    step = max(1, len(cases) // limit)
    sample = cases[::step][:limit] + sorted(cases, key=lambda x: -len(x[1]))[:50]

    def cmd(c, k):
        return {"T": "BTop", "S": "BSkip", "R": "BRemove", "X": "BShutdown"}.get(c) or \
            ("BEnqueue %d %s" % (k, "true" if c == "Ee" else "false"))

    def res(r):
        v, sz = r.split(":")
        m = {"nil": "RBufOp None", "ok": "RBufOk", "full": "RBufFull", "shut": "RBufShut", "wb": "RBufWouldBlock", "panic": "RBufPanic"}
        t = m.get(v) or ("RBufOp (Some %d)" % int(v[2:]))
        return "(%s, %s)" % (t, sz)

    lines = []
    for cap, cmds, rs in sample:
        k = 0
        cs = []
        for c in cmds:
            if c.startswith("E"):
                k += 1
            cs.append(cmd(c, k))
        lines.append("(%d, [%s], [%s])" % (cap, "; ".join(cs), "; ".join(res(r) for r in rs)))
    src = ("From Coq Require Import List Bool Arith.\nFrom GB Require Import Model.BufferPtr.\nImport ListNotations.\n"
           "Definition cases : list (nat * list bcmd * list (pres * nat)) := [\n" + ";\n".join(lines) + "\n]%nat.\n"
           "Definition all_ok := Eval vm_compute in forallb case_ok cases.\nPrint all_ok.\n")
    os.makedirs(os.path.join(WORK, "vm"), exist_ok=True)
    path = os.path.join(WORK, "vm", "BufferCases.v")
    open(path, "w").write(src)
    build_coq_target("Model/BufferPtr.vo")
    rc, out = sh("coqc -Q %s GB %s" % (COQ, path), cwd=os.path.join(WORK, "vm"), timeout=600)
    ok = rc == 0 and re.search(r"all_ok\s*=\s*true", out) is not None
    return ok, len(sample), out[-400:]


def vm_lease_check(lease_file, limit=100000):
    """Evaluates the recorded lease-manager cases inside Coq (vm_compute on Model/Lease.v). Returns (ok, n, msg)."""
    codes = {}
    cases = []
    cur = None
    for line in open(lease_file):
        w = line.split()
        if not w:
            continue
        if w[0] == "code":
            codes[w[2]] = int(w[1])
        elif w[0] == "case":
            cur = dict(gen=int(w[1]), kind=w[3], n=int(w[4]), index=int(w[5]), outs=w[6:], evs=[], ret=None, calls=0)
        elif w[0] == "endcase" and cur:
            cases.append(cur)
            cur = None
        elif cur is not None:
            if w[0] == "ev":
                cur["evs"].append(w[1:])
            elif w[0] == "ret":
                cur["ret"] = int(w[1])
            elif (w[0] == "call" and w[1] in ("upload", "acquire", "create-container")) or w[0] == "http":
                cur["calls"] += 1

    def ecode(o):
        m = {"ok": "EOk", "other": "ENonStorage", "cancel": "ENonStorage", "ContainerAlreadyExists": "EContainerAlreadyExists",
             "BlobAlreadyExists": "EBlobAlreadyExists", "LeaseIdMissing": "ELeaseIdMissing", "LeaseAlreadyPresent": "ELeaseAlreadyPresent"}
        return m.get(o) or "EOtherStorage %d" % codes.get(o, 9999)

    def ev(e):
        m = {"created-container": "LCreatedContainer", "verified-container": "LVerifiedContainer", "error": "LError"}
        if e[0] in m:
            return m[e[0]]
        return {"created-blob": "LCreatedBlob", "verified-blob": "LVerifiedBlob", "failed": "LFailed"}[e[0]] + " " + e[1]

    lines = []
    for c in cases[:limit]:
        if c["ret"] is None:
            continue
        if c["kind"] == "provision":
            k = "CProvision (%s)" % ecode(c["outs"][0])
        elif c["kind"] == "lease":
            k = "CLease %d (%s)" % (c["index"], ecode(c["outs"][0]))
        elif c["kind"] == "create":
            k = "CCreate %s %d [%s]" % ("V1" if c["gen"] == 1 else "V2", c["n"], "; ".join(ecode(o) for o in c["outs"]))
        else:
            continue
        lines.append("(%s, [%s], %d%%Z, %d%%nat)" % (k, "; ".join(ev(e) for e in c["evs"]), c["ret"], c["calls"]))
    src = ("From Coq Require Import List ZArith Bool Arith.\nFrom GB Require Import Model.Allowance Model.Batcher Model.Lease Replay.LeaseCases.\nImport ListNotations.\n"
           "Definition cases : list (lcase * list levent * Z * nat) := [\n" + ";\n".join(lines) + "\n].\n"
           "Definition all_ok := Eval vm_compute in forallb lcase_ok cases.\nPrint all_ok.\n"
           "Definition bad := Eval vm_compute in length (filter (fun c => negb (lcase_ok c)) cases).\nPrint bad.\n")
    os.makedirs(os.path.join(WORK, "vm"), exist_ok=True)
    path = os.path.join(WORK, "vm", "LeaseCasesRun.v")
    open(path, "w").write(src)
    build_coq_target("Replay/LeaseCases.vo")
    rc, out = sh("coqc -Q %s GB %s" % (COQ, path), cwd=os.path.join(WORK, "vm"), timeout=900)
    ok = rc == 0 and re.search(r"all_ok\s*=\s*true", out) is not None
    return ok, len(lines), out[-400:]


def print_assumptions(prop_file):
    """Re-runs coqc on a Props file and returns its Print Assumptions output."""
    rc, out = sh("coqc -Q . GB %s" % prop_file, cwd=COQ, timeout=600)
    return rc, out


def build_replayer():
    srcs = coq_sources() + [os.path.join(REPLAY, "main.ml"), os.path.join(REPLAY, "monitors.ml"), os.path.join(REPLAY, "shared.ml"), os.path.join(REPLAY, "smonitors.ml"), os.path.join(REPLAY, "lease.ml"), os.path.join(REPLAY, "eventer.ml"), os.path.join(REPLAY, "rt.ml"), os.path.join(REPLAY, "bufrep.ml"),
                            os.path.join(REPLAY, "build.sh")]
    exe = os.path.join(REPLAY, "replay.exe")
    if newer(srcs, exe):
        rc, out = sh("./build.sh", cwd=REPLAY, timeout=900)
        if rc != 0 or not os.path.exists(exe):
            raise InfraError("replayer build failed:\n" + out[-3000:])
    return exe


# ---------------------------------------------------------------- Go harness

def build_harness():
    """go test -c of the harness against /repo's current working tree (build cache makes this cheap)."""
    os.makedirs(WORK, exist_ok=True)
    # go.sum is derived from the repository's own
    sums = set()
    for f in (os.path.join(REPO, "go.sum"), os.path.join(REPO, "v2", "go.sum")):
        if os.path.exists(f):
            sums.update(open(f).read().splitlines())
    open(os.path.join(HARNESS, "go.sum"), "w").write("\n".join(sorted(x for x in sums if x.strip())) + "\n")
    exe = os.path.join(WORK, "harness.test")
    rc, out = sh("go1.26 test -c -tags verif -o %s ." % exe, cwd=HARNESS, env=GOENV, timeout=900)
    if rc != 0:
        return None, out
    return exe, out


def build_harness_race():
    """The same harness under the race detector (cgo), for the concurrent-use stress."""
    exe = os.path.join(WORK, "harness_race.test")
    rc, out = sh("go1.26 test -race -c -tags verif -o %s ." % exe, cwd=HARNESS, env=dict(GOENV, CGO_ENABLED="1"), timeout=1200)
    if rc != 0:
        return None, out
    return exe, out


def run_stress(exe, seed, ms, outdir, runs=4, test="TestStress"):
    """Runs the stress test `runs` times in parallel (different seeds); returns [(rc, logfile)]."""
    os.makedirs(outdir, exist_ok=True)

    def work(k):
        env = dict(GOENV, VERIF_OUT=outdir, VERIF_SEED=str(seed + k), VERIF_STRESS_MS=str(ms), GORACE="halt_on_error=0")
        try:
            p = subprocess.run([exe, "-test.run", "^%s$" % test, "-test.timeout", "600s"], env=env,
                               stdout=subprocess.PIPE, stderr=subprocess.STDOUT, text=True, timeout=900)
            rc, out = p.returncode, p.stdout
        except subprocess.TimeoutExpired as e:
            rc, out = 124, (e.stdout or "") + "\nTIMEOUT (deadlock under concurrent use?)"
        log = os.path.join(outdir, "%s-%d.log" % ("stress" if test == "TestStress" else "stressf", seed + k))
        open(log, "w").write("# seed %d ms %d\n" % (seed + k, ms) + out)
        return rc, log

    with ThreadPoolExecutor(max_workers=NCPU) as ex:
        return list(ex.map(work, range(runs)))


def azblob_dir():
    rc, out = sh("go list -m -f '{{.Dir}}' github.com/Azure/azure-storage-blob-go", cwd=REPO, env=GOENV, timeout=120)
    return out.strip().splitlines()[-1] if rc == 0 and out.strip() else ""


def crash_text(out):
    """The panic / fatal error part of a dead test process's output ('' if it did not crash that way)."""
    m = re.search(r"^(panic: |fatal error: |unexpected fault address)", out, re.M)
    if not m:
        return ""
    return out[m.start():m.start() + 6000]


def crash_summary(text):
    first = text.splitlines()[0] if text else ""
    fr = re.search(r"^(github\.com/mspnp/go-batcher\S*)\(", text, re.M)
    return "%s%s" % (first[:200], (" in " + fr.group(1)) if fr else "")


def run_family(exe, test, family, seed, n, outdir, shards=None, extra_env=None, watchdog=25):
    """Runs n scenarios of a family in parallel shards; returns list of history files.
    A shard that ends with status 3 (watchdog: real deadlock) is resumed after the hung scenario."""
    os.makedirs(outdir, exist_ok=True)
    shards = shards or min(NCPU, max(1, n // 4))
    per = (n + shards - 1) // shards
    jobs = []
    for k in range(shards):
        a, b = k * per, min(n, (k + 1) * per)
        if a < b:
            jobs.append((a, b))
    logs = []

    def work(job):
        a, b = job
        frm = a
        nhang = 0
        while frm < b:
            env = dict(GOENV, VERIF_OUT=outdir, VERIF_FAMILY=family, VERIF_SEED=str(seed), VERIF_N=str(b - frm),
                       VERIF_FROM=str(frm), VERIF_WATCHDOG_S=str(watchdog))
            if extra_env:
                env.update(extra_env)
            p = subprocess.run([exe, "-test.run", "^%s$" % test, "-test.timeout", "0"], env=env,
                               stdout=subprocess.PIPE, stderr=subprocess.STDOUT, text=True)
            if p.returncode == 3:
                # find the hung scenario: the last history file of this shard that contains "hang"
                hung = None
                for i in range(frm, b):
                    f = os.path.join(outdir, "%s-%d-%05d.hist" % (family, seed, i))
                    if os.path.exists(f) and open(f).read().rstrip().endswith("hang"):
                        hung = i
                logs.append("shard %d-%d: watchdog fired at scenario %s" % (a, b, hung))
                nhang += 1
                if hung is None or nhang >= 3:
                    break   # three deadlocked scenarios in one shard are evidence enough: do not wait for more watchdogs
                frm = hung + 1
                continue
            if p.returncode != 0:
                logs.append("shard %d-%d: exit %d\n%s" % (a, b, p.returncode, p.stdout[-3000:]))
                # the process died (a panic on some goroutine, a fatal runtime error): the scenario that was running
                # is the last one whose history file exists; its header is the scenario, so the file replays the crash
                crashed = None
                for i in range(frm, b):
                    if os.path.exists(os.path.join(outdir, "%s-%d-%05d.hist" % (family, seed, i))):
                        crashed = i
                if crashed is not None and crash_text(p.stdout):
                    f = os.path.join(outdir, "%s-%d-%05d.hist" % (family, seed, crashed))
                    open(f + ".crash", "w").write(crash_text(p.stdout))
                    frm = crashed + 1
                    continue
            break

    with ThreadPoolExecutor(max_workers=NCPU) as ex:
        list(ex.map(work, jobs))
    files = sorted(glob.glob(os.path.join(outdir, "%s-%d-*.hist" % (family, seed))))
    return files, logs


def run_script(exe, test, script, outdir, watchdog=25):
    os.makedirs(outdir, exist_ok=True)
    env = dict(GOENV, VERIF_OUT=outdir, VERIF_SCRIPT=script, VERIF_WATCHDOG_S=str(watchdog))
    p = subprocess.run([exe, "-test.run", "^%s$" % test, "-test.timeout", "0"], env=env,
                       stdout=subprocess.PIPE, stderr=subprocess.STDOUT, text=True)
    hist = os.path.join(outdir, "replay.hist")
    if p.returncode not in (0, 3) and crash_text(p.stdout) and os.path.exists(hist):
        open(hist + ".crash", "w").write(crash_text(p.stdout))
    return hist, p.returncode, p.stdout


# ---------------------------------------------------------------- replay

RES_RE = re.compile(r"^(ACCEPT|REJECT|FUEL|ERROR|MONITOR|STATS) (\S+) ?(.*)$")


def replay_files(exe, files, mode="replay", chunk=40):
    """Runs the replayer over the files in parallel; returns list of (verdict, file, rest)."""
    chunks = [files[i:i + chunk] for i in range(0, len(files), chunk)]

    def work(c):
        p = subprocess.run([exe, mode] + c, stdout=subprocess.PIPE, stderr=subprocess.STDOUT, text=True)
        return p.stdout

    res = []
    with ThreadPoolExecutor(max_workers=NCPU) as ex:
        for out in ex.map(work, chunks):
            for line in out.splitlines():
                m = RES_RE.match(line)
                if m:
                    res.append((m.group(1), m.group(2), m.group(3)))
                elif line.strip():
                    res.append(("ERROR", "?", line))
    return res
