"""Per-property configuration of the checks: engine, scenario families with
(name, quick count, thorough count), the cone (which kinds of model/implementation
disagreement are attributed to the property) and notes for the evidence."""

BAT_ASSUME = ["scenarios are sampled; the theorems quantify over all of them",
              "virtual time (testing/synctest): internal steps take no time"]

def bat(families, cone, level_text, explanation="", extra_assume=None):
    return dict(engine="batcher", families=families, cone=cone, assumptions=BAT_ASSUME + (extra_assume or []),
                level_text=level_text, explanation=explanation,
                level_note="Trusted: Coq kernel; extraction (ExtrOcamlBasic) and the OCaml reader/monitors; the Go harness (synctest) and its fakes; that sampled scenarios reach the code paths that matter (label coverage is reported). Modelled, not verified: Go runtime (channels, mutexes, sync.Cond, tickers), zero-duration internal steps. No axioms (Print Assumptions: closed under the global context).")

def shr(families, cone, level_text):
    return dict(engine="shared", test="TestShared", replay_mode="sreplay", families=families, cone=cone,
                family_tests={"rt-shared": "TestSharedRT", "lease": "TestLease"},
                assumptions=["scenarios are sampled; the theorems quantify over all of them",
                             "virtual time (testing/synctest); the lease store is the harness's fake (a lease excludes others until it expires; the grant instant lies inside the call)"],
                level_text=level_text,
                level_note="Trusted: Coq kernel; extraction (ExtrOcamlBasic) and the OCaml replayer/monitors; the Go harness (synctest), its fake lease manager and store. Modelled, not verified: Go runtime, math/rand, the Azure service's lease semantics. Histories in which two goroutines of one instance act in the same virtual instant are reported as inconclusive (their log order is not the order of the atomic steps). No axioms.")

ANY = r"^(loop:.*|other:.*|sample:.*|missing.*|act:.*|unknown:.*)$"

PROPS = {
    "C01": bat([("general", 300, 6000), ("slots", 150, 3000), ("dups", 100, 2000)],
               r"^(loop:batch|loop:flushdone|loop:flushstart|other:cbstart|other:cbret|other:enqret|sample:buf|sample:pending|missing.*|act:.*|unknown:.*)$",
               "Proof: conservation, uniqueness of instances across buffer/batches, own watcher, at-most-once and (at settled states) at-least-once callback entry, no delivery after an error or after shutdown are theorems over every reachable state of the Batcher model (all label sequences: any workload, interleaving, capacity profile, slot limit, buffer size, both generations). Tie to the code: recorded histories of the real implementation (synctest, tag verif) are replayed against the extracted model (trace inclusion) and checked by a model-free monitor."),
    "C02": bat([("limiter", 300, 6000), ("general", 150, 3000)],
               r"^(loop:batch|loop:capread|loop:flushstart|loop:flushdone|missing.*|act:.*|unknown:.*)$",
               "Proof: the take-guard of every visit, consumed = cost taken (invariant), the cycle bound and the V2 zero-allowance clause, allowance computed from Capacity() at cycle start, exactness of the V2 integer ceiling w.r.t. the real-valued comparison, and the counting of cycles against ticks and Flush() calls are theorems over all executions. The V1 binary64 allowance is modelled bit-exactly (SpecFloat) and compared with Go on every run; its relation to the real product is validated, not proved (partial, DESIGN.md 5)."),
    "C03": bat([("accounting", 300, 6000), ("hold", 150, 3000), ("general", 150, 3000)],
               r"^(sample:needs|loop:request|loop:giveme|loop:audit.*|other:enqret|sample:pending|missing.*|act:.*|unknown:.*)$",
               "Proof: NeedsCapacity() = summed cost of the outstanding operations (callers between count and insert, callers blocked on a full buffer, buffer, batches under construction, raised and unfinished batches, what a V2 shutdown dropped) is an invariant of every step (tinv_step) and hence holds at every moment of every execution that meets the property's own side conditions (costs stable and non-negative, total below 2^32, no audit reset of a non-zero figure, V1: no panic on the closed channel): any interleaving of enqueuers, completions, time-outs, pauses, cycles. Never negative, zero when nothing is outstanding, untouched by a rejected Enqueue, given back by a refused one. The unconditional statement is false of the code: C03_audit_race_refuted is the witness of finding D7 (audit not atomic with Enqueue)."),
    "C05": bat([("general", 300, 6000), ("dups", 100, 2000), ("coincide", 100, 2000)],
               r"^(loop:batch|other:cbstart|missing.*|act:.*|unknown:.*)$",
               "Proof: single watcher, non-empty, size limit, non-batchable alone, open batches strictly below the limit (hence a second batch only after a full one) and partial batches only at cycle end are invariants over all executions. Order: every raised batch, and the buffer, are subsequences of the insertion sequence (so operations keep enqueue order inside a batch under any slot limit and any skipping), and without a slot limit (and in V1) each watcher's batchable operations and all non-batchable operations are released in enqueue order across batches and cycles (C05_release_order_without_slot_limit)."),
    "C08": bat([("smallcap", 200, 4000), ("buffer", 150, 3000), ("slots", 150, 3000)],
               r"^(loop:batch|loop:capread|loop:flushstart|loop:flushdone|other:enqret|sample:buf|sample:pending|missing.*|act:.*|unknown:.*)$",
               "Proof (bounded-progress form of liveness): positive allowance for any positive capacity (V2 after repair D5), head progress of every cycle with allowance and a free slot, the only reasons to stop or skip, promptness and coalescing of Flush(), wake-up of exactly one waiter per removal. 'Eventually' over infinite runs is not expressed (DESIGN.md 5); its bounded form without a slot limit is: operations are served in turn — from position i in the buffer an operation has left it once i+1 further operations have been taken, in every execution (C08_served_in_turn); a listener that keeps the loop busy delays but loses nothing (C08_nothing_lost_while_listener_runs)."),
    "C10": bat([("slots", 300, 6000), ("slots-any", 100, 2000)],
               r"^(sample:inflight|loop:batch|loop:audit.*|sample:buf|missing.*|act:.*|unknown:.*)$",
               "Proof: the slot count never exceeds n (invariant), a slot is needed to open a batch, a skipped operation stays buffered, completion gives exactly one slot back once, at settled states every batch in progress has entered its callback. Inflight() = number of batches in progress (raised and unfinished, or under construction) with no goroutine stuck on the slot channel is an invariant of every step, in every execution in which no audit reset a non-zero slot count (C10_inflight_is_batches_in_progress)."),
    "C11": bat([("timeouts", 300, 6000), ("slots", 100, 2000)],
               r"^(sample:needs|sample:inflight|loop:request|loop:giveme|other:cbret|missing.*|act:.*|unknown:.*)$",
               "Proof: effective time-out (watcher > Batcher > 1 min), deadline fixed at raise, write-off not enabled before the deadline, time cannot pass the deadline of an unfinished batch, the write-off happens once and a late return changes nothing, its effects on demand and slots. Exactness is in virtual time (synctest), DESIGN.md 5."),
    "C12": bat([("ticks", 300, 6000), ("slots-any", 150, 3000), ("general", 100, 2000)],
               r"^(loop:request|loop:giveme|missing.*|act:.*|unknown:.*)$",
               "Proof: a request comes only from the idle loop consuming a capacity tick, only with a limiter, carries the current demand figure (zero included), one per tick; no tick is left unanswered at a settled instant while the loop is running; none during a pause or after shutdown."),
    "C13": bat([("pauses", 300, 6000), ("lifecycle", 150, 3000)],
               r"^(loop:pause|loop:resume|loop:.*|missing.*|act:.*|unknown:.*)$",
               "Proof: Pause() only acts when started (idempotent otherwise), the loop sleeps until exactly now + PauseTime, nothing but the resume comes from the loop meanwhile, time cannot pass the end of the pause, the resume is always enabled at that instant, nothing is lost across the pause (C01's invariant)."),
    "C14": bat([("admission", 300, 6000), ("dups", 150, 3000), ("general", 100, 2000)],
               r"^(other:enqret|sample:.*|other:cbstart|missing.*|act:.*|unknown:.*)$",
               "Proof: the decision table of Enqueue (pure function, in the order of the code), acceptance of everything else including cost = MaxCapacity and any cost without limiter, no side effect of a rejection, one attempt per delivery and no other change of attempt counters."),
    "C15": bat([("buffer", 300, 6000), ("general", 150, 3000), ("hold", 150, 3000), ("buffer-ops", 1, 2)],
               r"^(other:enqret|sample:buf|sample:pending|buffer:.*|missing.*|act:.*|unknown:.*)$",
               "Proof: the buffer bound (invariant), V1 blocks only when full, the error path gives the counted cost back, V2 shutdown wakes every waiter and every blocked or later caller returns BufferIsShutdown. V1's panic on the closed channel is the recorded finding D2 (refuted theorem with witness). The pointer-level linked list of v2/buffer.go (cells, head/tail/cursor pointers, the four cases of remove()) is modelled in Model/BufferPtr.v and proved to refine the list-with-cursor view for every sequence of operations (C15_linked_list_refines_list / _same_behaviour / _bounded / _never_panics); the real buffer is compared with the extracted pointer-level model on all short operation sequences and long random ones on every run (family buffer-ops)."),
    "C16": bat([("lifecycle", 300, 6000), ("pauses", 150, 3000)],
               r"^(other:startret|other:stopret|other:setterpanic|other:enqret|loop:shutdown|loop:.*|sample:pending|missing.*|act:.*|unknown:.*)$",
               "Proof: Start succeeds exactly once, setters panic after Start (V2), exactly one shutdown event, after it no batch and no capacity request, every settled state after a stop request has the loop exited or still asleep in a pause (termination in bounded-progress form), V2 Enqueue after shutdown returns an error. V1 Enqueue after Stop panics: recorded finding D2 (refuted theorem with witness)."),
    "C19": bat([("accounting", 200, 4000), ("hold", 150, 3000), ("stale", 150, 3000), ("ticks", 100, 2000)],
               r"^(loop:audit.*|sample:needs|sample:inflight|missing.*|act:.*|unknown:.*)$",
               "Proof: audit events come only from the audit steps; the test is made by the idle loop per AuditInterval tick (none left unanswered at a settled instant while running and not paused), skips or passes exactly under 'buffer empty and idle longer than MaxOperationTime'; pass changes nothing; with no watcher outlasting the Batcher (healthy) the reset finds every raised batch finished (timed invariant: time cannot pass a deadline, deadlines are within MaxOperationTime of the last raising flush), hence the demand figure (given no Enqueue in flight) and the slot count are zero and the audit passes; a stale non-zero figure is reset to zero with audit-fail by the first audit after the idle period. 'Only pass or skip in every healthy execution' is false of the code: C19_healthy_refuted (finding D7)."),
    "C06": shr([("sh-config", 300, 6000), ("sh-general", 200, 4000), ("sh-reconf", 150, 3000), ("rt-shared", 16, 320), ("lease", 1, 1)],
               r"^(sample:.*|value:.*|unexpected:.*|missing:.*|not-enabled:.*|unknown:.*|hang|lease.*)$",
               "Proof: the capacity formula (invariant: always in V2, at settled instants in V1), the upper bound, MaxCapacity, the partition count ceil(shared/factor) with the 500 limit (V1 refuses, V2 caps with an error event), counting of a grant until issue time + lease time. Tie to the code: every recorded history of the real v1/v2 resource (fake lease manager, synctest) is replayed step by step against the extracted model; a model-free monitor recomputes Capacity()/MaxCapacity()/CreatePartitions counts from the events."),
    "C07": shr([("sh-demand", 300, 6000), ("sh-general", 200, 4000), ("sh-multi", 100, 2000)],
               r"^(not-enabled:lease|value:.*|unexpected:.*|missing:.*|sample:capacity|unknown:.*|hang)$",
               "Proof: the guard of every lease request (counted < wanted, partition exists and is not counted), its invariant form over whole executions, wanted = ceil(max 0 (asked - reserved)/factor) set only by GiveMe, no request when demand is within the reserve, timers are never passed and never moved (no renewal). The decay bound follows from these (no new grant after demand falls + every grant ends at issue + lease); the numeric bound is checked by the monitor."),
    "C17": shr([("sh-life", 300, 6000), ("sh-reconf", 250, 5000), ("rt-shared", 12, 160)],
               r"^(value:.*|unexpected:.*|missing:.*|not-enabled:.*|sample:.*|unknown:.*|hang)$",
               "Proof: Start succeeds only from the right phase and once, provisioning failures leave the resource not started, exactly one shutdown event and no lease request after it, SetReservedCapacity takes effect at once in both getters, SetSharedCapacity is an error without lease manager and otherwise re-provisions keeping the surviving partitions, the lease index in flight is always in range (no panic)."),
    "C04": shr([("sh-multi", 300, 6000), ("sh-acquire", 150, 3000), ("sh-general", 100, 2000), ("sh-reconf", 150, 3000), ("rt-shared", 12, 160), ("lease", 1, 1)],
               r"^(value:.*|unexpected:.*|missing:.*|not-enabled:.*|sample:capacity|unknown:.*|hang|lease.*)$",
               "Proof: a grant is counted until exactly issue time + lease time whatever the call latency (after the repair of D6); in the composition of N instances with the lease store every count is covered by a store lease of the same instance that ends no earlier; hence no partition is counted by two instances at once — for all interleavings, latencies, grant instants inside the call, faults, reconfigurations. The store's lease semantics are an explicit assumption (Model/Store.v). The sum bound follows from exclusivity + C06 and is additionally checked on every recorded multi-instance history."),
    "C09": shr([("sh-acquire", 300, 6000), ("sh-multi", 200, 4000), ("sh-general", 100, 2000), ("lease", 1, 1)],
               r"^(value:.*|unexpected:.*|missing:.*|not-enabled:.*|sample:capacity|unknown:.*|hang|lease.*)$",
               "Proof (partial): faults are ordinary labels, so all invariants of C04/C06/C07 hold under any fault sequence; a lease call of any outcome returns the loop to its top, where a request is enabled whenever demand exceeds the count; a failed call changes nothing; the store grants as soon as the previous lease ran out (dead peers free their partitions by themselves). The numeric time bound involves the loop's random sleeps, which the model abstracts; it is decided on recorded histories by the monitor."),
    "C18": dict(engine="lease", test="TestLease", replay_mode="lreplay", needs_azblob=True,
                families=[("lease", 1, 1)], cone=r".*",
                assumptions=["the SDK's mapping from HTTP responses to azblob.StorageError is exercised (sdk-level cases) but not verified",
                             "the list of service codes is read from the pinned SDK source in the module cache on every run"],
                level_text="Proof: the classification at the three call sites (lease reported iff the acquire succeeded; failed vs error event; container-already-exists and blob-already-exists / lease-id-missing as the only benign codes), and by induction over the partition count and for every outcome function: blobs 0..n-1 attempted in order, the event of each blob determined by its own upload, V1 stops at and returns the first other error, V2 raises an error event and continues. Tie to the code: every service code of the SDK plus non-storage errors at each call site, every position of runs up to n=3 (thorough: 4) over a 6-letter alphabet, random runs up to n=40, against in-package fakes AND through the real SDK client on an in-process HTTP sender (blob names, If-None-Match, lease duration and id), compared with the extracted model case by case.",
                level_note="Trusted: Coq kernel; extraction and replay/lease.ml; the harness fakes. Modelled, not verified: the SDK client and the Azure service. No axioms.",
                technique="machine-checked proof in Coq 8.16 (pure functional model, induction over the partition count) + exhaustive differential comparison of the real lease managers with the extracted model over all SDK service codes"),
    "C20": dict(engine="eventer", test="TestEventer", replay_mode="ereplay", stress=True, watchdog=120,
                families=[("eventer", 6, 60), ("buffer", 120, 2400), ("lifecycle", 80, 1600), ("sh-life", 60, 1200)], cone=r"^(eventer.*|hang|missing.*|unknown:.*)$",
                family_tests={"buffer": "TestBatcher", "lifecycle": "TestBatcher", "sh-life": "TestShared"},
                assumptions=["real time (not synctest): the interleavings of add / remove / emit are those the Go scheduler produced, steered by listeners that block on channels",
                             "data races are searched for by the Go race detector on a stress run of every public method; absence of a report is evidence, not proof"],
                level_text="Proof: in the model of the event API (a listener map behind a read/write lock; any number of concurrent emits, adds and removes) no listener is called after its removal took effect, none twice for one event, every listener present when the emit took the lock is called before the emit returns, the map cannot change during an emit, and an emit can always finish. The locking discipline these theorems presuppose is not assumed but computed from the Go sources on every run (tools/facts -> Gen/Facts.v): listeners are invoked under the read lock, the map is changed only under the write lock, the lock-order relation over all mutexes of both generations is acyclic, no lock is held across a blocking wait, no statement is left unclassified. Tie to the code: recorded real-time histories of the real eventer (v1 and v2, through Batcher and SharedResource) are replayed against the extracted model and checked by a model-free monitor; the whole public API is stressed from many goroutines under -race.",
                level_note="Trusted: Coq kernel; the facts translator (go/ast walk, tools/facts); extraction and replay/eventer.ml; the race detector. Modelled, not verified: sync.RWMutex semantics, the Go memory model. No axioms.",
                technique="machine-checked proof in Coq 8.16 (state-machine model of the listener registry, invariants over all interleavings) + lock-discipline facts regenerated from the Go AST and decided by vm_compute + replay of recorded concurrent histories against the extracted model + stress under the Go race detector"),
}

PROPS["C15"]["family_tests"] = {"buffer-ops": "TestBuffer"}
# real-time functional stress under the race detector (harness/stressf.go): exactly-once and accounting at the end
PROPS["C01"]["stress_tests"] = ["TestStressFunctional"]
PROPS["C03"]["stress_tests"] = ["TestStressFunctional"]
