"""Per-property configuration of the checks: engine, scenario families with
(name, quick count, thorough count), the cone (which kinds of model/implementation
disagreement are attributed to the property) and notes for the evidence."""

BAT_ASSUME = ["scenarios are sampled; the theorems quantify over all of them",
              "virtual time (testing/synctest): internal steps take no time"]

PROPS = {
    "C01": dict(engine="batcher", families=[("general", 300, 6000)],
                cone=r"^(loop:batch|other:cbstart|other:cbret|sample:buf|missing|act:.*|unknown:.*)$",
                assumptions=BAT_ASSUME),
}
