"""Per-property configuration of the checks: engine, scenario families with
(name, quick count, thorough count), the cone (which kinds of model/implementation
disagreement are attributed to the property) and notes for the evidence."""

BAT_ASSUME = ["scenarios are sampled; the theorems quantify over all of them",
              "virtual time (testing/synctest): internal steps take no time"]

PROPS = {
    "C01": dict(engine="batcher", families=[("general", 300, 6000)],
                cone=r"^(loop:batch|other:cbstart|other:cbret|sample:buf|missing|act:.*|unknown:.*)$",
                assumptions=BAT_ASSUME,
                level_text="Proof: conservation, uniqueness of instances across buffer/batches, own-watcher, at-most-once and (at settled states) at-least-once callback entry, no delivery after an error or after shutdown are theorems over every reachable state of the Batcher model (all label sequences: any workload, interleaving, capacity profile, slot limit, buffer size, both generations). The model is tied to the code by replaying recorded histories of the real implementation (synctest, tag verif) against the extracted model and by a model-free monitor on the same histories.",
                level_note="Trusted: Coq kernel; extraction (ExtrOcamlBasic) and the OCaml reader; the harness and its fakes; that sampled scenarios reach the code paths that matter (label coverage is reported). Modelled, not verified: Go runtime (channels, mutexes, sync.Cond, tickers), zero-duration internal steps. No axioms (Print Assumptions: closed)."),
}
